"""C02 — a fresh interpreter that saves a sequence of collections (nothing of the running check's process state).
stdin: one JSON object {"steps": [{"collection", "audio_dir", "how", "share"}, …]};
stdout: one JSON list with, per step, the `data` member of the written file or {"raise": enum}."""
import json
import os
import sys
import warnings

warnings.filterwarnings("ignore")
HERE = os.path.dirname(os.path.dirname(os.path.abspath(__file__)))
sys.path.insert(0, HERE)
sys.path.insert(0, os.environ.get("SOUNDEVENT_SRC", "/repo/src"))


def main():
    from harness import aoef, aoef_impl, c02gen
    from harness.core import canon_exc
    from soundevent import io
    rq = json.loads(sys.stdin.readline())
    builder = aoef.Builder()
    path = aoef_impl.tmp_path("iso")
    out = []
    for st in rq["steps"]:
        try:
            b = builder if st.get("share") else (c02gen.SharingBuilder() if st.get("leaves") == "shared" else aoef.Builder())
            obj = c02gen.construct(b.collection(st["collection"]), st.get("how"))
            io.save(obj, path, audio_dir=aoef_impl.adir(st.get("audio_dir")))
            out.append(json.load(open(path))["data"])
        except Exception as e:  # noqa: BLE001
            out.append(canon_exc(e))
    aoef_impl.cleanup(path)
    try:
        os.rmdir(os.path.dirname(path))
    except OSError:
        pass
    sys.stdout.write(json.dumps(out) + "\n")


if __name__ == "__main__":
    main()
