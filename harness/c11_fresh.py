"""C11: run one history of buffer_geometry calls in a fresh Python process (no state of the running check).

  echo '<history json>' | python -m harness.c11_fresh      -> the canonical outputs of `buffer_history`

Used only after a history failed in the running check, to confirm that the recorded sequence fails on its own
(the replay of a history is the whole sequence; what an earlier, unrelated history of the same run left behind in
the module under test must not leak into the verdict of this one)."""
import json
import os
import subprocess
import sys

HERE = os.path.dirname(os.path.dirname(os.path.abspath(__file__)))


def run_fresh(h, timeout=120):
    env = dict(os.environ)
    env.setdefault("SOUNDEVENT_SRC", "/repo/src")
    p = subprocess.run([sys.executable, "-m", "harness.c11_fresh"], input=json.dumps(h), cwd=HERE, env=env,
                       stdout=subprocess.PIPE, stderr=subprocess.PIPE, text=True, timeout=timeout)
    if p.returncode != 0:
        raise RuntimeError("fresh process failed: " + p.stderr[-400:])
    return json.loads(p.stdout.strip().splitlines()[-1])


if __name__ == "__main__":
    import warnings
    warnings.filterwarnings("ignore")
    sys.path.insert(0, HERE)
    sys.path.insert(0, os.environ.get("SOUNDEVENT_SRC", "/repo/src"))
    from harness.props import c11
    h = json.load(sys.stdin)
    print(json.dumps(c11.HISTORY_RAW.impl(h)))
