"""Exact rational encoding of numbers for the line protocol.

Every binary64 value is a dyadic rational; it is sent as the string "n/d" of
``float.as_integer_ratio()`` so the Lean model computes on exactly the value the
implementation saw.  Replies are parsed back into ``fractions.Fraction``.
"""
from fractions import Fraction
import math


def rat(x) -> str:
    """number -> "n" or "n/d" (exact)."""
    if isinstance(x, bool):
        raise TypeError("bool is not a number here")
    if isinstance(x, int):
        return str(x)
    if isinstance(x, Fraction):
        return str(x.numerator) if x.denominator == 1 else f"{x.numerator}/{x.denominator}"
    x = float(x)
    if not math.isfinite(x):
        raise ValueError("non-finite float has no rational value")
    n, d = x.as_integer_ratio()
    return str(n) if d == 1 else f"{n}/{d}"


def frac(s) -> Fraction:
    """"n/d" | "n" | int -> Fraction"""
    if isinstance(s, int):
        return Fraction(s)
    return Fraction(s)


def rat_opt(x):
    return None if x is None else rat(x)


def rats(xs):
    return [rat(x) for x in xs]


def nested(x):
    """encode a nested list/tuple structure of numbers"""
    if isinstance(x, (list, tuple)):
        return [nested(y) for y in x]
    return rat(x)


def fracs(x):
    """decode a nested structure of rational strings"""
    if isinstance(x, list):
        return [fracs(y) for y in x]
    return frac(x)


def round_once_eq(q: Fraction, impl: float) -> bool:
    """impl is the correctly rounded binary64 value of the exact rational q"""
    return float(q) == float(impl)


def tol_eq(q: Fraction, impl, tol=2.0 ** -40) -> bool:
    q = float(q)
    return abs(float(impl) - q) <= tol * max(1.0, abs(q))


def dyadic(rng, lo, hi, k=3):
    """a multiple of 2^-k in [lo, hi] (exact in binary64 for moderate magnitudes)"""
    a = int(math.ceil(lo * (1 << k)))
    b = int(math.floor(hi * (1 << k)))
    return rng.randint(a, b) / (1 << k)
