#!/venv/bin/python
"""Self-test of the C08 / C09 checks (BUILDING.md "Self-test with mutants"); not part of a check.

usage:  /venv/bin/python harness/mutants_c08_c09.py C08|C09 [substring of a mutant name]

Expects a scratch worktree of /repo at /work/repo-D with fixes/C08-* and fixes/C09-* applied.
Applies one textual mutant at a time, runs the repo's tests for the area (PYTHONPATH set to the
scratch tree) and `./check Cxx --tier quick` with SOUNDEVENT_SRC pointing at it, prints the number
of VIOLATION lines, the exit code and the first replay, then restores the file."""
import subprocess, sys, os, json, shutil, time
R = "/work/repo-D"
DET = "src/soundevent/evaluation/tasks/sound_event_detection.py"
SEC = "src/soundevent/evaluation/tasks/sound_event_classification.py"
CC = "src/soundevent/evaluation/tasks/clip_classification.py"
ML = "src/soundevent/evaluation/tasks/clip_multilabel_classification.py"
MET = "src/soundevent/evaluation/metrics.py"
COM = "src/soundevent/evaluation/tasks/common.py"
ENC = "src/soundevent/evaluation/encoding.py"

MUT = {
 "C08": [
  ("filtered-index (revert C08-1 mapping of predictions)", DET, "            prediction_index = prediction_indices[prediction_index]\n", "            pass\n"),
  ("constant affinity", DET, "        affinity=affinity,\n        score=score,", "        affinity=1,\n        score=score,"),
  ("score of the wrong class (max score)", DET, "    score = metrics.classification_score(true_class, predicted_class_scores)", "    score = float(predicted_class_scores.max()) if len(predicted_class_scores) else 0.0"),
  ("mean over the wrong list (paired matches only)", DET, "            score=_mean([m.score for m in matches]),", "            score=_mean([m.score for m in matches if m.source is not None and m.target is not None]),"),
  ("zero scores dropped from a mean", DET, "    valid_scores = [score for score in scores if score is not None]", "    valid_scores = [score for score in scores if score]"),
  ("clip pairing by position", COM, "    for predictions in clip_predictions:\n        if predictions.clip.uuid in annotated_clips:\n            annotations = annotated_clips[predictions.clip.uuid]\n            yield annotations, predictions", "    for annotations, predictions in zip(clip_annotations, clip_predictions):\n        if predictions.clip.uuid in annotated_clips:\n            yield annotations, predictions"),
  ("matcher regression: zero-affinity assignments paired again (match.py)", "src/soundevent/evaluation/match.py", "        if cost_matrix[row, column] <= 0:", "        if cost_matrix[row, column] < 0:"),
  ("geometry-less annotations forgotten", DET, "    for annotation in clip_annotations.sound_events:\n        if annotation.sound_event.geometry:\n            continue\n", "    for annotation in []:\n        if annotation.sound_event.geometry:\n            continue\n"),
  ("unmatched annotation encoded as unlabelled", DET, "            true_classes.append(y_true)\n", "            true_classes.append(None)\n"),
  ("overall score = mean over all matches instead of clips", DET, "        score=_mean([c.score for c in evaluated_clips]),", "        score=_mean([m.score for c in evaluated_clips for m in c.matches]),"),
  ("annotation index mapped through the prediction table", DET, "            annotation_index = annotation_indices[annotation_index]\n", "            annotation_index = prediction_indices[annotation_index] if annotation_index < len(prediction_indices) else annotation_indices[annotation_index]\n"),
  ("shape change: fast path 'all predictions have a geometry' skips the annotation index table", DET, "    # Iterate over all matches between predictions and annotations.\n", "    if len(prediction_indices) == len(clip_predictions.sound_events):\n        annotation_indices = list(range(len(clip_annotations.sound_events)))\n\n    # Iterate over all matches between predictions and annotations.\n"),
  ("shape change: _mean renamed, NaN guard dropped and empty mean returned as 1.0", DET, None, None),
 ],
 "C09": [
  ("table rows swapped (accuracy <-> top3 terms) in clip_classification", CC, "    (terms.accuracy, metrics.accuracy),\n    (terms.top_3_accuracy, metrics.top_3_accuracy),", "    (terms.top_3_accuracy, metrics.accuracy),\n    (terms.accuracy, metrics.top_3_accuracy),"),
  ("duplicated term in detection table", DET, "    (terms.accuracy, metrics.accuracy),\n    (terms.top_3_accuracy", "    (terms.balanced_accuracy, metrics.accuracy),\n    (terms.top_3_accuracy"),
  ("term of another metric (average_precision for mAP) in multilabel", ML, "    (terms.mean_average_precision, metrics.mean_average_precision),", "    (terms.average_precision, metrics.mean_average_precision),"),
  ("none column missing in accuracy", MET, "    y_score = np.c_[y_score, 1 - y_score.sum(axis=1, keepdims=True)]\n    y_pred = y_score.argmax(axis=1)\n    return metrics.accuracy_score(", "    y_pred = y_score.argmax(axis=1)\n    return metrics.accuracy_score("),
  ("unlabelled rows kept in mAP (as class 0)", MET, "    y_true = y_true[~no_class]\n    y_score = y_score[~no_class]", "    y_true = np.nan_to_num(y_true)"),
  ("jaccard threshold >= instead of >", MET, "        y_pred=y_score > threshold,", "        y_pred=y_score >= threshold,"),
  ("metric fed the wrong array (clip-level AP on the thresholded scores)", ML, "                value=metric(true_class, predicted_class_scores),\n            )\n            for term, metric in EXAMPLE_METRICS", "                value=metric(true_class, (predicted_class_scores > 0.5).astype(np.float32)),\n            )\n            for term, metric in EXAMPLE_METRICS"),
  ("top-3 becomes top-2", MET, "[:, ::-1][:, :3]", "[:, ::-1][:, :2]"),
  ("none mass = 1 - max instead of 1 - sum (true_class_probability)", MET, "def true_class_probability(\n    y_true: Optional[int],\n    y_score: np.ndarray,\n) -> float:\n    if y_true is None:\n        return 1 - y_score.sum()", "def true_class_probability(\n    y_true: Optional[int],\n    y_score: np.ndarray,\n) -> float:\n    if y_true is None:\n        return 1 - y_score.max()"),
  ("balanced accuracy table row computes plain accuracy (SEC)", SEC, "    (terms.balanced_accuracy, metrics.balanced_accuracy),", "    (terms.balanced_accuracy, metrics.accuracy),\n    (terms.accuracy, metrics.balanced_accuracy),\n"[:-1]+"" ),
  ("overall score: clips without score count as 0 (SEC)", SEC, "        example.score\n        for example in evaluated_clip\n        if example.score is not None\n    ]", "        (example.score or 0.0)\n        for example in evaluated_clip\n    ]"),
  ("clip score = max instead of mean (SEC)", SEC, "    score = float(np.mean(scores)) if scores else None", "    score = float(np.max(scores)) if scores else None"),
  ("prediction_encoding keeps the max instead of the assigned score / float16", ENC, "    encoded = np.zeros(encoder.num_classes, dtype=np.float32)\n    for prediction in tags:", "    encoded = np.zeros(encoder.num_classes, dtype=np.float16)\n    for prediction in tags:"),
  ("first-wins argmax replaced by last-wins", MET, "    y_pred = y_score.argmax(axis=1)\n    return metrics.balanced_accuracy_score(", "    y_pred = y_score.shape[1] - 1 - y_score[:, ::-1].argmax(axis=1)\n    return metrics.balanced_accuracy_score("),
  ("shape change: RUN_METRICS renamed in clip_classification (and accuracy dropped)", CC, None, None),
  ("AOEF: match metrics not written", "src/soundevent/io/aoef/match.py", None, None),
 ],
}


def special(prop, name, path):
    s = open(os.path.join(R, path)).read()
    if "renamed, NaN guard" in name:
        s = s.replace("_mean(", "_average(").replace("    if not valid_scores:\n        return 0.0\n", "    if not valid_scores:\n        return 1.0\n")
    elif "RUN_METRICS renamed" in name:
        s = s.replace("RUN_METRICS", "EVALUATION_METRICS").replace("    (terms.accuracy, metrics.accuracy),\n", "")
    elif "AOEF" in name:
        import re
        i = s.index("            metrics=(")
        j = s.index("            ),", i) + len("            ),")
        s = s[:i] + "            metrics=None," + s[j:]
    open(os.path.join(R, path), "w").write(s)


def sh(cmd, **kw):
    return subprocess.run(cmd, shell=True, capture_output=True, text=True, **kw)


def main():
    prop = sys.argv[1]
    only = sys.argv[2] if len(sys.argv) > 2 else None
    for name, path, old, new in MUT[prop]:
        if only and only not in name:
            continue
        full = os.path.join(R, path)
        orig = open(full).read()
        try:
            if old is None:
                special(prop, name, path)
            else:
                assert orig.count(old) == 1, (name, orig.count(old))
                open(full, "w").write(orig.replace(old, new))
            t = sh(f"cd {R} && PYTHONPATH={R}/src /venv/bin/python -m pytest -q -x -p no:cacheprovider tests/test_evaluation tests/test_io 2>&1 | tail -1")
            t0 = time.time()
            c = sh(f"cd /work/verif-D && rm -rf replays && SOUNDEVENT_SRC={R}/src ./check {prop} --tier quick 2>&1 | grep -c '^VIOLATION'; echo rc=${{PIPESTATUS[0]}}", executable="/bin/bash")
            rc = sh(f"cd /work/verif-D && SOUNDEVENT_SRC={R}/src ./check {prop} --tier quick >/dev/null 2>&1; echo $?").stdout.strip() if False else ""
            first = ""
            rp = "/work/verif-D/replays"
            if os.path.isdir(rp) and os.listdir(rp):
                r = json.load(open(os.path.join(rp, sorted(os.listdir(rp))[0])))
                first = f"{r['kind']}/{r['op']}: {r['detail'][:110]}"
            print(f"[{prop}] {name}\n      repo tests: {t.stdout.strip()[-60:]}\n      check: {c.stdout.strip().replace(chr(10), ' ')} ({time.time()-t0:.0f}s) {first}", flush=True)
        finally:
            open(full, "w").write(orig)


main()
