"""C02 — directed generators of collections (model-layout JSON, see harness/aoef.py).

The pool generator of `aoefgen` makes *shared* objects likely; the property also speaks about the opposite corner:
objects that are reachable through exactly one path.  `Tree` builds object graphs without any sharing beyond what
the schema validators force (a clip evaluation's annotations and predictions are about one clip; matches pair
exactly the annotated / predicted sound events): every user, tag, recording, clip, sound event, sequence,
annotation, prediction hangs under exactly one referrer, so every reference field of the document is the *only*
path to its target.  `presence_cases` enumerates present / absent child lists exhaustively, `sequence_cases` the
parent chains (depth, shared parents, conversion order), `reidentify` rewrites identities between two saves.
"""
import copy
import itertools

from . import aoef as _aoef
from . import aoefgen
from .aoef import num

ANNOTATION_TYPES = ["annotation_set", "annotation_project", "evaluation_set"]
PREDICTION_TYPES = ["prediction_set", "model_run"]


class Tree:
    """fresh objects only; `full=True`: every optional reference present and every list non-empty"""

    def __init__(self, rng, base="/data/audio", full=True):
        self.g = aoefgen.Gen(rng, rich=full, base=base, size=0.4)
        self.rng = rng
        self.full = full
        self.n_tag = 0

    # -- leaves
    def uid(self):
        return self.g.uid()

    def stamp(self):
        return self.g.stamp()

    def user(self):
        return self.g.user()

    def tag(self):
        self.n_tag += 1
        return {"key": self.rng.choice(["k", "species", "", "a b"]) + str(self.n_tag), "value": self.rng.choice(["v", "", "0"])}

    def opt(self, f, p=0.5):
        return f() if (self.full or self.rng.random() < p) else None

    def lst(self, f, hi=2):
        lo = 1 if self.full else 0
        return [f() for _ in range(self.rng.randint(lo, hi))]

    def note(self):
        return {"uuid": self.uid(), "message": "m", "created_by": self.opt(self.user), "is_issue": False,
                "created_on": self.stamp()}

    def recording(self, owners=None, tags=None, notes=None):
        r = self.g.recording(self.rng.randint(0, 9))
        r["owners"] = self.lst(self.user) if owners is None else owners
        r["tags"] = self.lst(self.tag) if tags is None else tags
        r["notes"] = self.lst(self.note) if notes is None else notes
        return r

    def clip(self, rec=None):
        return {"uuid": self.uid(), "recording": rec or self.recording(), "start_time": num(0.0), "end_time": num(1.0),
                "features": []}

    def sound_event(self, rec=None):
        return {"uuid": self.uid(), "geometry": None, "recording": rec or self.recording(), "features": []}

    def sequence(self, depth=None, ses=None, empty_ancestors=False):
        """a chain of `depth` ancestors above the node, every node with its own sound events"""
        depth = self.rng.randint(0, 3) if depth is None else depth
        node = None
        for level in range(depth, -1, -1):          # root first
            own = [] if (empty_ancestors and level > 0) else self.lst(self.sound_event)
            node = {"uuid": self.uid(), "sound_events": own if (ses is None or level > 0) else ses, "features": [],
                    "parent": node}
        return node

    def sea(self, se=None, notes=None, tags=None, created_by="?"):
        return {"uuid": self.uid(), "sound_event": se or self.sound_event(),
                "notes": self.lst(self.note) if notes is None else notes,
                "tags": self.lst(self.tag) if tags is None else tags,
                "created_by": self.opt(self.user) if created_by == "?" else created_by, "created_on": self.stamp()}

    def sqa(self, seq=None, notes=None, tags=None, created_by="?"):
        return {"uuid": self.uid(), "sequence": seq or self.sequence(),
                "notes": self.lst(self.note) if notes is None else notes,
                "tags": self.lst(self.tag) if tags is None else tags,
                "created_by": self.opt(self.user) if created_by == "?" else created_by, "created_on": self.stamp()}

    def ca(self, clip=None, sound_events=None, sequences=None, tags=None, notes=None):
        return {"uuid": self.uid(), "clip": clip or self.clip(),
                "sound_events": self.lst(self.sea) if sound_events is None else sound_events,
                "sequences": self.lst(self.sqa) if sequences is None else sequences,
                "tags": self.lst(self.tag) if tags is None else tags,
                "notes": self.lst(self.note) if notes is None else notes, "created_on": self.stamp()}

    def ptag(self, score=None):
        return {"tag": self.tag(), "score": num(self.rng.choice([0.0, 1.0, 0.5]) if score is None else score)}

    def sep(self, se=None, tags=None):
        return {"uuid": self.uid(), "sound_event": se or self.sound_event(), "score": num(self.rng.choice([0.0, 0.5, 1.0])),
                "tags": self.lst(self.ptag) if tags is None else tags}

    def sqp(self, seq=None, tags=None):
        return {"uuid": self.uid(), "sequence": seq or self.sequence(), "score": num(self.rng.choice([0.0, 0.5, 1.0])),
                "tags": self.lst(self.ptag) if tags is None else tags}

    def cp(self, clip=None, sound_events=None, sequences=None, tags=None):
        return {"uuid": self.uid(), "clip": clip or self.clip(),
                "sound_events": self.lst(self.sep) if sound_events is None else sound_events,
                "sequences": self.lst(self.sqp) if sequences is None else sequences,
                "tags": self.lst(self.ptag) if tags is None else tags, "features": []}

    def task(self, clip=None, badges=None):
        if badges is None:
            badges = self.lst(lambda: {"state": self.rng.choice(aoefgen.STATES), "owner": self.opt(self.user),
                                       "created_on": self.stamp()})
        return {"uuid": self.uid(), "clip": clip or self.clip(), "status_badges": badges, "created_on": self.stamp()}

    def match(self, source, target):
        return {"uuid": self.uid(), "source": source, "target": target, "affinity": num(0.5), "score": None, "metrics": []}

    def ce(self, a=None, p=None):
        """the validators force one clip and matches covering exactly the annotated / predicted sound events"""
        clip = (a or p or {}).get("clip") or self.clip()
        a = a or self.ca(clip=clip)
        p = p or self.cp(clip=copy.deepcopy(clip))
        anns, preds = list(a["sound_events"]), list(p["sound_events"])
        ms = []
        if anns and preds:
            ms.append(self.match(copy.deepcopy(preds.pop()), copy.deepcopy(anns.pop())))
        ms += [self.match(None, copy.deepcopy(x)) for x in anns] + [self.match(copy.deepcopy(x), None) for x in preds]
        return {"uuid": self.uid(), "annotations": a, "predictions": p, "matches": ms, "metrics": [], "score": None}

    # -- collections around given members
    def wrap(self, ty, recordings=(), cas=(), cps=(), ces=(), tasks=None, tags=()):
        v = {"uuid": self.uid(), "created_on": self.stamp()}
        if ty in ("recording_set", "dataset"):
            v["recordings"] = list(recordings)
        if ty in ANNOTATION_TYPES:
            v["clip_annotations"] = list(cas)
        if ty in PREDICTION_TYPES:
            v["clip_predictions"] = list(cps)
        if ty in ("dataset", "annotation_project", "evaluation_set", "model_run"):
            v["name"] = "n"
            v["description"] = None
        if ty == "annotation_project":
            v["instructions"] = None
            v["annotation_tags"] = list(tags)
            # the schema requires every annotated clip to be the clip of some task
            need = [self.task(clip=copy.deepcopy(a["clip"])) for a in cas]
            v["tasks"] = need + list(tasks if tasks is not None else [])
        if ty == "evaluation_set":
            v["evaluation_tags"] = list(tags)
        if ty == "model_run":
            v["version"] = None
        if ty == "evaluation":
            v.update(evaluation_task="t", clip_evaluations=list(ces), metrics=[], score=None)
        return {"type": ty, "value": v}

    def collection(self, ty):
        """a full tree of the type"""
        if ty in ("recording_set", "dataset"):
            return self.wrap(ty, recordings=self.lst(self.recording))
        if ty in ANNOTATION_TYPES:
            extra = [self.task()] if ty == "annotation_project" else None
            return self.wrap(ty, cas=self.lst(self.ca), tasks=extra, tags=self.lst(self.tag))
        if ty in PREDICTION_TYPES:
            return self.wrap(ty, cps=self.lst(self.cp))
        return self.wrap(ty, ces=self.lst(self.ce))

    def around_ca(self, ca):
        """every collection type that can hold a clip annotation"""
        out = [self.wrap(ty, cas=[copy.deepcopy(ca)]) for ty in ANNOTATION_TYPES]
        out.append(self.wrap("evaluation", ces=[self.ce(a=copy.deepcopy(ca), p=self.cp(clip=copy.deepcopy(ca["clip"]),
                                                                                    sound_events=[], sequences=[], tags=[]))]))
        return out

    def around_cp(self, cp):
        out = [self.wrap(ty, cps=[copy.deepcopy(cp)]) for ty in PREDICTION_TYPES]
        out.append(self.wrap("evaluation", ces=[self.ce(p=copy.deepcopy(cp), a=self.ca(clip=copy.deepcopy(cp["clip"]),
                                                                                    sound_events=[], sequences=[], tags=[], notes=[]))]))
        return out

    def around_recording(self, rec):
        out = [self.wrap(ty, recordings=[copy.deepcopy(rec)]) for ty in ("recording_set", "dataset")]
        out += self.around_ca(self.ca(clip=self.clip(copy.deepcopy(rec)), sound_events=[], sequences=[], tags=[], notes=[]))[:3]
        out += self.around_cp(self.cp(clip=self.clip(copy.deepcopy(rec)), sound_events=[], sequences=[], tags=[]))[:2]
        # only through a sound event on another recording than the clip's
        out.append(self.wrap("annotation_set", cas=[self.ca(sound_events=[self.sea(se=self.sound_event(copy.deepcopy(rec)),
                                                                                  notes=[], tags=[], created_by=None)],
                                                            sequences=[], tags=[], notes=[])]))
        return out


def tree_cases(rng):
    """one full tree and one sparse tree per collection type, with and without an audio directory"""
    out = []
    for full in (True, False):
        for ty in aoefgen.TYPES:
            for base, adir in (("/data/audio", None), ("/data/audio", "/data/audio")):
                t = Tree(rng, base=base, full=full)
                out.append({"collection": t.collection(ty), "audio_dir": adir, "label": "tree"})
    return out


def presence_cases(rng):
    """small-scope exhaustive: every combination of present / absent child lists of the objects that have several,
    every child fresh, in every collection type that can hold the object"""
    out = []
    t = Tree(rng, full=True)
    sub = lambda present, f: [f()] if present else []
    for a, b, c, d in itertools.product((False, True), repeat=4):
        ca = t.ca(sound_events=sub(a, t.sea), sequences=sub(b, t.sqa), tags=sub(c, t.tag), notes=sub(d, t.note))
        out += t.around_ca(ca)
    for a, b, c in itertools.product((False, True), repeat=3):
        out += t.around_cp(t.cp(sound_events=sub(a, t.sep), sequences=sub(b, t.sqp), tags=sub(c, lambda: t.ptag(0.0))))
        out += t.around_recording(t.recording(owners=sub(a, t.user), tags=sub(b, t.tag), notes=sub(c, t.note)))
        sea = t.sea(notes=sub(a, t.note), tags=sub(b, t.tag), created_by=t.user() if c else None)
        out += t.around_ca(t.ca(sound_events=[sea], sequences=[], tags=[], notes=[]))
        sqa = t.sqa(notes=sub(a, t.note), tags=sub(b, t.tag), created_by=t.user() if c else None)
        out += t.around_ca(t.ca(sound_events=[], sequences=[sqa], tags=[], notes=[]))
    # notes with and without an author; badges with and without an owner; tasks on their own clips
    for author in (False, True):
        n = dict(t.note(), created_by=t.user() if author else None)
        out += t.around_ca(t.ca(sound_events=[], sequences=[], tags=[], notes=[n]))
        badge = {"state": "assigned", "owner": t.user() if author else None, "created_on": t.stamp()}
        out.append(t.wrap("annotation_project", cas=[], tasks=[t.task(badges=[badge]), t.task(badges=[])], tags=[t.tag()]))
    out.append(t.wrap("evaluation_set", cas=[], tags=[t.tag(), t.tag()]))
    return [{"collection": c, "audio_dir": None, "label": "presence"} for c in out]


def sequence_cases(rng):
    """parent chains: depth 0..5 under one annotated / predicted leaf; ancestors without sound events of their own;
    two children of one parent in both orders; a parent that is itself annotated after / before its child"""
    out = []
    t = Tree(rng, full=True)

    def hold(seqs, how):
        """collections whose sequence annotations / predictions hold the given sequences in the given order"""
        res = []
        if how == "annotation":
            ca = t.ca(sound_events=[], sequences=[t.sqa(seq=copy.deepcopy(s), notes=[], tags=[], created_by=None) for s in seqs],
                      tags=[], notes=[])
            res += t.around_ca(ca)
        else:
            cp = t.cp(sound_events=[], sequences=[t.sqp(seq=copy.deepcopy(s), tags=[]) for s in seqs], tags=[])
            res += t.around_cp(cp)
        return res
    for how in ("annotation", "prediction"):
        for depth in range(0, 6):
            for empty in (False, True):
                out += hold([t.sequence(depth=depth, empty_ancestors=empty)], how)
        parent = t.sequence(depth=1)
        kids = [dict(t.sequence(depth=0), parent=copy.deepcopy(parent)) for _ in range(2)]
        grandkid = dict(t.sequence(depth=0), parent=copy.deepcopy(kids[0]))
        for order in ([kids[0], kids[1]], [kids[1], kids[0]], [kids[0], parent], [parent, kids[1]],
                      [grandkid, kids[1], parent["parent"]], [kids[1], grandkid], [grandkid, grandkid["parent"]["parent"]]):
            out += hold(order, how)
    # a sequence annotated in one clip annotation and its parent in another member of the same collection
    parent = t.sequence(depth=2)
    child = dict(t.sequence(depth=0), parent=copy.deepcopy(parent))
    for first, second in ((child, parent), (parent, child)):
        cas = [t.ca(sound_events=[], sequences=[t.sqa(seq=copy.deepcopy(s), notes=[], tags=[], created_by=None)], tags=[], notes=[])
               for s in (first, second)]
        out += [t.wrap(ty, cas=copy.deepcopy(cas)) for ty in ANNOTATION_TYPES]
    return [{"collection": c, "audio_dir": None, "label": "sequence"} for c in out]


# ----------------------------------------------------------------------------- identities between two saves
def _kind_of(d):
    ks = set(d)
    if "username" in ks:
        return "user"
    if "path" in ks and "samplerate" in ks:
        return "recording"
    if "start_time" in ks:
        return "clip"
    if "geometry" in ks:
        return "sound_event"
    if "parent" in ks and "sound_events" in ks:
        return "sequence"
    if "message" in ks:
        return "note"
    return None


def _derive(u, salt):
    """another uuid, a pure function of the old one (copies of one object stay equal)"""
    import uuid as _uuid
    return str(_uuid.uuid5(_uuid.UUID(u), salt))


def reidentify(cj, kinds, salt="r"):
    """the same collection with every object of the given kinds given a new identity (users, recordings, … get a
    derived uuid; tags a changed value).  Objects that *refer* to them keep their uuids: what an annotation, a note, a
    clip refers to differs between the two saves, exactly what an object cache keyed by uuid gets wrong."""
    def walk(x):
        if isinstance(x, dict):
            y = {k: walk(v) for k, v in x.items()}
            k = _kind_of(y)
            if k in kinds and "uuid" in y:
                y["uuid"] = _derive(y["uuid"], salt)
            if "tag" in kinds and set(y) == {"key", "value"} and isinstance(y["value"], str) and not _is_num(y["value"]):
                y["value"] = y["value"] + "′" + salt
            return y
        if isinstance(x, list):
            return [walk(v) for v in x]
        return x
    return walk(cj)


def _is_num(s):
    try:
        float(s)
        return True
    except ValueError:
        return False


def split_identity(rng, cj):
    """a collection in which one shared object occurs with one uuid but two *different* contents (outside the model's
    coherence hypothesis): one occurrence of a recording / sound event / sequence / user gets other references.
    Returns None when the collection has no object occurring twice."""
    seen = {}

    def find(x, path):
        if isinstance(x, dict):
            k = _kind_of(x)
            if k in ("recording", "sequence", "sound_event") and "uuid" in x:
                seen.setdefault((k, x["uuid"]), []).append(path)
            for key, v in x.items():
                find(v, path + [key])
        elif isinstance(x, list):
            for i, v in enumerate(x):
                find(v, path + [i])
    find(cj, [])
    multi = [(k, ps) for k, ps in seen.items() if len(ps) > 1]
    if not multi:
        return None
    (kind, _u), paths = rng.choice(multi)
    out = copy.deepcopy(cj)
    tgt = out
    for p in rng.choice(paths[1:]):
        tgt = tgt[p]
    g = aoefgen.Gen(rng, size=0.3)
    if kind == "recording":
        tgt["owners"] = [g.user()]
        tgt["tags"] = [{"key": "split", "value": g.uid()[:6]}]
    elif kind == "sound_event":
        tgt["recording"] = g.recording()
    else:
        tgt["parent"] = {"uuid": g.uid(), "sound_events": [], "features": [], "parent": None}
    return out


# ----------------------------------------------------------------------------- unusual but legitimate construction
HOWS = ["plain", "subclass", "validate", "validate_json", "copy_deep", "copy_shallow", "tuples"]
_SUBS = {}


def _is_data_model(x):
    from pydantic import BaseModel
    return isinstance(x, BaseModel) and type(x).__module__.startswith("soundevent.data")


_KEEP = ("Term", "TimeStamp", "TimeInterval", "Point", "LineString", "Polygon", "BoundingBox", "MultiPoint",
         "MultiLineString", "MultiPolygon")


def _rebuild(x, memo, cls_of, seq_as_tuple=False):
    """the same object graph (sharing preserved) with every data object re-created through its constructor as an
    instance of `cls_of(its class)`; lists under `Sequence[...]` fields optionally given as tuples"""
    import collections.abc
    import typing
    if isinstance(x, (list, tuple)):
        return type(x)(_rebuild(v, memo, cls_of, seq_as_tuple) for v in x)
    if not _is_data_model(x) or type(x).__name__ in _KEEP:
        return x
    if id(x) in memo:
        return memo[id(x)]
    kw = {}
    for name, f in type(x).model_fields.items():
        v = _rebuild(getattr(x, name), memo, cls_of, seq_as_tuple)
        if seq_as_tuple and isinstance(v, list):
            ann = f.annotation
            if typing.get_origin(ann) in (collections.abc.Sequence, typing.Sequence):
                v = tuple(v)
        kw[name] = v
    y = cls_of(type(x))(**kw)
    memo[id(x)] = y
    return y


def _user_subclass(cls):
    if cls not in _SUBS:
        _SUBS[cls] = type("Lab" + cls.__name__, (cls,), {"__module__": "lab.models"})
    return _SUBS[cls]


def construct(obj, how):
    """the collection `obj` (built by the constructors, sub-objects shared by reference) as a user could equally well
    have obtained it:
      subclass       every data object is an instance of a user-defined subclass of its class (class LabProject(AnnotationProject))
      validate       built from plain dicts by `model_validate` (equal content, nothing shared)
      validate_json  built from JSON text by `model_validate_json`
      copy_deep      `model_copy(deep=True)`;   copy_shallow  `model_copy()`
      tuples         `Sequence[...]` fields given as tuples"""
    if how in (None, "plain"):
        return obj
    if how == "subclass":
        return _rebuild(obj, {}, _user_subclass)
    if how == "tuples":
        return _rebuild(obj, {}, lambda c: c, seq_as_tuple=True)
    if how == "validate":
        return type(obj).model_validate(obj.model_dump())
    if how == "validate_json":
        return type(obj).model_validate_json(obj.model_dump_json())
    if how == "copy_deep":
        return obj.model_copy(deep=True)
    if how == "copy_shallow":
        return obj.model_copy()
    raise ValueError(how)


def coherent_with(seen, cj):
    """do all objects of `cj` that carry a uuid seen before (in `seen`: uuid -> content) have the content seen before?
    (then the Python objects of the earlier collection can be *shared* with this one); records the new ones"""
    import json
    ok = True
    new = {}

    def walk(x):
        nonlocal ok
        if isinstance(x, dict):
            if "uuid" in x:
                k = (tuple(sorted(x)), x["uuid"])
                s = json.dumps(x, sort_keys=True)
                if seen.get(k, s) != s or new.get(k, s) != s:
                    ok = False
                new[k] = s
            for v in x.values():
                walk(v)
        elif isinstance(x, list):
            for v in x:
                walk(v)
    walk(cj)
    if ok:
        seen.update(new)
    return ok


# ----------------------------------------------------------------------------- more corners (HISTORIES.md)
def cross_kind_uuids(cj):
    """the same collection with identifiers *shared across kinds*: every clip carries the uuid of its recording, every
    sound event annotation / prediction the uuid of its sound event, every sequence annotation / prediction the uuid of
    its sequence (the lists of a document are per kind, so this is legitimate).  None when two objects of one kind
    would end up with one uuid."""
    ren = {}

    def plan(x):
        if isinstance(x, dict):
            ks = set(x)
            tgt = None
            if "start_time" in ks and "recording" in ks:
                tgt = ("clip", x["recording"]["uuid"])
            elif "sound_event" in ks and isinstance(x["sound_event"], dict):
                tgt = ("sea" if "created_on" in ks else "sep", x["sound_event"]["uuid"])
            elif "sequence" in ks and isinstance(x["sequence"], dict):
                tgt = ("sqa" if "created_on" in ks else "sqp", x["sequence"]["uuid"])
            if tgt is not None:
                ren.setdefault((tgt[0], x["uuid"]), tgt[1])
            for v in x.values():
                plan(v)
        elif isinstance(x, list):
            for v in x:
                plan(v)
    plan(cj)
    by_kind = {}
    for (kind, _old), new in ren.items():
        by_kind.setdefault(kind, []).append(new)
    if any(len(v) != len(set(v)) for v in by_kind.values()):
        return None

    def walk(x):
        if isinstance(x, dict):
            y = {k: walk(v) for k, v in x.items()}
            ks = set(y)
            kind = None
            if "start_time" in ks and "recording" in ks:
                kind = "clip"
            elif "sound_event" in ks and isinstance(y["sound_event"], dict):
                kind = "sea" if "created_on" in ks else "sep"
            elif "sequence" in ks and isinstance(y["sequence"], dict):
                kind = "sqa" if "created_on" in ks else "sqp"
            if kind is not None and (kind, y["uuid"]) in ren:
                y["uuid"] = ren[(kind, y["uuid"])]
            return y
        if isinstance(x, list):
            return [walk(v) for v in x]
        return x
    return walk(cj)


def large_case(rng):
    """sizes where an implementation could switch strategy: > 1024 distinct tags, > 256 users, > 64 recordings"""
    t = Tree(rng, full=True)
    recs = [t.recording(owners=[t.user() for _ in range(4)], tags=[t.tag() for _ in range(18)], notes=[]) for _ in range(66)]
    return {"collection": t.wrap("dataset", recordings=recs), "audio_dir": None, "label": "large"}


def mutate_json(cj, mut):
    """the collection after the in-place modification `mut` of one shared object (every occurrence changes)"""
    def walk(x):
        if isinstance(x, dict):
            y = {k: walk(v) for k, v in x.items()}
            if y.get("uuid") == mut["uuid"]:
                if mut["what"] == "add_owner" and _kind_of(y) == "recording":
                    y["owners"] = y["owners"] + [mut["user"]]
                elif mut["what"] == "add_tag" and _kind_of(y) == "recording":
                    y["tags"] = y["tags"] + [mut["tag"]]
                elif mut["what"] == "set_parent" and _kind_of(y) == "sequence":
                    y["parent"] = mut["parent"]
            return y
        if isinstance(x, list):
            return [walk(v) for v in x]
        return x
    return walk(cj)


def pick_mutation(rng, cj):
    """an in-place modification applicable to some shared object of the collection (None if there is none)"""
    recs, roots = [], []

    def find(x):
        if isinstance(x, dict):
            k = _kind_of(x)
            if k == "recording":
                recs.append(x["uuid"])
            if k == "sequence" and x.get("parent") is None:
                roots.append(x["uuid"])
            for v in x.values():
                find(v)
        elif isinstance(x, list):
            for v in x:
                find(v)
    find(cj)
    g = aoefgen.Gen(rng, size=0.3)
    opts = []
    if recs:
        r = rng.choice(sorted(set(recs)))
        opts.append({"what": "add_owner", "uuid": r, "user": g.user(), "style": rng.choice(["append", "assign"])})
        opts.append({"what": "add_tag", "uuid": r, "tag": {"key": "added", "value": g.uid()[:8]},
                     "style": rng.choice(["append", "assign"])})
    if roots:
        s = rng.choice(sorted(set(roots)))
        parent = {"uuid": g.uid(), "sound_events": [], "features": [], "parent": None}
        # a sequence that is someone's parent inside the collection keeps its place: only the root gets a parent
        opts.append({"what": "set_parent", "uuid": s, "parent": parent, "style": "assign"})
    return rng.choice(opts) if opts else None


def apply_mutation(builder, mut):
    """the same modification on the live Python object the builder shares between the steps of a history"""
    if mut["what"] in ("add_owner", "add_tag"):
        obj = builder.cache.get(("recording", mut["uuid"]))
        if obj is None:
            return False
        new = builder.user(mut["user"]) if mut["what"] == "add_owner" else builder.tag(mut["tag"])
        field = "owners" if mut["what"] == "add_owner" else "tags"
        if mut["style"] == "append":
            getattr(obj, field).append(new)
        else:
            setattr(obj, field, list(getattr(obj, field)) + [new])
        return True
    if mut["what"] == "set_parent":
        obj = builder.cache.get(("sequence", mut["uuid"]))
        if obj is None:
            return False
        obj.parent = builder.sequence(mut["parent"])
        return True
    return False


# ----------------------------------------------------------------------------- one object referenced from several places
class SharingBuilder(_aoef.Builder):
    """`aoef.Builder` shares the Python objects of the kinds that carry a uuid in a document; this one also hands out
    *one* Python `Tag` per (key, value) and *one* `Note` per uuid, so a tag / note object referenced from several
    owners is literally the same object (the data model allows it: they are plain values of list fields)."""

    def tag(self, j):
        k = ("tag", j["key"], j["value"])
        if k not in self.cache:
            self.cache[k] = super().tag(j)
        return self.cache[k]

    def note(self, j):
        k = ("note", j["uuid"])
        if k not in self.cache:
            self.cache[k] = super().note(j)
        return self.cache[k]


def _uid(rng):
    import uuid as _uuid
    return str(_uuid.UUID(int=rng.getrandbits(128), version=4))


def _retwin(rng, obj):
    """equal content (the same children, by uuid), fresh uuid"""
    o = copy.deepcopy(obj)
    o["uuid"] = _uid(rng)
    return o


def share_in_evaluation(rng, cj, how=None, src=None, at=None):
    """an evaluation with one more clip evaluation that *shares* the ClipAnnotation and / or the ClipPrediction object
    of an existing one (two detector settings scored against one ground truth; one prediction scored against two
    annotators; the same pair evaluated twice).  The validators are satisfied: the other side is a twin over the same
    sound event annotations / predictions, the matches are the same objects or twins of them.  None when there is no
    clip evaluation to share with."""
    v = cj["value"]
    ces = v.get("clip_evaluations") or []
    if not ces:
        return None
    out = copy.deepcopy(cj)
    ces = out["value"]["clip_evaluations"]
    how = how or rng.choice(["annotations", "predictions", "both", "both+matches"])
    src = rng.choice(ces) if src is None else ces[src]
    new = copy.deepcopy(src)
    new["uuid"] = _uid(rng)
    if how == "annotations":
        new["predictions"] = _retwin(rng, src["predictions"])
    elif how == "predictions":
        new["annotations"] = _retwin(rng, src["annotations"])
    if how != "both+matches":
        new["matches"] = [_retwin(rng, m) for m in src["matches"]]
    ces.insert(rng.randint(0, len(ces)) if at is None else at, new)
    return out


_TAG_HOLDERS = ("tags", "annotation_tags", "evaluation_tags", "tag")


def _occurrences(cj, kind):
    """the dicts of one kind in a collection (model layout), in traversal order, with the uuids of their ancestors"""
    found = []

    def walk(x, key, chain):
        if isinstance(x, dict):
            k = _kind_of(x)
            if kind == "tag":
                if key in _TAG_HOLDERS and set(x) == {"key", "value"}:
                    found.append((x, chain))
            elif k == kind and "uuid" in x:
                found.append((x, chain))
            sub = chain + ([x["uuid"]] if "uuid" in x else [])
            for kk, v in x.items():
                walk(v, kk, sub)
        elif isinstance(x, list):
            for v in x:
                walk(v, key, chain)
    walk(cj, None, [])
    return found


def _seq_chain(s):
    out = set()
    while s is not None:
        out.add(s["uuid"])
        s = s.get("parent")
    return out


def unify(rng, cj, kind, n=2):
    """the same collection with `n` distinct objects of one kind (user, tag, note, recording, clip, sound_event,
    sequence) made *one* object: every occurrence of the others is replaced by the first, so that object is now
    referenced from the places all of them were referenced from.  None when the collection has fewer than `n`."""
    occ = _occurrences(cj, kind)
    ident = (lambda d: (d["key"], d["value"])) if kind == "tag" else (lambda d: d["uuid"])
    distinct = {}
    for d, chain in occ:
        distinct.setdefault(ident(d), (d, chain))
    if len(distinct) < n:
        return None
    ids = sorted(distinct, key=str)
    for _ in range(8):
        pick = rng.sample(ids, n)
        if kind == "sequence":
            chains = [_seq_chain(distinct[i][0]) for i in pick]
            if any(chains[a] & chains[b] for a in range(n) for b in range(a + 1, n)):
                continue                       # never make a sequence its own ancestor
        break
    else:
        return None
    keep = copy.deepcopy(distinct[pick[0]][0])
    gone = set(pick[1:])

    def walk(x, key):
        if isinstance(x, dict):
            if kind == "tag":
                if key in _TAG_HOLDERS and set(x) == {"key", "value"} and ident(x) in gone:
                    return copy.deepcopy(keep)
            elif _kind_of(x) == kind and "uuid" in x and x["uuid"] in gone:
                return copy.deepcopy(keep)
            return {k: walk(v, k) for k, v in x.items()}
        if isinstance(x, list):
            ys = [walk(v, key) for v in x]
            # one list never names one object twice (owners of a recording, sound events of a sequence, …)
            seen, out = set(), []
            for y in ys:
                i = json_key(y)
                if i is not None and i in seen:
                    continue
                if i is not None:
                    seen.add(i)
                out.append(y)
            return out
        return x
    return walk(cj, None)


def json_key(y):
    if isinstance(y, dict) and "uuid" in y:
        return ("u", y["uuid"])
    if isinstance(y, dict) and set(y) == {"key", "value"}:
        return ("t", y["key"], y["value"])
    return None


def _wide_tree(t, ty):
    """a full tree with three members (and, for a project, two tasks on clips of their own)"""
    if ty in ("recording_set", "dataset"):
        return t.wrap(ty, recordings=[t.recording() for _ in range(3)])
    if ty in ANNOTATION_TYPES:
        return t.wrap(ty, cas=[t.ca() for _ in range(3)], tasks=[t.task(), t.task()] if ty == "annotation_project" else None,
                      tags=[t.tag(), t.tag()])
    if ty in PREDICTION_TYPES:
        return t.wrap(ty, cps=[t.cp() for _ in range(3)])
    return t.wrap(ty, ces=[t.ce() for _ in range(3)])


UNIFY_KINDS = ["user", "tag", "note", "recording", "clip", "sound_event", "sequence"]


def sharing_cases(rng):
    """one object referenced from several places, at every level of the data model and in every collection type that
    can hold it; the expected document defines it exactly once.

    * evaluation: a ClipAnnotation / ClipPrediction / both / both and the Match objects shared by two or three clip
      evaluations (adjacent and not), with full and with empty contents;
    * a SoundEventAnnotation / SequenceAnnotation shared by two clip annotations, a SoundEventPrediction /
      SequencePrediction shared by two clip predictions (every annotation / prediction type and evaluation);
    * a sound event shared by an annotation and a prediction, by an annotation and a sequence, by two sequences;
      a sequence shared by an annotation and a prediction, by two annotations, annotated and a parent, parent of two;
    * every tree-shaped collection of every type with two or three users / tags / notes / recordings / clips /
      sound events / sequences made one (`unify`), so the object hangs under all the referrers of the originals."""
    out = []
    lab = lambda cs, what: [{"collection": c, "audio_dir": None, "label": "sharing", "shared": what,
                             "leaves": "shared"} for c in cs if c is not None]
    t = Tree(rng, full=True)
    # -- clip annotations / predictions shared by clip evaluations
    for full in (True, False):
        kw_a = {} if full else dict(sound_events=[], sequences=[], tags=[], notes=[])
        kw_p = {} if full else dict(sound_events=[], sequences=[], tags=[])
        base = t.wrap("evaluation", ces=[t.ce(a=t.ca(**kw_a), p=None if full else t.cp(clip=None, **kw_p))
                                         for _ in range(2)])
        if not full:      # the validator: one clip per clip evaluation
            for ce in base["value"]["clip_evaluations"]:
                ce["predictions"]["clip"] = copy.deepcopy(ce["annotations"]["clip"])
        for how in ("annotations", "predictions", "both", "both+matches"):
            one = share_in_evaluation(rng, base, how)
            two = share_in_evaluation(rng, one, how)
            out += lab([one, two], "clip-evaluation:" + how)
            # the sharing clip evaluations first and last, another one in between; and next to each other
            out += lab([share_in_evaluation(rng, base, how, src=0, at=2), share_in_evaluation(rng, base, how, src=1, at=2),
                        share_in_evaluation(rng, share_in_evaluation(rng, base, how, src=0, at=2), how, src=0, at=2)],
                       "clip-evaluation:" + how)
        # only the shared pair: [ce(A, P1), ce(A, P2)] and [ce(A1, P), ce(A2, P)]
        for how in ("annotations", "predictions"):
            solo = t.wrap("evaluation", ces=[copy.deepcopy(base["value"]["clip_evaluations"][0])])
            out += lab([share_in_evaluation(rng, solo, how)], "clip-evaluation:" + how)

    def around_cas(cas):
        res = [t.wrap(ty, cas=copy.deepcopy(cas)) for ty in ANNOTATION_TYPES]
        res.append(t.wrap("evaluation", ces=[t.ce(a=copy.deepcopy(a), p=t.cp(clip=copy.deepcopy(a["clip"]), sound_events=[],
                                                                         sequences=[], tags=[])) for a in cas]))
        return res

    def around_cps(cps):
        res = [t.wrap(ty, cps=copy.deepcopy(cps)) for ty in PREDICTION_TYPES]
        res.append(t.wrap("evaluation", ces=[t.ce(p=copy.deepcopy(p), a=t.ca(clip=copy.deepcopy(p["clip"]), sound_events=[],
                                                                         sequences=[], tags=[], notes=[])) for p in cps]))
        return res
    # -- members of clip annotations / predictions shared by two of them
    for same_clip in (False, True):
        clip = t.clip()
        mk_clip = (lambda: copy.deepcopy(clip)) if same_clip else t.clip
        sea, sqa, sep, sqp = t.sea(), t.sqa(), t.sep(), t.sqp()
        out += lab(around_cas([t.ca(clip=mk_clip(), sound_events=[copy.deepcopy(sea)], sequences=[]) for _ in range(2)]),
                   "sound-event-annotation")
        out += lab(around_cas([t.ca(clip=mk_clip(), sound_events=[], sequences=[copy.deepcopy(sqa)]) for _ in range(2)]),
                   "sequence-annotation")
        out += lab(around_cas([t.ca(clip=mk_clip(), sound_events=[copy.deepcopy(sea), t.sea()],
                                    sequences=[t.sqa(), copy.deepcopy(sqa)]) for _ in range(3)]), "annotations")
        out += lab(around_cps([t.cp(clip=mk_clip(), sound_events=[copy.deepcopy(sep)], sequences=[]) for _ in range(2)]),
                   "sound-event-prediction")
        out += lab(around_cps([t.cp(clip=mk_clip(), sound_events=[], sequences=[copy.deepcopy(sqp)]) for _ in range(2)]),
                   "sequence-prediction")
        out += lab(around_cps([t.cp(clip=mk_clip(), sound_events=[t.sep(), copy.deepcopy(sep)],
                                    sequences=[copy.deepcopy(sqp), t.sqp()]) for _ in range(3)]), "predictions")
    # -- a sound event / a sequence under referrers of different kinds
    se = t.sound_event()
    seq = t.sequence(depth=1, ses=[copy.deepcopy(se)])
    kid = dict(t.sequence(depth=0), parent=copy.deepcopy(seq))
    kid2 = dict(t.sequence(depth=0), parent=copy.deepcopy(seq))
    out += lab(around_cas([t.ca(sound_events=[t.sea(se=copy.deepcopy(se)), t.sea(se=copy.deepcopy(se))],
                                sequences=[t.sqa(seq=copy.deepcopy(seq)), t.sqa(seq=copy.deepcopy(kid)), t.sqa(seq=copy.deepcopy(seq)),
                                           t.sqa(seq=copy.deepcopy(kid2))])]), "sound-event/sequence:annotations")
    out += lab(around_cps([t.cp(sound_events=[t.sep(se=copy.deepcopy(se)), t.sep(se=copy.deepcopy(se))],
                                sequences=[t.sqp(seq=copy.deepcopy(kid)), t.sqp(seq=copy.deepcopy(seq)), t.sqp(seq=copy.deepcopy(kid2)),
                                           t.sqp(seq=copy.deepcopy(seq))])]), "sound-event/sequence:predictions")
    clip = t.clip()
    a = t.ca(clip=copy.deepcopy(clip), sound_events=[t.sea(se=copy.deepcopy(se))], sequences=[t.sqa(seq=copy.deepcopy(kid))])
    p = t.cp(clip=copy.deepcopy(clip), sound_events=[t.sep(se=copy.deepcopy(se))], sequences=[t.sqp(seq=copy.deepcopy(seq)),
                                                                                                t.sqp(seq=copy.deepcopy(kid2))])
    out += lab([t.wrap("evaluation", ces=[t.ce(a=a, p=p)])], "sound-event/sequence:annotation+prediction")
    # -- every tree of every type with several leaves / inner objects made one
    for ty in aoefgen.TYPES:
        for kind in UNIFY_KINDS:
            for n in (2, 3):
                out += lab([unify(rng, _wide_tree(Tree(rng, full=True), ty), kind, n)], f"unified:{kind}")
    return out


# ------------------------------------------------------------------ follow-up (wave 6): distinct tags, one joined text
# A tag is the *pair* (label, value).  An implementation that keys its tag table on a text built from the pair
# (`f"{key}:{value}"`, `key + value`, `"/".join(...)`, a stripped / lower-cased / normalised text, …) gives one id to
# two distinct tags whose texts coincide.  The families below are lists of DISTINCT pairs with one joined text under
# some separator at shifted positions; the harness itself identifies a tag by the tuple (key, value) throughout.
SEPARATORS = [":", "=", ",", "|", "/", "\x00", " ", "::", "\t", "-", "_", ".", ";", "\n", "\\", "#", "@", "', '"]


def colliding_tag_families():
    fams = []
    a, b, c = "time", "dawn", "early"
    for sep in SEPARATORS:
        # the separator inside the value / inside the label:  a|b·c   a·b|c
        fams.append((f"sep {sep!r} shifted", [(a, b + sep + c), (a + sep + b, c)]))
        # a label that is another label plus the separator; an empty value; a value that is the separator
        fams.append((f"sep {sep!r} label=prefix+sep", [(a, sep + c), (a + sep, c)]))
        fams.append((f"sep {sep!r} empty value", [(a + sep, ""), (a, sep)]))
        # three tags, one text
        fams.append((f"sep {sep!r} three-way", [(a, b + sep + c + sep + "x"), (a + sep + b, c + sep + "x"),
                                               (a + sep + b + sep + c, "x")]))
    # no separator at all (`key + value`, `"".join`), an empty label, label and value swapped (`sorted`, `set`)
    fams.append(("concatenation", [("ab", "c"), ("a", "bc"), ("abc", "")]))
    fams.append(("empty label", [("", "a:b"), (":a", "b"), ("", ":a:b")]))
    fams.append(("swapped", [("a", "b"), ("b", "a")]))
    # texts equal after a normalisation a sloppy key could apply: case, surrounding blanks, unicode forms
    fams.append(("case", [("Time", "Dawn"), ("time", "dawn"), ("time", "Dawn")]))
    fams.append(("blanks", [("time", "dawn"), ("time ", "dawn"), ("time", " dawn"), (" time", "dawn")]))
    fams.append(("unicode forms", [("esp\u00e9cie", "\u00f1"), ("espe\u0301cie", "\u00f1"), ("esp\u00e9cie", "n\u0303")]))
    # equal hashes are not equal keys; numbers as text
    fams.append(("numeric text", [("n", "1"), ("n", "1.0"), ("n", "01"), ("n", "1e0")]))
    return [(name, [{"key": k, "value": v} for k, v in pairs]) for name, pairs in fams]


def substitute_tags(cj, mapping):
    """the collection with every occurrence of the tag (key, value) replaced by mapping[(key, value)]"""
    def walk(x, key):
        if isinstance(x, dict):
            if key in _TAG_HOLDERS and set(x) == {"key", "value"}:
                return copy.deepcopy(mapping.get((x["key"], x["value"]), x))
            return {k: walk(v, k) for k, v in x.items()}
        if isinstance(x, list):
            return [walk(v, key) for v in x]
        return x
    return walk(cj, None)


def collide_tags(rng, cj, family, where="first"):
    """the distinct tags of `cj` (traversal order) mapped one-to-one onto the members of `family` (as many as there
    are; the other tags stay), at the first / last / random positions.  None when the collection has fewer than two
    distinct tags or holds a member of the family already (the mapping must stay injective)."""
    distinct = []
    for d, _ in _occurrences(cj, "tag"):
        i = (d["key"], d["value"])
        if i not in distinct:
            distinct.append(i)
    members = [(m["key"], m["value"]) for m in family]
    n = min(len(distinct), len(members))
    if n < 2 or set(distinct) & set(members):
        return None
    if where == "first":
        slots = distinct[:n]
    elif where == "last":
        slots = distinct[-n:]
    else:
        slots = rng.sample(distinct, n)
    return substitute_tags(cj, {s: m for s, m in zip(slots, family[:n])})


def colliding_tag_cases(rng):
    """for every family: a wide tree of two collection types (all eight types in rotation) whose first / last distinct
    tags are the family's members, in the family's order and reversed; plus, for every collection type, two tags of
    one family on ONE object's tag list, and the family on the collection's own tag list."""
    out = []
    fams = colliding_tag_families()
    for i, (name, fam) in enumerate(fams):
        for j in range(2):
            ty = aoefgen.TYPES[(2 * i + j) % len(aoefgen.TYPES)]
            t = Tree(rng, full=True)
            cj = collide_tags(rng, _wide_tree(t, ty), fam if j == 0 else fam[::-1], ["first", "last", "random"][(i + j) % 3])
            if cj is not None:
                out.append({"collection": cj, "audio_dir": None, "label": "colliding-tags", "family": name, "how": "plain"})
    for k, ty in enumerate(aoefgen.TYPES):
        name, fam = fams[(7 * k) % len(fams)]
        t = Tree(rng, full=False)
        tags = copy.deepcopy(fam)
        ptags = [{"tag": copy.deepcopy(m), "score": num(0.5)} for m in fam]
        if ty in ("recording_set", "dataset"):
            cj = t.wrap(ty, recordings=[t.recording(tags=tags, owners=[], notes=[])])
        elif ty in ANNOTATION_TYPES:
            cj = t.wrap(ty, cas=[t.ca(sound_events=[], sequences=[], tags=tags[:1], notes=[])], tags=tags[::-1])
        elif ty in PREDICTION_TYPES:
            cj = t.wrap(ty, cps=[t.cp(sound_events=[], sequences=[], tags=ptags)])
        else:
            ca = t.ca(sound_events=[], sequences=[], tags=tags[1:], notes=[])
            cj = t.wrap(ty, ces=[t.ce(a=ca, p=t.cp(clip=copy.deepcopy(ca["clip"]), sound_events=[], sequences=[], tags=ptags[:1]))])
        out.append({"collection": cj, "audio_dir": None, "label": "colliding-tags", "family": name + " (one list)", "how": "plain"})
    return out
