"""C10 — Crowsetta conversions preserve times, frequencies, labels and order."""
import atexit
import inspect
import itertools
import math
import os
import re
import types
from fractions import Fraction

from ..core import Op
from ..rat import rat, frac, rat_opt, round_once_eq, tol_eq
from ..symtrace import Sym, Untraceable
from .. import leanio
from .. import gen_geom
from .. import c10_hist

PROPERTY = "C10"
LEAN_MODULE = "Proofs.C10"
_T = "SE.Proofs.C10."
THEOREMS = [_T + n for n in [
    # import arithmetic: the factor is applied exactly once; order and length
    "C10_import_once_seconds", "C10_import_once_samples", "C10_import_once_end", "C10_import_once_box",
    "C10_import_unadjusted", "C10_import_no_expansion", "C10_import_segment_geometry", "C10_import_segment_missing",
    "C10_import_bbox_geometry", "C10_import_order_length", "C10_import_sequence_get", "C10_import_annotation_order",
    "C10_import_annotation_path",
    # label -> tags, one lemma per rung + the cascade as a relation
    "C10_to_tags_empty", "C10_to_tags_fn_returns", "C10_to_tags_fn_raises_other", "C10_to_tags_fn_falls_through",
    "C10_to_tags_term_mapping", "C10_to_tags_tag_mapping", "C10_to_tags_explicit_term", "C10_to_tags_key_mapping",
    "C10_to_tags_explicit_key", "C10_to_tags_fallback", "C10_to_tags_value_is_label", "C10_label_to_tags_cascade",
    # tag(s) -> label, one lemma per rung + the cascade as a relation
    "C10_from_tag_fn", "C10_from_tag_mapping", "C10_from_tag_value_only", "C10_from_tag_key_value",
    "C10_from_tags_fn", "C10_from_tags_empty", "C10_from_tags_select_hit", "C10_from_tags_select_first",
    "C10_from_tags_select_miss", "C10_from_tags_index_range", "C10_from_tags_index", "C10_from_tags_join",
    "C10_label_from_tags_cascade",
    # export: bounds, floor, Nyquist cap, switches, error policy
    "C10_export_bounds_segment", "C10_export_interval_identity", "C10_export_samples_floor",
    "C10_export_bounds_bbox", "C10_export_nyquist_cap", "C10_export_bbox_valid", "C10_export_switches_segment",
    "C10_export_switches_bbox", "C10_export_error_policy_ignore", "C10_export_error_policy_raise",
    "C10_export_order", "C10_export_no_error_all",
    # round trip
    "C10_roundtrip_label", "C10_roundtrip_segment_steps", "C10_roundtrip_segment", "C10_roundtrip_segment_samples",
    "C10_roundtrip_segment_general_steps", "C10_roundtrip_segment_general", "C10_roundtrip_monitor_segment",
    "C10_roundtrip_monitor_sequence", "C10_roundtrip_sequence_general", "C10_roundtrip_holds_general",
    "C10_roundtrip_bbox_steps", "C10_roundtrip_bbox", "C10_roundtrip_sequence", "C10_roundtrip_annotation_bbox",
    "C10_roundtrip_annotation_seq", "C10_roundtrip_holds_segment", "C10_roundtrip_monitor_sequence_seconds",
    "C10_roundtrip_holds_sequence",
    # the defects of the pinned commit, as theorems about the pinned cascades
    "C10_pinned_to_tags_differs_iff", "C10_pinned_from_tags_differs_iff",
    # review: exporter decisions by type tag (the tables of the symbolic export ties), "spans" as min / max,
    # the recording loaded from the notated path, the round trip through select_by_key
    "C10_export_span_of", "C10_export_segment_fields", "C10_export_bbox_decision", "C10_export_bbox_refused_iff",
    "C10_export_spans_segment", "C10_export_spans_bbox", "C10_import_annotation_load_nopath",
    "C10_import_annotation_load", "C10_roundtrip_label_select", "C10_label_roundtrip_cases",
    "C10_roundtrip_of_label_roundtrip",
    # follow-up (histories and construction paths): the store semantics of returned tags is the value semantics;
    # a positional call binds the table's parameters in order
    "C10_history_value_semantics", "C10_history_call_pure", "C10_history_results_kept", "C10_history_edit_local",
    "C10_history_value_is_label", "C10_signatures_wellformed", "C10_positional_split", "C10_positional_lookup",
    "C10_positional_too_many",
]]
LEVEL_TEXT = ("Lean theorems over the model of the five crowsetta modules hold for all rational inputs and all option "
              "records: the expansion factor is applied exactly once on import (onset/te, sample/samplerate, f*te), import "
              "keeps order and length (also when the recording is loaded from the notated path), one lemma per rung of both "
              "label cascades plus a complete case characterisation, export spans the bounds (as minimum / maximum over the "
              "geometry's points), sample indices are floor(time*samplerate), the Nyquist cap, the cast/raise switches as a "
              "table over the nine geometry types, the ignore_errors policy, and export after import is the identity for "
              "segments, boxes, sequences and annotations without time expansion and with value-only labels (value_only or "
              "select_by_key of the importer's key).  The model is tied to the source on every run: keyword defaults "
              "re-extracted from the signatures, the import arithmetic, the box export (through crowsetta's own validators) "
              "and the segment export (seconds and the arguments of int()) for every geometry type x switch combination by "
              "path-exhaustive symbolic tracing proved equal to the model for all inputs, both cascades by exhaustive "
              "enumeration of the abstracted option space incl. falsy values, numeric behaviour on dyadic grids through real "
              "crowsetta objects (floats, ints, numpy scalars) and a real WAV file for the recording=None path.  Histories: the "
              "store semantics of consecutive imports (every tag the cascade builds is a fresh mutable object, callers edit "
              "returned tags in place) is proved equal to the value semantics (calls are pure functions of their own arguments, "
              "edits are local to the edited result), and is observed event by event on the real objects; every converter is "
              "also run through sequences of calls on shared, reused and changed argument objects with poisoned results, each "
              "step judged by the base operation's model.  Positional calls: the positional parameter order of the eleven "
              "public converters is a Lean table re-extracted from the signatures on every run; binding any split between "
              "positional and keyword passing is proved to be the keyword call, and every split is exercised.")
LEVEL_NOTE = ("Trusted: Lean kernel, symbolic tracer and its stubs (data constructors, crowsetta.Segment, compute_bounds, label "
              "functions, the int()/math.floor hook), shapely bounds, pydantic parsing, crowsetta's classes (BBox validators are "
              "modelled and traced), Recording.from_file (a parameter of the model; its contract path/time_expansion is "
              "evaluated on every call). Unmodelled: binary64 rounding of time/te, sample/(samplerate/te) and time*samplerate "
              "off the dyadic grid (compared round-once / with tolerance; probed by the free-mode round-trip monitor), "
              "ZeroDivisionError for a zero samplerate or expansion factor, the crowsetta != 4 constructor branch of "
              "create_crowsetta_segment (not importable with the installed crowsetta). Histories are finite samples of call "
              "sequences (the theorem is about the model's store; the code's freshness of returned objects is observed, not "
              "proved); each history starts from re-initialised converter modules so that a failing history is a self-contained "
              "replay (confirmed in a fresh interpreter when one fails); tags returned from tag_fn / tag_mapping are the "
              "caller's own objects and outside the store model.")
TECHNIQUE = ("Lean 4 proof over model; defaults, positional signatures and symbolic-trace equality obligations regenerated from "
             "source; exhaustive option-space and dyadic-grid correspondence; round-trip monitor on real crowsetta objects; "
             "call histories on shared objects judged step by step by the model, store semantics of returned tags proved and observed")
RULE = ("exhaustive option tables of label_to_tags / label_from_tag(s); segments, boxes, sequences and annotations on dyadic "
        "grids with power-of-two and decimal sample rates / expansion factors; all nine geometry types x cast switches; "
        "histories: x, a neighbour of x (same objects with another option / recording / switch, revised content under the same "
        "uuid, the same callable with a changed table, a sibling converter on the same label), x again, with the live argument "
        "objects reused unchanged / assigned to / edited in place / model_copy(update) shallow and deep / copy.copy + assignment, "
        "arguments snapshotted around every call, results poisoned in place and earlier results re-read after later calls; tag "
        "histories (import, in-place edit of a returned tag, import again) for every ordered pair of the six import routes; every "
        "converter with every split between positional and keyword arguments; numbers as float / int / numpy float64 / float32 / "
        "int64 / int32, recordings and annotations built by constructor / model_validate / JSON / model_copy / AOEF save+load, "
        "coordinates as tuples, mappings as dict / reversed / OrderedDict / subclass / mappingproxy, sequences by from_segments / "
        "from_keyword / from_dict, annotation stand-ins with __slots__ / properties / class attributes / dataclass / namedtuple, the "
        "same object listed twice; every exporter x switch combination x 16 classes of sound event, every importer x label option "
        "record x label; expansion factors 1 +- 2^-k and 1 +- 1e-6..1e-12, upper frequencies at Nyquist x (1 +- 1e-6..1e-12) and "
        "+- 1 ulp, every point of eight non-dyadic time lattices, lists of 16/17/256/257/1024/1025 entries; "
        "non-trivial = the implementation returned a value (not an error); for a history: some step did; distinct = distinct "
        "(operation, input)")
TRUSTED = ["shapely `bounds` inside compute_bounds", "pydantic parsing of floats and the geometry validators (modelled: mkInterval, mkBox)",
           "crowsetta.Segment / BBox / Sequence / Annotation (BBox validators modelled as mkBBox and traced symbolically)",
           "Recording.from_file / media info of a WAV file (contract: path and time_expansion as requested, evaluated per call)",
           "symbolic tracer stubs: soundevent.data constructors and crowsetta.Segment record their arguments, label functions "
           "return constants, compute_bounds returns a symbolic 4-tuple (the interval's own coordinates for a TimeInterval), "
           "int()/math.floor of a symbolic product is recorded (Python's truncation = pyInt; floor agrees for times >= 0)",
           "importlib.reload of the five converter modules between histories (module state re-initialised as in a new interpreter)",
           "soundevent.io save / load as a constructor of input objects (AOEF path; falls back to the caller-built objects if the "
           "loaded ones differ in what the converters read)"]
ASSUMPTIONS = ["samplerate > 0 and time_expansion > 0 (ZeroDivisionError otherwise, outside the model)",
               "binary64 arithmetic is exact on the dyadic grids used; one correctly rounded operation in round-once mode",
               "ordered-field semantics for the symbolic ties (no rounding)",
               "terms carry only label, name, definition (the harness builds no others)"]
NOT_COMPARED = ["error messages (only the error class)",
                "uuids, notes, created_by, clip tags and the clip of the resulting ClipAnnotation (passed in a share of the cases so "
                "that every branch runs; the property does not pin them)",
                "sample indices in free mode (arbitrary floats): `int(t * samplerate)` rounds the product, the rational model cannot",
                "the identity of tags that come from `tag_fn` / `tag_mapping` (they are the caller's own objects, handed back as they "
                "are: histories neither poison them nor demand copies)",
                "tags of annotations rebuilt through pydantic's own dump -> validate: replaced by the harness-built tags (a "
                "`data.Term` does not survive that path unchanged - `type_of_term` / `term_range` validate only under their aliases - "
                "which is a matter of the data model; tags loaded through soundevent.io do compare equal and are used as they are)",
                "which exception a positional call with too many arguments raises beyond its class (TypeError)"]

NS = types.SimpleNamespace
MAXF = 5_000_000


# ====================================================================== JSON <-> real objects
_ERR = {"invalid": ValueError, "key": KeyError, "type": TypeError, "notimpl": NotImplementedError}
_TERMS = {}


def _term(j):
    from soundevent import data
    k = (j["label"], j["name"], j["definition"])
    if k not in _TERMS:
        _TERMS[k] = data.Term(label=k[0], name=k[1], definition=k[2])
    return _TERMS[k]


def _tag(j):
    from soundevent import data
    return data.Tag(term=_term(j["term"]), value=j["value"])


def _term_j(t):
    return {"label": t.label, "name": t.name, "definition": t.definition}


def _tag_j(t):
    return {"term": _term_j(t.term), "value": t.value}


def _tags_j(ts):
    assert isinstance(ts, list), "not a list: %r" % type(ts)
    return [_tag_j(t) for t in ts]


def key_term(k):
    return {"label": k, "name": "soundevent:" + k, "definition": "Unknown"}


def ktag(k, v):
    return {"term": key_term(k), "value": v}


def _res_tag(r):
    if "raise" in r:
        raise _ERR[r["raise"]]("user function")
    if "single" in r:
        return _tag(r["single"])
    return [_tag(t) for t in r["many"]]


def _res_str(r):
    if "raise" in r:
        raise _ERR[r["raise"]]("user function")
    return r["ret"]


def _mk_fn(fj, canon, res):
    """a user function given by a finite table; the table is read at call time from `fn.spec`, so that a history can
    keep the same callable object and change its behaviour between calls"""
    def fn(x):
        cx = canon(x)
        for k, v in fn.spec["table"]:
            if k == cx:
                return res(v)
        return res(fn.spec["default"])
    fn.spec = fj
    return fn


def _label_kwargs(o):
    o = o or {}
    kw = {}
    if o.get("tag_fn") is not None:
        kw["tag_fn"] = _mk_fn(o["tag_fn"], lambda s: s, _res_tag)
    if o.get("tag_mapping") is not None:
        kw["tag_mapping"] = {k: _res_tag(v) for k, v in o["tag_mapping"]}
    if o.get("term_mapping") is not None:
        kw["term_mapping"] = {k: _term(v) for k, v in o["term_mapping"]}
    if o.get("key_mapping") is not None:
        kw["key_mapping"] = {k: v for k, v in o["key_mapping"]}
    if o.get("key") is not None:
        kw["key"] = o["key"]
    if o.get("term") is not None:
        kw["term"] = _term(o["term"])
    if o.get("fallback") is not None:
        kw["fallback"] = o["fallback"]
    if o.get("empty_labels") is not None:
        kw["empty_labels"] = list(o["empty_labels"])
    return _containers(kw, o.get("_kw"))


class _Dict(dict):
    """a dict subclass (mappings are annotated `Dict[...]`: any dict is a legitimate argument)"""


def _containers(kw, kind):
    """the same options in other legitimate containers: reversed insertion order (of the mappings and of the keyword
    arguments), OrderedDict, a dict subclass, a read-only mapping proxy; `empty_labels` as a tuple"""
    if not kind:
        return kw
    from collections import OrderedDict
    out = {}
    for k, v in kw.items():
        if isinstance(v, dict):
            items = list(v.items())
            v = {"reversed": lambda: dict(reversed(items)), "odict": lambda: OrderedDict(items),
                 "proxy": lambda: types.MappingProxyType(dict(items)), "subclass": lambda: _Dict(items)}[kind]()
        elif k == "empty_labels" and kind in ("proxy", "odict"):
            v = tuple(v)
        out[k] = v
    return dict(reversed(list(out.items()))) if kind == "reversed" else out


def _tag_kwargs(o):
    o = o or {}
    kw = {}
    if o.get("label_fn") is not None:
        kw["label_fn"] = _mk_fn(o["label_fn"], _tag_j, _res_str)
    if o.get("label_mapping") is not None:
        kw["label_mapping"] = {_tag(k): v for k, v in o["label_mapping"]}
    if o.get("value_only") is not None:
        kw["value_only"] = o["value_only"]
    return _containers(kw, o.get("_kw"))


def _tags_kwargs(o):
    o = o or {}
    kw = _tag_kwargs(o)
    if o.get("seq_label_fn") is not None:
        kw["seq_label_fn"] = _mk_fn(o["seq_label_fn"], lambda ts: [_tag_j(t) for t in ts], _res_str)
    for k in ("select_by_key", "index", "separator", "empty_label"):
        if o.get(k) is not None:
            kw[k] = o[k]
    if o.get("index") is not None and o.get("_kw") == "proxy":
        import numpy as np
        kw["index"] = np.int64(o["index"])                      # an index as numpy hands it out
    return dict(reversed(list(kw.items()))) if o.get("_kw") == "reversed" else kw


def _fo(s, kind=None):
    """the number as the caller might hold it: a float (default), a Python int when integral, a numpy scalar"""
    if s is None:
        return None
    q = frac(s)
    if kind == "int" and q.denominator == 1:
        return int(q)
    if kind == "np":
        import numpy as np
        return np.float64(float(q))
    if kind == "f32":
        import numpy as np
        v = np.float32(float(q))
        return v if Fraction(float(v)) == q else float(q)      # binary32 only where it holds the value exactly
    return float(q)


def _io(n, kind=None):
    if n is None or kind not in ("np", "f32"):
        return n
    import numpy as np
    return np.int64(n) if kind == "np" else np.int32(n)


def _segment(j):
    import crowsetta
    k = j.get("num")
    return crowsetta.Segment(label=j["label"], onset_s=_fo(j["onset_s"], k), offset_s=_fo(j["offset_s"], k),
                             onset_sample=_io(j["onset_sample"], k), offset_sample=_io(j["offset_sample"], k))


def _segment_j(s):
    def i(v):
        return None if v is None else int(v)
    assert isinstance(s.label, str)
    return {"label": s.label, "onset_s": rat_opt(s.onset_s), "offset_s": rat_opt(s.offset_s),
            "onset_sample": i(s.onset_sample), "offset_sample": i(s.offset_sample)}


def _bbox(j):
    import crowsetta
    k = j.get("num")
    return crowsetta.BBox(onset=_fo(j["onset"], k), offset=_fo(j["offset"], k), low_freq=_fo(j["low_freq"], k),
                          high_freq=_fo(j["high_freq"], k), label=j["label"])


def _bbox_j(b):
    assert isinstance(b.label, str)
    return {"onset": rat(b.onset), "offset": rat(b.offset), "low_freq": rat(b.low_freq),
            "high_freq": rat(b.high_freq), "label": b.label}


_RECS = {}


def _rec(j):
    from soundevent import data
    build = j.get("build")
    k = (j["samplerate"], j["te"], j.get("path") or "rec.wav", build)
    if k not in _RECS:
        sr, te = int(frac(k[0])), float(frac(k[1]))
        if build == "loose":                  # numbers as a caller may hold them: a numpy integer, an int-valued factor
            import numpy as np
            sr, te = np.int64(sr), (int(te) if te == int(te) else np.float64(te))
        r = data.Recording(path=k[2], duration=1000.0, channels=1, samplerate=sr, time_expansion=te)
        if build == "validate":
            r = data.Recording.model_validate(r.model_dump())
        elif build == "json":
            r = data.Recording.model_validate_json(r.model_dump_json())
        elif build == "copy":
            r = r.model_copy(deep=True)
        _RECS[k] = r
    return _RECS[k]


REC_BUILDS = [None, None, None, "loose", "validate", "json", "copy"]


def _tuples(c):
    """coordinates as a caller may hold them: tuples instead of lists, Python ints where integral"""
    if isinstance(c, list):
        return tuple(_tuples(x) for x in c)
    return int(c) if float(c).is_integer() else c


def _ann(j, rec):
    """a SoundEventAnnotation by the construction path `build`: the constructor (default), coordinates as tuples / ints,
    through `model_validate` of the dumped dict, through JSON, a deep `model_copy`; `uuid`: the identity of the sound
    event and of the annotation (two annotations of one list may share it while their content differs)"""
    import uuid as _uuid
    from soundevent import data
    build = j.get("build")
    if j["geometry"] is None:
        g = None
    elif build == "tuples":
        g = data.geometry_validate({"type": j["geometry"]["type"], "coordinates": _tuples(gen_geom.coords_float(j["geometry"]))}, mode="dict")
    else:
        g = gen_geom.to_data(j["geometry"])
    ids = {} if j.get("uuid") is None else {"uuid": _uuid.UUID(j["uuid"])}
    tags = [_tag(t) for t in j["tags"]]
    a = data.SoundEventAnnotation(sound_event=data.SoundEvent(geometry=g, recording=rec, **ids),
                                  tags=tuple(tags) if build == "tuples" else tags, **ids)
    if build == "validate":
        a = data.SoundEventAnnotation.model_validate(a.model_dump())
        a.tags = tags
    elif build == "json":
        a = data.SoundEventAnnotation.model_validate_json(a.model_dump_json())
        a.tags = tags
    elif build == "copy":
        a = a.model_copy(deep=True)
    # (the tags stay the harness-built ones: pydantic's own dump -> validate of a `data.Term` is not the identity - the
    #  fields `type_of_term` / `term_range` only validate under their aliases and come back as extras, so such a tag no
    #  longer equals the tag it was dumped from; tags loaded through `soundevent.io` (AOEF) do.  That is a matter of the
    #  data model, not of the crowsetta converters; the model of C10 keys tags by label / name / definition / value.)
    return a


ANN_BUILDS = [None, None, None, "tuples", "validate", "json", "copy"]


def _anns(js, rec, share=False):
    """the annotations of a list; with `share`, equal descriptions are one object (the same annotation listed twice)"""
    if not share:
        return [_ann(a, rec) for a in js]
    return _shared(js, lambda a: _ann(a, rec))


def _shared(js, build):
    """one object per distinct description: equal descriptions are the *same* object listed twice"""
    import json
    memo, out = {}, []
    for j in js:
        k = json.dumps(j, sort_keys=True)
        if k not in memo:
            memo[k] = build(j)
        out.append(memo[k])
    return out


def _ann_j(a):
    g = a.sound_event.geometry
    return {"geometry": None if g is None else gen_geom.from_data(g), "tags": _tags_j(list(a.tags))}


def _crow(j):
    """a real crowsetta.Annotation when it can hold the content, else a duck-typed stand-in
    (the converter only uses getattr: lists of sequences and boxes *and* sequences are code paths)"""
    import crowsetta
    boxes = [_bbox(b) for b in j["bboxes"]]
    seqs = [crowsetta.Sequence.from_segments([_segment(s) for s in q]) for q in j["seqs"]]
    if j.get("share"):                       # the same box / segment object listed twice where the descriptions are equal
        boxes = _shared(j["bboxes"], _bbox)
    if j.get("seq_build") and not j.get("stub"):
        seqs = [_sequence(q, j["seq_build"]) for q in j["seqs"]]
    if j.get("stub"):
        attrs = {"notated_path": None if j["notated_path"] is None else __import__("pathlib").Path(j["notated_path"])}
        if boxes:
            attrs["bboxes"] = boxes
        if seqs:
            attrs["seq"] = seqs if len(seqs) != 1 or j.get("as_list") else seqs[0]
        return _stand_in(j.get("stub_kind"), attrs)
    if seqs:
        assert len(seqs) == 1 and not boxes
        return crowsetta.Annotation(annot_path="annots.csv", notated_path=j["notated_path"], seq=seqs[0])
    return crowsetta.Annotation(annot_path="annots.csv", notated_path=j["notated_path"], bboxes=boxes)


STUB_KINDS = ["ns", "slots", "prop", "classattr", "dataclass", "namedtuple"]


def _stand_in(kind, attrs):
    """an annotation-like object that is not a plain namespace (the converter reads `notated_path`, `bboxes`, `seq`
    with getattr): __slots__, properties, class-level attributes, a dataclass, a namedtuple.  Kinds with a fixed set
    of fields carry empty lists for what the annotation does not have (no boxes / no sequences)."""
    if kind in (None, "ns"):
        return NS(**attrs)
    if kind == "slots":
        cls = type("SlotAnnotation", (), {"__slots__": tuple(attrs)})
        o = cls()
        for k, v in attrs.items():
            setattr(o, k, v)
        return o
    if kind == "prop":
        cls = type("LazyAnnotation", (), {k: property(lambda self, k=k: self._d[k]) for k in attrs})
        o = cls()
        object.__setattr__(o, "_d", dict(attrs))
        return o
    if kind == "classattr":
        return type("ClassAnnotation", (), dict(attrs))()
    full = {"notated_path": attrs["notated_path"], "bboxes": attrs.get("bboxes", []), "seq": attrs.get("seq", [])}
    if kind == "dataclass":
        import dataclasses
        cls = dataclasses.make_dataclass("DataAnnotation", list(full))
        return cls(**full)
    if kind == "namedtuple":
        import collections
        return collections.namedtuple("TupleAnnotation", list(full))(**full)
    raise AssertionError(kind)


def _sequence(segs, build=None):
    """a crowsetta.Sequence by its three public constructors (the segments must then be given uniformly)"""
    import crowsetta
    seq = crowsetta.Sequence.from_segments([_segment(s) for s in segs])
    if build == "dict" and segs:            # (crowsetta cannot rebuild an empty sequence from its dict)
        return crowsetta.Sequence.from_dict(seq.as_dict())
    if build == "keyword" and segs:
        import numpy as np

        def col(f, dt):
            vals = [getattr(s, f) for s in seq.segments]
            return None if any(v is None for v in vals) else np.asarray(vals, dtype=dt)
        return crowsetta.Sequence.from_keyword(labels=np.asarray([s.label for s in seq.segments]), onsets_s=col("onset_s", float),
                                               offsets_s=col("offset_s", float), onset_samples=col("onset_sample", int),
                                               offset_samples=col("offset_sample", int))
    return seq


SEQ_BUILDS = [None, None, "dict", "keyword"]


def _crow_j(a):
    import crowsetta
    seq = getattr(a, "seq", None)
    assert seq is None or isinstance(seq, crowsetta.Sequence)
    return {"notated_path": None if a.notated_path is None else str(a.notated_path),
            "bboxes": [_bbox_j(b) for b in getattr(a, "bboxes", [])],
            "seqs": [] if seq is None else [[_segment_j(s) for s in seq.segments]]}


# ====================================================================== implementations
def _cio():
    import soundevent.io.crowsetta as cio
    return cio


def _extras(inp, clip=False):
    """optional pass-through arguments (notes, created_by, clip tags): exercised so that every branch of the
    converters runs; the property does not pin them, so they are not compared"""
    if not inp.get("extras"):
        return {}
    from soundevent import data
    kw = {"created_by": data.User(name="reviewer")}
    if inp["extras"] != "user":
        kw["notes"] = [data.Note(message="a note")]
    if clip:
        kw["tags"] = [_tag(TAG_B)]
    return kw


def _impl_term_key(inp):
    from soundevent import data
    t = data.term_from_key(inp["key"])
    extra = {k: v for k, v in t.model_dump().items()
             if k not in ("label", "name", "definition") and v not in (None, "property")}
    assert not extra, extra
    return {"term": _term_j(t), "key": data.key_from_term(t)}


def _impl_label_to_tags(inp):
    return {"val": _tags_j(_cio().label_to_tags(inp["label"], **_label_kwargs(inp.get("opts"))))}


def _impl_label_from_tag(inp):
    kw = _tag_kwargs(inp.get("opts"))
    if inp.get("separator") is not None:
        kw["separator"] = inp["separator"]
    out = _cio().label_from_tag(_tag(inp["tag"]), **kw)
    assert isinstance(out, str)
    return {"val": out}


def _impl_label_from_tags(inp):
    tags = [_tag(t) for t in inp["tags"]]
    if inp.get("as_tuple"):
        tags = tuple(tags)
    out = _cio().label_from_tags(tags, **_tags_kwargs(inp.get("opts")))
    assert isinstance(out, str)
    return {"val": out}


def _impl_import_segment(inp):
    a = _cio().segment_to_annotation(_segment(inp["segment"]), _rec(inp["rec"]), adjust_time_expansion=inp["adjust"],
                                     **_extras(inp), **_label_kwargs(inp.get("opts")))
    return {"val": _ann_j(a)}


def _impl_import_bbox(inp):
    a = _cio().bbox_to_annotation(_bbox(inp["bbox"]), _rec(inp["rec"]), adjust_time_expansion=inp["adjust"],
                                  **_extras(inp), **_label_kwargs(inp.get("opts")))
    return {"val": _ann_j(a)}


def _impl_import_sequence(inp):
    if inp.get("share"):
        import crowsetta
        seq = crowsetta.Sequence.from_segments(_shared(inp["segments"], _segment))
    else:
        seq = _sequence(inp["segments"], inp.get("seq_build"))
    out = _cio().sequence_to_annotations(seq, _rec(inp["rec"]), adjust_time_expansion=inp["adjust"],
                                         **_label_kwargs(inp.get("opts")))
    assert isinstance(out, list)
    return {"val": [_ann_j(a) for a in out]}


def _clip_ann_j(c):
    by_id = {a.sound_event.uuid: a for a in c.sound_events}
    seqs = []
    for sa in c.sequences:
        seqs.append([_ann_j(by_id[se.uuid]) for se in sa.sequence.sound_events])   # KeyError -> crash: not the same events
    return {"sound_events": [_ann_j(a) for a in c.sound_events], "sequences": seqs}


def _impl_import_annotation(inp):
    rec = _rec(inp["rec"])
    c = _cio().annotation_to_clip_annotation(_crow(inp["crow"]), recording=rec, adjust_time_expansion=inp["adjust"],
                                             **_extras(inp, clip=True), **_label_kwargs(inp.get("opts")))
    assert c.clip.recording == rec
    return {"val": _clip_ann_j(c)}


# --- `recording=None`: the recording is loaded from the notated path (a real WAV file written on demand)
_WAVS = {}
WAV = "@wav"        # placeholder of the notated path in inputs (the real path differs from run to run)


def _wav(sr):
    """an 8-frame mono 16-bit WAV file with the given sample rate, in this run's scratch directory"""
    import wave
    sr = int(sr)
    if sr not in _WAVS:
        path = os.path.join(leanio.run_dir(), f"c10_{sr}.wav")
        with wave.open(path, "wb") as w:
            w.setnchannels(1)
            w.setsampwidth(2)
            w.setframerate(sr)
            w.writeframes(b"\0\0" * 8)
        _WAVS[sr] = path
        atexit.register(_rm, path)
    return _WAVS[sr]


def _rm(path):
    try:
        os.remove(path)
        os.rmdir(os.path.dirname(path))
    except OSError:
        pass


def _load_kwargs(inp):
    return None if inp.get("te") is None else {"time_expansion": float(frac(inp["te"]))}


def _impl_import_annotation_load(inp):
    crow = dict(inp["crow"])
    if crow["notated_path"] == WAV:
        crow["notated_path"] = _wav(frac(inp["file_sr"]))
    kw = {}
    if _load_kwargs(inp) is not None:
        kw["recording_kwargs"] = _load_kwargs(inp)
    ex = _extras(inp, clip=True)
    before = (dict(kw.get("recording_kwargs") or {}), [len(ex.get(k) or []) for k in ("notes", "tags")])
    c = _cio().annotation_to_clip_annotation(_crow(crow), adjust_time_expansion=inp["adjust"], **kw,
                                             **ex, **_label_kwargs(inp.get("opts")))
    # the caller's own dict / lists are as they were (HISTORIES.md: an argument mutated by the call)
    assert before == (dict(kw.get("recording_kwargs") or {}), [len(ex.get(k) or []) for k in ("notes", "tags")]), \
        "annotation_to_clip_annotation changed recording_kwargs / notes / tags of its caller in place"
    return {"val": _clip_ann_j(c)}


def _loaded(inp):
    """what `Recording.from_file` (outside the model) returns for the notated path with the given keyword arguments"""
    from soundevent import data
    path = _wav(frac(inp["file_sr"]))
    rec = data.Recording.from_file(path, **(_load_kwargs(inp) or {}))
    return rec, path


def _to_model_load(inp):
    rec, path = _loaded(inp)
    return {**inp, "loaded": {"samplerate": rat(rec.samplerate), "te": rat(rec.time_expansion),
                              "path": WAV if str(rec.path) == path else str(rec.path)}}


def _holds_load(ctx, inp, io):
    rec, path = _loaded(inp)
    te = 1.0 if inp.get("te") is None else float(frac(inp["te"]))
    # the sample rate of the loaded recording is stated independently: the harness wrote the file (file_sr frames per
    # second) and `from_file` documents samplerate = file samplerate x time expansion
    ctx.contract("Recording.from_file keeps path and time expansion",
                 str(rec.path) == path and rec.time_expansion == te and rec.samplerate == int(frac(inp["file_sr"]) * Fraction(te)),
                 inp, {"path": str(rec.path), "te": rec.time_expansion, "samplerate": rec.samplerate})
    return None


def _sr_rec(inp):
    return _rec({"samplerate": inp["sr"], "te": "1"})


def _impl_export_segment(inp):
    kw = _tags_kwargs(inp.get("opts"))
    if inp.get("cast") is not None and not inp.get("default_cast"):
        kw["cast_to_segment"] = inp["cast"]
    return {"val": _segment_j(_cio().segment_from_annotation(_ann(inp["ann"], _sr_rec(inp)), **kw))}


def _impl_export_bbox(inp):
    kw = _tags_kwargs(inp.get("opts"))
    if not inp.get("default_switches"):
        kw["cast_to_bbox"] = inp["cast"]
        kw["raise_on_time_geometries"] = inp["raise_time"]
    return {"val": _bbox_j(_cio().bbox_from_annotation(_ann(inp["ann"], _sr_rec(inp)), **kw))}


def _impl_export_sequence(inp):
    rec = _sr_rec(inp)
    kw = _tags_kwargs(inp.get("opts"))
    if not inp.get("default_switches"):
        kw["cast_to_segment"] = inp["cast"]
        kw["ignore_errors"] = inp["ignore"]
    anns = _anns(inp["anns"], rec, inp.get("share"))
    seq = _cio().sequence_from_annotations(tuple(anns) if inp.get("as_tuple") else anns, **kw)
    return {"val": [_segment_j(s) for s in seq.segments]}


def _clip_annotation(anns, rec, share=False, build=None):
    from soundevent import data
    c = data.ClipAnnotation(clip=data.Clip(recording=rec, start_time=0, end_time=rec.duration), sound_events=_anns(anns, rec, share))
    if build == "copy":
        c = c.model_copy(deep=True)
    elif build == "aoef":
        c = _through_aoef(c)
    return c


_AOEF_N = [0]


def _through_aoef(c):
    """the clip annotation as `soundevent.io.load` hands it back after `soundevent.io.save` (objects built by the AOEF
    adapters, not by the caller); falls back to the original when the file format does not keep what the converters read"""
    from soundevent import data, io
    _AOEF_N[0] += 1
    path = os.path.join(leanio.run_dir(), f"c10_aoef_{_AOEF_N[0]}.json")
    try:
        io.save(data.AnnotationSet(clip_annotations=[c]), path)
        back = io.load(path).clip_annotations[0]
    finally:
        try:
            os.remove(path)
        except OSError:
            pass
    same = (str(back.clip.recording.path) == str(c.clip.recording.path) and back.clip.recording.samplerate == c.clip.recording.samplerate
            and [_ann_j(a) for a in back.sound_events] == [_ann_j(a) for a in c.sound_events])
    return back if same else c


def _impl_export_annotation(inp):
    rec = _rec(inp["rec"])
    kw = _tags_kwargs(inp.get("opts"))
    if not inp.get("default_switches"):
        kw["ignore_errors"] = inp["ignore"]
        kw["cast_geometry"] = inp["cast"]
        if inp["fmt"] == "bbox":
            kw["raise_on_time_geometries"] = inp["raise_time"]
    a = _cio().annotation_from_clip_annotation(_clip_annotation(inp["anns"], rec, inp.get("share"), inp.get("clip_build")),
                                               "annots.csv", inp["fmt"], **kw)
    return {"val": _crow_j(a)}


def _impl_roundtrip_segment(inp):
    cio = _cio()
    rec = _rec(inp["rec"])
    a = cio.segment_to_annotation(_segment(inp["segment"]), rec, adjust_time_expansion=inp["adjust"],
                                  **_label_kwargs(inp.get("opts")))
    return {"val": _segment_j(cio.segment_from_annotation(a, cast_to_segment=inp["cast"], **_tags_kwargs(inp.get("export_opts"))))}


def _impl_roundtrip_bbox(inp):
    cio = _cio()
    rec = _rec(inp["rec"])
    a = cio.bbox_to_annotation(_bbox(inp["bbox"]), rec, adjust_time_expansion=inp["adjust"], **_label_kwargs(inp.get("opts")))
    return {"val": _bbox_j(cio.bbox_from_annotation(a, cast_to_bbox=inp["cast"], raise_on_time_geometries=inp["raise_time"],
                                                    **_tags_kwargs(inp.get("export_opts"))))}


def _impl_roundtrip_sequence(inp):
    import crowsetta
    cio = _cio()
    rec = _rec(inp["rec"])
    seq = crowsetta.Sequence.from_segments([_segment(s) for s in inp["segments"]])
    anns = cio.sequence_to_annotations(seq, rec, adjust_time_expansion=inp["adjust"], **_label_kwargs(inp.get("opts")))
    out = cio.sequence_from_annotations(anns, cast_to_segment=inp["cast"], ignore_errors=inp["ignore"],
                                        **_tags_kwargs(inp.get("export_opts")))
    return {"val": [_segment_j(s) for s in out.segments]}


def _impl_roundtrip_annotation(inp):
    cio = _cio()
    rec = _rec(inp["rec"])
    c = cio.annotation_to_clip_annotation(_crow(inp["crow"]), recording=rec, adjust_time_expansion=inp["adjust"],
                                          **_label_kwargs(inp.get("opts")))
    kw = _tags_kwargs(inp.get("export_opts"))
    if inp["fmt"] == "bbox":
        kw["raise_on_time_geometries"] = inp["raise_time"]
    a = cio.annotation_from_clip_annotation(c, "annots.csv", inp["fmt"], ignore_errors=inp["ignore"],
                                            cast_geometry=inp["cast"], **kw)
    return {"val": _crow_j(a)}


# ====================================================================== comparison modes
_NUM = re.compile(r"^-?\d+(/\d+)?$")


def _num_compare(eq):
    """structural comparison; rational strings are compared with `eq(model_q, impl_float)`"""
    def walk(a, b, path):
        if isinstance(a, dict) and isinstance(b, dict):
            if set(a) - {"trace"} != set(b):
                return f"{path}: keys differ"
            for k in b:
                m = walk(a[k], b[k], path + "." + k)
                if m:
                    return m
            return None
        if isinstance(a, list) and isinstance(b, list):
            if len(a) != len(b):
                return f"{path}: lengths differ"
            for i, (x, y) in enumerate(zip(a, b)):
                m = walk(x, y, f"{path}[{i}]")
                if m:
                    return m
            return None
        if isinstance(a, str) and isinstance(b, str) and _NUM.match(a) and _NUM.match(b) and not path.endswith("label") \
                and not path.endswith("value"):
            return None if eq(frac(b), float(frac(a))) else f"{path}: {a} (impl) vs {b} (model)"
        return None if a == b else f"{path}: {a!r} (impl) vs {b!r} (model)"

    def compare(inp, io, mo):
        return walk(io, mo, "")
    return compare


def _strip_trace(io):
    return {k: v for k, v in io.items() if k != "trace"} if isinstance(io, dict) else io


def _compare_to_tags(inp, io, mo):
    """exact; a mismatch is labelled with the rung of the cascade the input exercises (one replay per rung)"""
    if _strip_trace(io) == mo:
        return None
    o = inp.get("opts") or {}
    lab = inp["label"]

    def hit(m):
        return m is not None and any(k == lab for k, _ in m)
    if lab in (o.get("empty_labels") or ["__empty__"]):
        return "empty label: implementation and model disagree"
    if o.get("tag_fn") is not None:
        return "tag_fn rung: implementation and model disagree"
    if hit(o.get("term_mapping")):
        return "term_mapping hit: implementation and model disagree"
    if hit(o.get("tag_mapping")):
        return ("tag_mapping hit with an explicit term: the documented cascade returns the mapped tags" if o.get("term") is not None
                else "tag_mapping hit: implementation and model disagree")
    if o.get("term") is not None:
        return "explicit term: implementation and model disagree"
    if hit(o.get("key_mapping")):
        return "key_mapping hit: implementation and model disagree"
    if o.get("key") is not None:
        return ("explicit key after a key_mapping miss: the documented cascade keeps the explicit key" if o.get("key_mapping") is not None
                else "explicit key: implementation and model disagree")
    return "fallback key: implementation and model disagree"


def _compare_from_tags(inp, io, mo):
    if _strip_trace(io) == mo:
        return None
    o = inp.get("opts") or {}
    if o.get("seq_label_fn") is not None:
        return "seq_label_fn rung: implementation and model disagree"
    if not inp["tags"]:
        return "no tags: implementation and model disagree"
    if o.get("select_by_key") is not None:
        return ("select_by_key together with value_only: the documented cascade returns the value of the first match"
                if o.get("value_only") is not None else "select_by_key: implementation and model disagree")
    if o.get("index") is not None:
        return "index rung: implementation and model disagree"
    return "join rung: implementation and model disagree"


def _drop_samples(x):
    if isinstance(x, dict):
        return {k: _drop_samples(v) for k, v in x.items() if k not in ("onset_sample", "offset_sample", "trace")}
    if isinstance(x, list):
        return [_drop_samples(v) for v in x]
    return x


def _compare_free(inp, io, mo):
    return None if _drop_samples(io) == _drop_samples(mo) else "implementation and model disagree (sample indices aside)"


# ====================================================================== round-trip monitors (`holds`)
def _seg_in_domain(s):
    a, b = s["onset_s"], s["offset_s"]
    n, m = s["onset_sample"], s["offset_sample"]
    if (a is None and n is None) or (b is None and m is None):
        return False
    return True


def _seg_times(s, sr):
    a = frac(s["onset_s"]) if s["onset_s"] is not None else Fraction(s["onset_sample"]) / sr
    b = frac(s["offset_s"]) if s["offset_s"] is not None else Fraction(s["offset_sample"]) / sr
    return a, b


def _rt_domain(inp):
    """hypotheses of the round-trip theorems: no time expansion applied, value-only labels with the
    default (single tag) import cascade and matching empty labels"""
    if inp["adjust"] and frac(inp["rec"]["te"]) != 1:
        return False
    o = inp.get("opts") or {}
    if o.get("tag_fn") is not None or o.get("tag_mapping") is not None:
        return False
    e = inp.get("export_opts") or {}
    if e.get("seq_label_fn") is not None or e.get("label_fn") is not None or e.get("label_mapping") is not None:
        return False
    if e.get("select_by_key") is not None:
        # value-only labels through select_by_key of the importer's key (C10_label_roundtrip_cases, te = 1)
        if o.get("term_mapping") is not None or o.get("key_mapping") is not None or frac(inp["rec"]["te"]) != 1:
            return False
        k = o["term"]["label"] if o.get("term") is not None else (
            o["key"] if o.get("key") is not None else (o["fallback"] if o.get("fallback") is not None else "crowsetta"))
        if e["select_by_key"] != k:
            return False
    elif e.get("value_only") is not True:
        return False
    empties = o.get("empty_labels") or ["__empty__"]
    if empties != [e.get("empty_label") or "__empty__"]:
        return False
    return True


def _holds_rt_segment(ctx, inp, io):
    if not _rt_domain(inp) or not _seg_in_domain(inp["segment"]):
        return None
    sr = frac(inp["rec"]["samplerate"])
    te = frac(inp["rec"]["te"])
    s = inp["segment"]
    if te != 1 and (s["onset_s"] is None or s["offset_s"] is None):
        return None
    a, b = _seg_times(s, sr)
    if not (0 <= a <= b):
        return None
    ctx.tally("monitored:roundtrip_segment" + (":free" if inp.get("free") else ""))
    if "val" not in io:
        return "round trip of a valid segment raised %r" % (io,)
    if inp.get("free"):
        return _free_segment_ok(s, io["val"], float(sr))
    ok = ctx.model("rt_segment_ok", {"sr": inp["rec"]["samplerate"], "x": s, "y": io["val"]})
    return None if ok else "export after import does not reproduce the segment"


def _free_segment_ok(x, y, sr):
    """free mode (arbitrary floats): seconds and label reproduced bit for bit, sample = floor(float product)"""
    if y["label"] != x["label"]:
        return "label not reproduced"
    for sec, smp in (("onset_s", "onset_sample"), ("offset_s", "offset_sample")):
        if x[sec] is not None:
            if y[sec] != x[sec]:
                return f"{sec} not reproduced"
            if y[smp] != math.floor(float(frac(x[sec])) * sr):
                return f"{smp} is not floor(time * samplerate)"
    return None


def _box_rt_domain(inp):
    b = inp["bbox"]
    sr = frac(inp["rec"]["samplerate"])
    return frac(b["high_freq"]) <= sr / 2 and frac(b["high_freq"]) <= MAXF


def _holds_rt_bbox(ctx, inp, io):
    if not _rt_domain(inp) or not _box_rt_domain(inp):
        return None
    ctx.tally("monitored:roundtrip_bbox")
    if "val" not in io:
        return "round trip of a valid box raised %r" % (io,)
    ok = ctx.model("rt_bbox_ok", {"x": inp["bbox"], "y": io["val"]})
    return None if ok else "export after import does not reproduce the box"


def _holds_rt_sequence(ctx, inp, io):
    if not _rt_domain(inp):
        return None
    sr = frac(inp["rec"]["samplerate"])
    te = frac(inp["rec"]["te"])
    for s in inp["segments"]:
        if not _seg_in_domain(s) or (te != 1 and (s["onset_s"] is None or s["offset_s"] is None)):
            return None
        a, b = _seg_times(s, sr)
        if not (0 <= a <= b):
            return None
    ctx.tally("monitored:roundtrip_sequence" + (":free" if inp.get("free") else ""))
    if "val" not in io:
        return "round trip of a valid sequence raised %r" % (io,)
    if inp.get("free"):
        if len(io["val"]) != len(inp["segments"]):
            return "length not reproduced"
        for x, y in zip(inp["segments"], io["val"]):
            m = _free_segment_ok(x, y, float(sr))
            if m:
                return m
        return None
    ok = ctx.model("rt_sequence_ok", {"sr": inp["rec"]["samplerate"], "x": inp["segments"], "y": io["val"]})
    return None if ok else "export after import does not reproduce the sequence (onsets, offsets, labels, order)"


def _holds_rt_annotation(ctx, inp, io):
    if not _rt_domain(inp):
        return None
    c = inp["crow"]
    if c.get("stub") or c["notated_path"] != (inp["rec"].get("path") or "rec.wav"):
        return None
    sr = frac(inp["rec"]["samplerate"])
    te = frac(inp["rec"]["te"])
    if c["bboxes"]:
        if inp["fmt"] != "bbox":
            return None
        for b in c["bboxes"]:
            if not _box_rt_domain({"bbox": b, "rec": inp["rec"]}):
                return None
    else:
        if inp["fmt"] != "seq" or len(c["seqs"]) != 1:
            return None
        for s in c["seqs"][0]:
            if not _seg_in_domain(s) or (te != 1 and (s["onset_s"] is None or s["offset_s"] is None)):
                return None
            a, b = _seg_times(s, sr)
            if not (0 <= a <= b):
                return None
    ctx.tally("monitored:roundtrip_annotation")
    if "val" not in io:
        return "round trip of a valid annotation raised %r" % (io,)
    x = {"notated_path": c["notated_path"], "bboxes": c["bboxes"], "seqs": c["seqs"]}
    ok = ctx.model("rt_annotation_ok", {"sr": inp["rec"]["samplerate"], "x": x, "y": io["val"]})
    return None if ok else "export after import does not reproduce the annotation"


def _safe(h):
    def holds(ctx, inp, io):
        try:
            return h(ctx, inp, io)
        except Exception as e:  # noqa: BLE001 - an output of unexpected shape fails the monitor, it does not crash the check
            return "round-trip monitor could not evaluate the output: %s" % (repr(e)[:300],)
    return holds


_holds_rt_segment, _holds_rt_bbox = _safe(_holds_rt_segment), _safe(_holds_rt_bbox)
_holds_rt_sequence, _holds_rt_annotation = _safe(_holds_rt_sequence), _safe(_holds_rt_annotation)

OPS = {
    "term_key": Op("term_key", _impl_term_key),
    "label_to_tags": Op("label_to_tags", _impl_label_to_tags, compare=_compare_to_tags),
    "label_from_tag": Op("label_from_tag", _impl_label_from_tag),
    "label_from_tags": Op("label_from_tags", _impl_label_from_tags, compare=_compare_from_tags),
    "import_segment": Op("import_segment", _impl_import_segment),
    "import_segment_r1": Op("import_segment_r1", _impl_import_segment, model_op="import_segment",
                            compare=_num_compare(round_once_eq), mode="round-once"),
    "import_segment_tol": Op("import_segment_tol", _impl_import_segment, model_op="import_segment",
                             compare=_num_compare(tol_eq), mode="tolerance"),
    "import_bbox": Op("import_bbox", _impl_import_bbox),
    "import_bbox_r1": Op("import_bbox_r1", _impl_import_bbox, model_op="import_bbox",
                         compare=_num_compare(round_once_eq), mode="round-once"),
    "import_sequence": Op("import_sequence", _impl_import_sequence),
    "import_annotation": Op("import_annotation", _impl_import_annotation),
    "import_annotation_load": Op("import_annotation_load", _impl_import_annotation_load, to_model=_to_model_load,
                                 holds=_holds_load),
    "export_segment": Op("export_segment", _impl_export_segment),
    "export_bbox": Op("export_bbox", _impl_export_bbox),
    "export_sequence": Op("export_sequence", _impl_export_sequence),
    "export_annotation": Op("export_annotation", _impl_export_annotation),
    "roundtrip_segment": Op("roundtrip_segment", _impl_roundtrip_segment, holds=_holds_rt_segment),
    "roundtrip_segment_free": Op("roundtrip_segment_free", _impl_roundtrip_segment, holds=_holds_rt_segment,
                                 model_op="roundtrip_segment", compare=_compare_free),
    "roundtrip_bbox": Op("roundtrip_bbox", _impl_roundtrip_bbox, holds=_holds_rt_bbox),
    "roundtrip_sequence": Op("roundtrip_sequence", _impl_roundtrip_sequence, holds=_holds_rt_sequence),
    "roundtrip_sequence_free": Op("roundtrip_sequence_free", _impl_roundtrip_sequence, holds=_holds_rt_sequence,
                                  model_op="roundtrip_sequence", compare=_compare_free),
    "roundtrip_annotation": Op("roundtrip_annotation", _impl_roundtrip_annotation, holds=_holds_rt_annotation),
    # histories and unusual passing (harness/c10_hist.py, HISTORIES.md)
    "history": c10_hist.HISTORY,
    "tag_history": c10_hist.TAG_HISTORY,
    "positional": c10_hist.POSITIONAL,
}


# ====================================================================== tie 1: keyword defaults
def _defaults_obligation(ctx):
    cio = _cio()

    def d(f):
        return {k: v.default for k, v in inspect.signature(f).parameters.items() if v.default is not inspect.Parameter.empty}
    lt, lf, lfs = d(cio.label_to_tags), d(cio.label_from_tag), d(cio.label_from_tags)
    from soundevent.io.crowsetta import labels
    # the empty label is what the signatures say; the module constant (a private name) is compared when it exists
    empty_label = getattr(labels, "EMPTY_LABEL", None)
    if empty_label is None:
        empty_label = lfs.get("empty_label")
    adj = {f.__name__: d(f).get("adjust_time_expansion") for f in
           (cio.segment_to_annotation, cio.bbox_to_annotation, cio.sequence_to_annotations, cio.annotation_to_clip_annotation)}
    empties = list(lt.get("empty_labels") or [])
    ext = {
        "fallback": lt.get("fallback"), "emptyLabel": empty_label,
        "tagSeparator": lf.get("separator"), "joinSeparator": lfs.get("separator"), "valueOnly": lf.get("value_only"),
        "segCast": d(cio.segment_from_annotation).get("cast_to_segment"),
        "seqCast": d(cio.sequence_from_annotations).get("cast_to_segment"),
        "seqIgnore": d(cio.sequence_from_annotations).get("ignore_errors"),
        "boxCast": d(cio.bbox_from_annotation).get("cast_to_bbox"),
        "boxRaiseTime": d(cio.bbox_from_annotation).get("raise_on_time_geometries"),
        "annIgnore": d(cio.annotation_from_clip_annotation).get("ignore_errors"),
        "annCast": d(cio.annotation_from_clip_annotation).get("cast_geometry"),
        "adjust": all(v is True for v in adj.values()),
    }
    consistent = (empties == [empty_label] and lfs.get("empty_label") == empty_label
                  and all(d(f).get(k) is None for f, ks in ((cio.label_to_tags, ("tag_fn", "tag_mapping", "term_mapping", "key_mapping", "key", "term")),
                                                           (cio.label_from_tag, ("label_fn", "label_mapping")),
                                                           (cio.label_from_tags, ("seq_label_fn", "select_by_key", "index"))) for k in ks))

    def lean(v):
        if isinstance(v, bool):
            return "true" if v else "false"
        if isinstance(v, str):
            return '"' + v.replace("\\", "\\\\").replace('"', '\\"') + '"'
        return '"<not a literal: %s>"' % type(v).__name__
    fields = ", ".join(f"{k} := {lean(v)}" for k, v in ext.items())
    src = (f"def extractedDefaults : SE.Crowsetta.Defaults := {{ {fields} }}\n"
           "theorem defaults_tie : SE.Crowsetta.defaults = extractedDefaults := by decide\n"
           "theorem defaults_agree : SE.Crowsetta.defaultsAgree = true := by decide\n"
           f"theorem optional_defaults_absent : {lean(bool(consistent))} = true := by decide\n")
    ctx.obligation("keyword_defaults", src, {"op": "defaults", "extracted": {k: repr(v) for k, v in ext.items()}})


def _signatures_obligation(ctx):
    """Tie 1: the positional-or-keyword parameters of the eleven public converters, in order, are the Lean table
    `SE.Crowsetta.signatures` (parameters appended after the table's and keyword-only ones are free as long as
    they are optional: they cannot change what a positional call in the table's order binds)"""
    model = {e["fn"]: e["params"] for e in ctx.model("signatures", {})}
    ext = c10_hist.signature_table()
    rows, surplus_ok = [], True
    for fn, params in model.items():
        e = ext.get(fn)
        if e is None:
            rows.append((fn, []))
            continue
        rows.append((fn, e["positional"][:len(params)]))
        surplus = set(e["positional"][len(params):]) | set(e["kwonly"])
        surplus_ok = surplus_ok and not (surplus & set(e["required"]))

    def lstr(x):
        return '"' + x.replace("\\", "\\\\").replace('"', '\\"') + '"'
    body = ", ".join("(%s, [%s])" % (lstr(fn), ", ".join(lstr(q) for q in ps)) for fn, ps in rows)
    src = (f"def extractedSignatures : List (String × List String) := [{body}]\n"
           "theorem signatures_tie : SE.Crowsetta.signatures.map (fun s => (s.fn, s.params)) = extractedSignatures := by decide\n"
           f"theorem surplus_parameters_optional : {'true' if surplus_ok else 'false'} = true := by decide\n")
    ctx.obligation("positional_signatures", src, {"op": "positional", "extracted": ext})


# ====================================================================== tie 1b: symbolic traces
class _G:
    """geometry stub: coordinates (symbolic) and the type tag"""
    TYPE = None

    def __init__(self, coordinates, type=None):
        self.coordinates = coordinates
        self.type = type or self.TYPE


# one stub class per geometry type, so that both `geometry.type == "…"` and `isinstance(geometry, data.…)` work
_GEOM_STUBS = {t: type("_" + t, (_G,), {"TYPE": t}) for t in gen_geom.TYPES}


def _geom_stub(ty, coordinates):
    return _GEOM_STUBS[ty](coordinates)


class _StubData:
    """stands in for `soundevent.data` inside the traced converters: constructors record their arguments"""
    Geometry = _G

    @staticmethod
    def SoundEvent(**kw):
        return NS(**kw)

    @staticmethod
    def SoundEventAnnotation(**kw):
        return NS(**kw)


for _t, _c in _GEOM_STUBS.items():
    setattr(_StubData, _t, _c)


class _StubSegment:
    """stands in for `crowsetta.Segment` inside the traced exporter (its converters call `float()`): records
    the arguments of either construction path"""

    def __init__(self, label=None, onset_s=None, offset_s=None, onset_sample=None, offset_sample=None):
        self.label, self.onset_s, self.offset_s = label, onset_s, offset_s
        self.onset_sample, self.offset_sample = onset_sample, offset_sample

    @classmethod
    def from_keyword(cls, label, onset_s=None, offset_s=None, onset_sample=None, offset_sample=None):
        return cls(label=label, onset_s=onset_s, offset_s=offset_s, onset_sample=onset_sample, offset_sample=offset_sample)


class _IntArgs:
    """while active, `int(<symbolic number>)` (also `math.floor` / `math.trunc`) records its argument and returns a
    sentinel integer, so that a traced result field can be recognised as `int(<term>)`.  Python's truncation itself
    is `pyInt` in the model; `math.floor` is accepted as well because the property pins floor(time * samplerate) and
    the two agree for the non-negative times of valid geometries (`C10_export_samples_floor`)"""
    BASE = 7_000_001
    ALL = []          # sentinels are unique over the whole run: a (correct) cache of the code under test may hand back the
    #                   integer it computed in an earlier trace for the very same symbolic arguments

    def __enter__(self):
        Sym.int_hook = self._hook
        # symbols hash by identity while tracing, so that code which keeps what it computed in a dict keyed by its
        # arguments can be traced (a lookup of the same symbols hits, any other one misses)
        self._hash = Sym.__dict__.get("__hash__")
        Sym.__hash__ = lambda s: id(s) >> 4
        return self

    def _hook(self, sym):
        self.ALL.append(sym)
        return self.BASE + len(self.ALL) - 1

    def __exit__(self, *exc):
        Sym.int_hook = None
        Sym.__hash__ = self._hash
        return False

    def arg_of(self, v):
        if type(v) is int and self.BASE <= v < self.BASE + len(self.ALL):
            return self.ALL[v - self.BASE]
        raise Untraceable("a sample index is not int(<time term>): %r" % (v,))


def _opt(name, present):
    return f"(some {name})" if present else "none"


def _b(v):
    return "true" if v else "false"


_MISSING = object()


class _Patched:
    """temporarily replace module attributes (tolerant: an attribute the module no longer has is
    simply added and removed again; the trace then fails on its own terms, as a broken tie)"""

    def __init__(self, mod, **attrs):
        self.mod, self.attrs, self.saved = mod, attrs, {}

    def __enter__(self):
        for k, v in self.attrs.items():
            self.saved[k] = getattr(self.mod, k, _MISSING)
            setattr(self.mod, k, v)
        return self

    def __exit__(self, *exc):
        for k, v in self.saved.items():
            if v is _MISSING:
                try:
                    delattr(self.mod, k)
                except AttributeError:
                    pass
            else:
                setattr(self.mod, k, v)
        return False


_CLOSE = "first | se_close | (split <;> se_close) | (repeat' split) <;> se_close"


def _symbolic_ties(ctx):
    import soundevent.io.crowsetta.segment as segmod
    import soundevent.io.crowsetta.bbox as boxmod
    V = ["os", "oe", "ns", "ne", "sr", "te"]
    os_, oe, ns, ne, sr, te = [Sym.var(v) for v in V]
    with _Patched(segmod, data=_StubData, label_to_tags=lambda label, **kw: []):
        # --- segment_to_annotation: every presence pattern of the four time fields x adjust
        for po, pe, pn, pm, adjust in itertools.product([True, False], repeat=5):
            name = "ext_seg_" + "".join("sn"[not p] for p in (po, pe, pn, pm)) + ("_adj" if adjust else "_raw")
            seg = NS(label="x", onset_s=os_ if po else None, offset_s=oe if pe else None,
                     onset_sample=ns if pn else None, offset_sample=ne if pm else None)
            rec = NS(samplerate=sr, time_expansion=te)

            def thunk(seg=seg, rec=rec, adjust=adjust):
                a = segmod.segment_to_annotation(seg, rec, adjust_time_expansion=adjust)
                c = a.sound_event.geometry.coordinates
                assert len(c) == 2 and a.sound_event.geometry.type == "TimeInterval"
                return (c[0], c[1])
            ctx.sym_tie(name, thunk, V, "Rat × Rat",
                        f"SE.Crowsetta.segTimes {_opt('os', po)} {_opt('oe', pe)} {_opt('ns', pn)} {_opt('ne', pm)} sr te "
                        f"{'true' if adjust else 'false'}",
                        tactic=f"unfold {name} SE.Crowsetta.segTimes SE.Crowsetta.fileTime SE.Crowsetta.adjTime\n  {_CLOSE}",
                        meta={"op": "import_segment"})
    # --- bbox_to_annotation
    V = ["onset", "offset", "lo", "hi", "te"]
    on, off, lo, hi, te = [Sym.var(v) for v in V]
    with _Patched(boxmod, data=_StubData, label_to_tags=lambda label, **kw: []):
        for adjust in (True, False):
            name = "ext_box_import" + ("_adj" if adjust else "_raw")
            box = NS(label="x", onset=on, offset=off, low_freq=lo, high_freq=hi)
            rec = NS(samplerate=Sym.var("sr"), time_expansion=te)

            def thunk(box=box, rec=rec, adjust=adjust):
                a = boxmod.bbox_to_annotation(box, rec, adjust_time_expansion=adjust)
                c = a.sound_event.geometry.coordinates
                assert len(c) == 4 and a.sound_event.geometry.type == "BoundingBox"
                return tuple(c)
            ctx.sym_tie(name, thunk, V, "Rat × Rat × Rat × Rat",
                        f"some (SE.Crowsetta.boxCoords onset offset lo hi te {'true' if adjust else 'false'})",
                        tactic=f"unfold {name} SE.Crowsetta.boxCoords SE.Crowsetta.adjTime SE.Crowsetta.adjFreq\n  {_CLOSE}",
                        meta={"op": "import_bbox"})
    # --- bbox_from_annotation: Nyquist cap and crowsetta's own BBox validators, bounds symbolic
    V = ["s", "lo", "e", "hi", "sr"]
    s, lo, e, hi, sr = [Sym.var(v) for v in V]
    with _Patched(boxmod, compute_bounds=lambda g: (s, lo, e, hi), label_from_tags=lambda tags, **kw: "x"):
        obj = NS(sound_event=NS(geometry=_geom_stub("BoundingBox", [s, lo, e, hi]), recording=NS(samplerate=sr)), tags=[])

        def thunk():
            b = boxmod.bbox_from_annotation(obj)
            return (b.onset, b.offset, b.low_freq, b.high_freq)
        ctx.sym_tie("ext_box_export", thunk, V, "Rat × Rat × Rat × Rat",
                    "(match SE.Crowsetta.mkBBox s e lo (min hi (sr / 2)) \"x\" with\n"
                    "      | .ok b => some (b.onset, b.offset, b.lowFreq, b.highFreq)\n      | .error _ => none)",
                    tactic=f"unfold ext_box_export SE.Crowsetta.mkBBox\n  {_CLOSE}", meta={"op": "export_bbox"})
        # every geometry type x cast_to_bbox x raise_on_time_geometries: the switch table `boxRefused` + `boxOf`
        for ty, cast, rt in itertools.product(gen_geom.TYPES, (True, False), (True, False)):
            name = f"ext_box_export_{ty}_{'c' if cast else 'n'}{'r' if rt else 'k'}"
            obj = NS(sound_event=NS(geometry=_geom_stub(ty, [s, lo, e, hi]), recording=NS(samplerate=sr)), tags=[])

            def thunk(obj=obj, cast=cast, rt=rt):
                b = boxmod.bbox_from_annotation(obj, cast_to_bbox=cast, raise_on_time_geometries=rt)
                return (b.onset, b.offset, b.low_freq, b.high_freq)
            ctx.sym_tie(name, thunk, V, "Rat × Rat × Rat × Rat",
                        f"(match SE.Crowsetta.boxOf \"{ty}\" {_b(cast)} {_b(rt)} ⟨s, lo, e, hi⟩ sr \"x\" with\n"
                        "      | .ok b => some (b.onset, b.offset, b.lowFreq, b.highFreq)\n      | .error _ => none)",
                        tactic=f"unfold {name} SE.Crowsetta.boxOf SE.Crowsetta.boxRefused SE.Crowsetta.mkBBox\n  {_CLOSE}",
                        meta={"op": "export_bbox"})
    # --- segment_from_annotation: the time span by type tag x cast_to_segment, seconds = the span itself, sample
    #     fields = int(span * samplerate) (crowsetta.Segment stubbed: its converters call float())
    V = ["s", "e", "st", "lo", "en", "hi", "sr"]
    s, e, st, lo, en, hi, sr = [Sym.var(v) for v in V]
    def bounds_stub(g):
        # bounds of a (validated, start <= end) TimeInterval are its own coordinates over the whole band, so a
        # converter that takes every geometry through compute_bounds traces to the same span
        if getattr(g, "type", None) == "TimeInterval" and len(g.coordinates) == 2:
            return (g.coordinates[0], 0, g.coordinates[1], MAXF)
        return (st, lo, en, hi)
    with _Patched(segmod, data=_StubData, compute_bounds=bounds_stub, label_from_tags=lambda tags, **kw: "x",
                  crowsetta=NS(Segment=_StubSegment, __version__=getattr(getattr(segmod, "crowsetta", None), "__version__", "4")),
                  Segment=_StubSegment):      # either way the module may refer to the class
        for ty, cast in itertools.product(gen_geom.TYPES, (True, False)):
            name = f"ext_seg_export_{ty}_{'c' if cast else 'n'}"
            coords = [s, e] if ty == "TimeInterval" else [st, lo, en, hi]
            obj = NS(sound_event=NS(geometry=_geom_stub(ty, coords), recording=NS(samplerate=sr)), tags=[])

            def thunk(obj=obj, cast=cast):
                with _IntArgs() as ia:
                    g = segmod.segment_from_annotation(obj, cast_to_segment=cast)
                    return (g.onset_s, g.offset_s, ia.arg_of(g.onset_sample), ia.arg_of(g.offset_sample))
            ctx.sym_tie(name, thunk, V, "Rat × Rat × Rat × Rat",
                        f"(SE.Crowsetta.spanOf \"{ty}\" {_b(cast)} s e ⟨st, lo, en, hi⟩).map (fun p => SE.Crowsetta.segFields sr p.1 p.2)",
                        tactic=f"unfold {name} SE.Crowsetta.spanOf SE.Crowsetta.segFields\n  {_CLOSE}",
                        meta={"op": "export_segment"})


# ====================================================================== generators
LAB = "lab"
TERM_X = {"label": "species", "name": "dwc:scientificName", "definition": "scientific name"}
TERM_Y = {"label": "call", "name": "se:callType", "definition": "call type"}
TERM_Z = {"label": "k1", "name": "other:k1", "definition": "same label as key k1, different term"}
TAG_A = ktag("k1", "v1")
TAG_B = ktag("k2", "v2")
TAG_C = {"term": TERM_X, "value": "Myotis"}
TAG_D = ktag("k1", "v3")


def _fn(table, default):
    return {"table": table, "default": default}


def enum_label_to_tags(full=True):
    for label, empties in [(LAB, None), ("__empty__", None), (LAB, ["NA", LAB]), ("__empty__", ["NA"]), ("", None)]:
        fns = [None,
               _fn([[label, {"single": TAG_A}]], {"raise": "invalid"}),
               _fn([[label, {"many": [TAG_A, TAG_B]}]], {"single": TAG_D}),
               _fn([[label, {"many": []}]], {"single": TAG_D}),
               _fn([[label, {"raise": "invalid"}]], {"single": TAG_B}),
               _fn([[label, {"raise": "key"}]], {"single": TAG_B})]
        tag_maps = [None, [["other", {"single": TAG_B}]], [["other", {"single": TAG_B}], [label, {"single": TAG_C}]],
                    [[label, {"many": [TAG_C, TAG_A]}]]]
        term_maps = [None, [["other", TERM_Y]], [[label, TERM_Y], ["other", TERM_X]]]
        key_maps = [None, [["other", "kx"]], [["other", "kx"], [label, "kmapped"]]]
        for fn, tm, trm, km, key, term, fb in itertools.product(fns, tag_maps, term_maps, key_maps, [None, "explicit"],
                                                                 [None, TERM_X], [None, "fb"]):
            if not full and label == "" and (fn is not None or fb is not None):
                continue
            yield {"label": label, "opts": {"tag_fn": fn, "tag_mapping": tm, "term_mapping": trm, "key_mapping": km,
                                            "key": key, "term": term, "fallback": fb, "empty_labels": empties}}


def enum_label_to_tags_falsy():
    """falsy-but-meaningful option values: empty key / fallback / label, an empty `empty_labels`, empty mappings"""
    for label, empties in [(LAB, None), (LAB, []), ("", []), ("", [""]), ("__empty__", []), ("0", None),
                           (" __empty__ ", None), ("__EMPTY__", None), ("NA ", ["NA"])]:      # near misses of an empty label
        tag_maps = [None, [], [[label, {"many": []}]]]
        term_maps = [None, []]
        key_maps = [None, [], [["other", "kx"]], [[label, ""]]]
        for tm, trm, km, key, term, fb in itertools.product(tag_maps, term_maps, key_maps, [None, "", "explicit"],
                                                            [None, TERM_X], [None, "", "fb"]):
            yield {"label": label, "opts": {"tag_fn": None, "tag_mapping": tm, "term_mapping": trm, "key_mapping": km,
                                            "key": key, "term": term, "fallback": fb, "empty_labels": empties}}


TAG_E = ktag("", "ve")          # a tag whose key is the empty string
TAG_F = ktag("k1", "")          # a tag whose value is the empty string
TAG_G = ktag("K1", "upper")     # keys are compared exactly: "K1" is not "k1"


def enum_label_from_tags_falsy():
    for tags in ([], [TAG_F], [TAG_A, TAG_E, TAG_F], [TAG_E, TAG_A], [TAG_G, TAG_E, TAG_A]):
        t0 = tags[-1] if tags else TAG_A
        for sel, idx, mp, vo, sep, el in itertools.product([None, "", "k1", "K1", " k1"], [None, 0, -1], [None, [], [[t0, ""]]],
                                                           [None, True, False], [None, ""], [None, ""]):
            yield {"tags": tags, "opts": {"seq_label_fn": None, "select_by_key": sel, "index": idx, "label_fn": None,
                                          "label_mapping": mp, "value_only": vo, "separator": sep, "empty_label": el}}


def enum_label_from_tag():
    for tag in (TAG_A, TAG_C):
        fns = [None, _fn([[tag, {"ret": "by-fn"}]], {"ret": "fn-default"}), _fn([[tag, {"raise": "invalid"}]], {"ret": "d"}),
               _fn([[tag, {"raise": "key"}]], {"ret": "d"})]
        maps = [None, [[TAG_B, "mapped-b"]], [[TAG_B, "mapped-b"], [tag, "mapped"]], [[tag, ""]]]
        for fn, mp, vo, sep in itertools.product(fns, maps, [None, True, False], [None, "=", ""]):
            yield {"tag": tag, "opts": {"label_fn": fn, "label_mapping": mp, "value_only": vo}, "separator": sep}


TAG_LISTS = [[], [TAG_A], [TAG_A, TAG_B, TAG_D], [TAG_C, {"term": TERM_Z, "value": "z"}, TAG_A]]


def enum_label_from_tags(full=True):
    for tags in TAG_LISTS:
        n = len(tags)
        seq_fns = [None, _fn([[tags, {"ret": "seq-fn"}]], {"ret": "seq-default"}), _fn([[tags, {"raise": "invalid"}]], {"ret": "d"}),
                   _fn([[tags, {"raise": "key"}]], {"ret": "d"})]
        selects = [None, "nokey", "k1", "k2", "species"]
        indices = [None, 0, 1, n, n + 1, -1, -n - 2, 7]
        t0 = tags[-1] if tags else TAG_A
        label_fns = [None, _fn([[t0, {"ret": "by-fn"}]], {"ret": "fn-default"}), _fn([[t0, {"raise": "invalid"}]], {"ret": "d"})]
        maps = [None, [[TAG_B if t0 != TAG_B else TAG_C, "mapped-other"]], [[t0, "mapped"]]]
        for sf, sel, idx, lf, mp, vo, sep, el in itertools.product(seq_fns, selects, indices, label_fns, maps,
                                                                   [None, True, False], [None, "|"], [None, "NA"]):
            if not full:
                # quick tier: thin out the combinations that only multiply independent dimensions
                if sf is not None and (idx not in (None, 1) or sep is not None or lf is not None and mp is not None):
                    continue
                if sel is not None and idx not in (None, 0, -1):
                    continue
                if sep is not None and el is not None and (lf is not None or mp is not None):
                    continue
            yield {"tags": tags, "opts": {"seq_label_fn": sf, "select_by_key": sel, "index": idx, "label_fn": lf,
                                          "label_mapping": mp, "value_only": vo, "separator": sep, "empty_label": el}}


POW2_TE = ["1", "2", "4", "8", "16", "1/2", "1/4"]
POW2_SR = ["1", "2", "8", "256", "8192", "65536"]
INT_SR = ["3", "10", "441", "8000", "22050", "44100", "48000", "96000", "12345"]
DEC_TE = ["10", "3", "3/2", "5", rat(0.1), "7/4"]     # exact binary64 values

LABEL_OPTS = [None, None, {"key": "species"}, {"term": TERM_X}, {"fallback": "fb"},
              {"term_mapping": [["a", TERM_Y]]}, {"key_mapping": [["a", "kk"]], "key": "explicit"},
              {"tag_mapping": [["a", {"many": [TAG_A, TAG_B]}]]},
              {"tag_fn": _fn([["a", {"single": TAG_C}]], {"raise": "invalid"})},
              {"tag_fn": _fn([["b", {"raise": "key"}]], {"raise": "invalid"})},
              {"empty_labels": ["a", "NA"]}]
LABELS = ["a", "b", "__empty__", "", "1", "a,b", "k:v"]


def _grid(rng, lo, hi, k):
    return Fraction(rng.randint(int(lo * (1 << k)), int(hi * (1 << k))), 1 << k)


def gen_segment(rng, k=3, tmax=64, valid=0.85, seconds=None):
    a = _grid(rng, 0, tmax, k)
    b = _grid(rng, 0, tmax, k)
    r = rng.random()
    if r < valid:
        a, b = min(a, b), max(a, b)
    elif r < valid + 0.05:
        a = -a
    if rng.random() < 0.06:
        a = Fraction(0)                     # onset 0.0: falsy but meaningful
        b = abs(b)
    if rng.random() < 0.1:
        b = a
    na, nb = sorted([rng.randint(0, 1 << 16), rng.randint(0, 1 << 16)])
    if rng.random() < 0.1:
        na, nb = nb, na
    if rng.random() < 0.1:
        na = 0
    mode = seconds if seconds is not None else rng.choice(["both", "both", "seconds", "samples", "mixed", "none"])
    seg = {"label": rng.choice(LABELS), "onset_s": rat(a), "offset_s": rat(b), "onset_sample": na, "offset_sample": nb}
    if mode == "seconds":
        seg["onset_sample"] = seg["offset_sample"] = None
    elif mode == "samples":
        seg["onset_s"] = seg["offset_s"] = None
    elif mode == "mixed":
        for f in rng.sample(["onset_s", "offset_s", "onset_sample", "offset_sample"], rng.randint(1, 3)):
            seg[f] = None
    elif mode == "none":
        seg["onset_s"] = None
        seg["onset_sample"] = None
        if rng.random() < 0.5:
            seg["offset_s"] = None
    if rng.random() < 0.15:
        seg["num"] = rng.choice(["int", "np", "f32"])      # Python ints / numpy scalars instead of floats
    return seg


def gen_segments(rng, nmax, valid=0.97, mode=None):
    """segments a crowsetta.Sequence accepts: seconds and samples given uniformly"""
    mode = mode or rng.choice(["both", "seconds", "samples"])
    return [gen_segment(rng, valid=valid, seconds=mode) for _ in range(rng.randint(0, nmax))]


def gen_bbox(rng, k=3, tmax=64, fmax=64, f32=False):
    a, b = sorted([_grid(rng, 0, tmax, k), _grid(rng, 0, tmax, k)])
    if a == b:
        b = a + Fraction(1, 1 << k)
    lo, hi = sorted([_grid(rng, 0, fmax, k), _grid(rng, 0, fmax, k)])
    if lo == hi:
        hi = lo + Fraction(1, 1 << k)
    if rng.random() < 0.1:
        a = Fraction(0)
    if rng.random() < 0.1:
        lo = Fraction(0)
    box = {"onset": rat(a), "offset": rat(b), "low_freq": rat(lo), "high_freq": rat(hi), "label": rng.choice(LABELS)}
    if rng.random() < 0.2:
        # crowsetta.BBox has no converters: ints / numpy scalars reach the converter (binary32 only where the arithmetic
        # stays exact: power-of-two factors)
        box["num"] = rng.choice(["int", "np", "f32"] if f32 else ["int", "np"])
    return box


def _extra(rng):
    return rng.choice([None, None, None, "user", "all"])


KW_KINDS = ["reversed", "odict", "proxy", "subclass"]


def _kwv(rng, opts, p=0.3):
    """the same options, sometimes in another legitimate container / keyword order"""
    if opts and rng.random() < p:
        return {**opts, "_kw": rng.choice(KW_KINDS)}
    return opts


def _recv(rng, rec, p=1.0):
    b = rng.choice(REC_BUILDS) if rng.random() < p else None
    return {**rec, "build": b} if b else rec


def gen_import_segment(rng, n, tes, srs, seconds=None):
    for _ in range(n):
        yield {"segment": gen_segment(rng, seconds=seconds), "rec": _recv(rng, {"samplerate": rng.choice(srs), "te": rng.choice(tes)}),
               "adjust": rng.random() < 0.7, "opts": _kwv(rng, rng.choice(LABEL_OPTS)), "extras": _extra(rng)}


def gen_import_bbox(rng, n, tes):
    for _ in range(n):
        fmax = rng.choice([64, 64, 1 << 20, MAXF])
        yield {"bbox": gen_bbox(rng, fmax=fmax, f32=tes is POW2_TE), "rec": _recv(rng, {"samplerate": rng.choice(POW2_SR + INT_SR), "te": rng.choice(tes)}),
               "adjust": rng.random() < 0.7, "opts": _kwv(rng, rng.choice(LABEL_OPTS)), "extras": _extra(rng)}


TAGS_OPTS = [None, None, {"value_only": True}, {"value_only": False}, {"select_by_key": "k1"}, {"select_by_key": "k1", "value_only": True},
             {"select_by_key": "zz", "empty_label": "NA"}, {"index": 0}, {"index": -1, "value_only": True}, {"index": 5},
             {"separator": "|"}, {"label_mapping": [[TAG_A, "mapped"]]},
             {"label_fn": _fn([[TAG_B, {"raise": "key"}]], {"ret": "F"})},
             {"label_fn": _fn([[TAG_B, {"raise": "invalid"}]], {"ret": "F"})},
             {"seq_label_fn": _fn([[[TAG_A], {"raise": "invalid"}]], {"ret": "S"})},
             {"seq_label_fn": _fn([[[TAG_A], {"raise": "type"}]], {"ret": "S"})}]


def gen_ann(rng, ty=None, none_p=0.08, fmax=8):
    if ty is None and rng.random() < none_p:
        g = None
    else:
        g = gen_geom.gen_geometry(rng, ty, tmax=8, fmax=fmax, k=rng.choice([2, 3]))
    a = {"geometry": g, "tags": rng.choice(TAG_LISTS + [[TAG_A], [TAG_B]])}
    b = rng.choice(ANN_BUILDS)
    if b:
        a["build"] = b
    return a


EXPORT_SR = ["1", "2", "4", "7", "8", "10", "16", "100", "8000", "44100"]


def gen_export_segment(rng, reps, defaults):
    for ty in gen_geom.TYPES + [None]:
        for cast in (True, False):
            for _ in range(reps):
                yield {"ann": gen_ann(rng, ty, none_p=1.0 if ty is None else 0), "sr": rng.choice(EXPORT_SR), "cast": cast,
                       "opts": rng.choice(TAGS_OPTS), "default_cast": False}
    for ty in gen_geom.TYPES:
        yield {"ann": gen_ann(rng, ty), "sr": "8", "cast": defaults["seg_cast"], "opts": None, "default_cast": True}


def gen_export_bbox(rng, reps, defaults):
    for ty in gen_geom.TYPES + [None]:
        for cast, rt in itertools.product((True, False), repeat=2):
            for _ in range(reps):
                yield {"ann": gen_ann(rng, ty, none_p=1.0 if ty is None else 0), "sr": rng.choice(EXPORT_SR), "cast": cast,
                       "raise_time": rt, "opts": rng.choice(TAGS_OPTS)}
    for ty in gen_geom.TYPES:
        yield {"ann": gen_ann(rng, ty), "sr": "8", "cast": defaults["box_cast"], "raise_time": defaults["box_raise_time"],
               "opts": None, "default_switches": True}
    # the Nyquist boundary, exhaustively on a small grid: high frequency below / at / above samplerate / 2
    for sr in ("4", "6", "8", "7"):
        for lo, hi in itertools.combinations([Fraction(i, 2) for i in range(0, 10)], 2):
            yield {"ann": {"geometry": {"type": "BoundingBox", "coordinates": ["1", rat(lo), "2", rat(hi)]}, "tags": [TAG_A]},
                   "sr": sr, "cast": True, "raise_time": True, "opts": {"value_only": True}}


def gen_export_sequence(rng, n, defaults):
    for _ in range(n):
        anns = [gen_ann(rng, rng.choice(["TimeInterval", "TimeInterval", None]), none_p=0.1) for _ in range(rng.randint(0, 5))]
        d = rng.random() < 0.1
        if anns and rng.random() < 0.15:
            anns.insert(rng.randrange(len(anns) + 1), rng.choice(anns))      # the same annotation listed twice
        if len(anns) >= 2 and rng.random() < 0.15:                            # revised content under one uuid
            u = "00000000-0000-4000-8000-%012d" % rng.randrange(10 ** 6)
            i, j = rng.sample(range(len(anns)), 2)
            anns[i], anns[j] = {**anns[i], "uuid": u}, {**anns[j], "uuid": u}
        yield {"anns": anns, "sr": rng.choice(EXPORT_SR), "cast": defaults["seq_cast"] if d else rng.random() < 0.5,
               "ignore": defaults["seq_ignore"] if d else rng.random() < 0.5, "opts": _kwv(rng, rng.choice(TAGS_OPTS)), "default_switches": d,
               "share": rng.random() < 0.5, "as_tuple": rng.random() < 0.3}


def gen_export_annotation(rng, n, defaults):
    for _ in range(n):
        fmt = rng.choice(["bbox", "bbox", "seq", "seq", "foo"])
        pool = ["BoundingBox", "BoundingBox", None] if fmt == "bbox" else ["TimeInterval", "TimeInterval", None]
        anns = [gen_ann(rng, rng.choice(pool), none_p=0.1) for _ in range(rng.randint(0, 5))]
        d = rng.random() < 0.15
        if anns and rng.random() < 0.15:
            anns.insert(rng.randrange(len(anns) + 1), rng.choice(anns))
        yield {"anns": anns, "fmt": fmt, "rec": _recv(rng, {"samplerate": rng.choice(EXPORT_SR), "te": rng.choice(["1", "2"]), "path": "rec.wav"}, 0.3),
               "ignore": defaults["ann_ignore"] if d else rng.random() < 0.5, "cast": defaults["ann_cast"] if d else rng.random() < 0.5,
               "raise_time": defaults["box_raise_time"] if d else rng.random() < 0.5, "opts": _kwv(rng, rng.choice(TAGS_OPTS)),
               "default_switches": d, "share": rng.random() < 0.5, "clip_build": rng.choice([None, None, None, "copy", "aoef"])}


def gen_crow(rng, kind=None, seconds=None, fmax=64):
    kind = kind or rng.choice(["bboxes", "seq", "seq", "bboxes", "stub"])
    path = rng.choice(["rec.wav", "rec.wav", "rec.wav", "other.wav", None])
    if kind == "bboxes":
        boxes = [gen_bbox(rng, fmax=fmax) for _ in range(rng.randint(0, 4))]
        if boxes and rng.random() < 0.15:
            boxes.insert(rng.randrange(len(boxes) + 1), rng.choice(boxes))     # the same box twice
        return {"notated_path": path, "bboxes": boxes, "seqs": [], "share": rng.random() < 0.5}
    if kind == "seq":
        return {"notated_path": path, "bboxes": [],
                "seqs": [gen_segments(rng, 4, mode=seconds)], "seq_build": rng.choice(SEQ_BUILDS)}
    return {"notated_path": path, "bboxes": [gen_bbox(rng) for _ in range(rng.randint(0, 2))],
            "seqs": [[gen_segment(rng, valid=1.0, seconds="both") for _ in range(rng.randint(0, 3))]
                     for _ in range(rng.randint(0, 3))], "stub": True, "as_list": rng.random() < 0.5,
            "stub_kind": rng.choice(STUB_KINDS)}


def _seq_case(rng):
    segs = gen_segments(rng, 6, valid=0.97)
    c = {"segments": segs, "rec": _recv(rng, {"samplerate": rng.choice(POW2_SR), "te": rng.choice(POW2_TE)}), "adjust": rng.random() < 0.7,
         "opts": _kwv(rng, rng.choice(LABEL_OPTS))}
    r = rng.random()
    if r < 0.2 and segs:
        segs.insert(rng.randrange(len(segs) + 1), rng.choice(segs))     # the same segment object twice
        c["share"] = True
    elif r < 0.5:
        c["seq_build"] = rng.choice(SEQ_BUILDS)
    return c


def gen_import_annotation(rng, n):
    for _ in range(n):
        yield {"crow": gen_crow(rng), "rec": _recv(rng, {"samplerate": rng.choice(POW2_SR), "te": rng.choice(POW2_TE), "path": "rec.wav"}),
               "adjust": rng.random() < 0.7, "opts": _kwv(rng, rng.choice(LABEL_OPTS)), "extras": _extra(rng)}


def gen_import_annotation_load(rng, n):
    """`recording=None`: a real WAV file at the notated path; the expansion factor travels in `recording_kwargs`"""
    for _ in range(n):
        crow = gen_crow(rng, rng.choice(["bboxes", "seq"]))
        crow["notated_path"] = WAV if rng.random() < 0.9 else None
        yield {"crow": crow, "file_sr": rng.choice(["8", "256", "8192"]), "te": rng.choice([None, "1", "2", "4", "1/2"]),
               "adjust": rng.random() < 0.7, "opts": rng.choice(LABEL_OPTS), "extras": _extra(rng)}


RT_IMPORT = [None, None, {"key": "species"}, {"term": TERM_X}, {"fallback": "fb"}, {"term_mapping": [["a", TERM_Y]]},
             {"key_mapping": [["a", "kk"]]}, {"empty_labels": ["NA"]}]
RT_EXPORT = [{"value_only": True}, {"value_only": True}, {"value_only": True, "index": 0}, {"value_only": True, "index": -3},
             {"value_only": True, "separator": "|"}]


def _rt_opts(rng):
    io = rng.choice(RT_IMPORT)
    eo = dict(rng.choice(RT_EXPORT))
    if io and io.get("empty_labels"):
        eo["empty_label"] = io["empty_labels"][0]
    # a small share outside the theorem's domain (compared with the model, not monitored)
    if rng.random() < 0.12:
        eo = rng.choice([{"value_only": False}, {}, {"select_by_key": "crowsetta"}, {"select_by_key": "crowsetta", "value_only": True}])
    elif rng.random() < 0.12 and not (io and (io.get("term_mapping") or io.get("key_mapping"))):
        k = (io or {}).get("term", {}).get("label") or (io or {}).get("key") or (io or {}).get("fallback") or "crowsetta"
        eo = {"select_by_key": k, **rng.choice([{}, {"value_only": False}, {"index": 1}]), **{x: y for x, y in eo.items() if x == "empty_label"}}
    if rng.random() < 0.05:
        io = rng.choice(LABEL_OPTS)
    return io, eo


def _rt_rec(rng, srs=None):
    te = "1" if rng.random() < 0.75 else rng.choice(POW2_TE)
    return {"samplerate": rng.choice(srs or POW2_SR), "te": te, "path": "rec.wav"}, (te == "1" and rng.random() < 0.5) or rng.random() < 0.3


def gen_rt_segment(rng, n):
    for _ in range(n):
        io, eo = _rt_opts(rng)
        rec, adjust = _rt_rec(rng)
        if frac(rec["te"]) != 1:
            adjust = rng.random() < 0.3
        yield {"segment": gen_segment(rng, valid=0.95), "rec": rec, "adjust": adjust, "cast": rng.random() < 0.7,
               "opts": io, "export_opts": eo}


def _free_float(rng, hi):
    return rng.choice([rng.uniform(0, hi), round(rng.uniform(0, hi), 2), round(rng.uniform(0, hi), 1), rng.random() * 1e-3])


def gen_rt_segment_free(rng, n):
    for _ in range(n):
        a, b = sorted([_free_float(rng, 300), _free_float(rng, 300)])
        io, eo = _rt_opts(rng)
        yield {"segment": {"label": rng.choice(LABELS), "onset_s": rat(a), "offset_s": rat(b), "onset_sample": None,
                           "offset_sample": None},
               "rec": {"samplerate": rng.choice(INT_SR + POW2_SR), "te": "1", "path": "rec.wav"}, "adjust": rng.random() < 0.5,
               "cast": True, "opts": io, "export_opts": eo, "free": True}


def gen_rt_bbox(rng, n):
    for _ in range(n):
        io, eo = _rt_opts(rng)
        free = rng.random() < 0.4
        if free:
            a, b = sorted([_free_float(rng, 300), _free_float(rng, 300)])
            lo, hi = sorted([_free_float(rng, 20000), _free_float(rng, 20000)])
            if a == b or lo == hi:
                continue
            box = {"onset": rat(a), "offset": rat(b), "low_freq": rat(lo), "high_freq": rat(hi), "label": rng.choice(LABELS)}
            rec = {"samplerate": rng.choice(["8000", "44100", "48000", "22050"]), "te": "1", "path": "rec.wav"}
            adjust = rng.random() < 0.5
        else:
            box = gen_bbox(rng, fmax=rng.choice([4, 64, 64, 5000]))
            rec, adjust = _rt_rec(rng, POW2_SR + INT_SR)
            if frac(rec["te"]) != 1:
                adjust = rng.random() < 0.3
        yield {"bbox": box, "rec": rec, "adjust": adjust, "cast": rng.random() < 0.8, "raise_time": rng.random() < 0.8,
               "opts": io, "export_opts": eo}


def gen_rt_sequence(rng, n, free=False):
    for _ in range(n):
        io, eo = _rt_opts(rng)
        if free:
            segs = [s["segment"] for s in gen_rt_segment_free(rng, rng.randint(0, 5))]
            rec, adjust = {"samplerate": rng.choice(INT_SR), "te": "1", "path": "rec.wav"}, rng.random() < 0.5
        else:
            segs = gen_segments(rng, 5, valid=0.98)
            rec, adjust = _rt_rec(rng)
            if frac(rec["te"]) != 1:
                adjust = rng.random() < 0.3
        inp = {"segments": segs, "rec": rec, "adjust": adjust, "cast": rng.random() < 0.7, "ignore": rng.random() < 0.5,
               "opts": io, "export_opts": eo}
        if free:
            inp["free"] = True
        yield inp


def gen_rt_annotation(rng, n):
    for _ in range(n):
        io, eo = _rt_opts(rng)
        kind = rng.choice(["bboxes", "seq"])
        crow = gen_crow(rng, kind, fmax=rng.choice([4, 64]))
        if rng.random() < 0.85:
            crow["notated_path"] = "rec.wav"
        rec, adjust = _rt_rec(rng)
        if frac(rec["te"]) != 1:
            adjust = rng.random() < 0.3
        fmt = "bbox" if kind == "bboxes" else "seq"
        if rng.random() < 0.08:
            fmt = rng.choice(["bbox", "seq", "foo"])
        yield {"crow": crow, "rec": rec, "adjust": adjust, "fmt": fmt, "ignore": rng.random() < 0.6, "cast": rng.random() < 0.7,
               "raise_time": rng.random() < 0.7, "opts": io, "export_opts": eo}


# ====================================================================== histories, positional calls (harness/c10_hist.py)
OWN_OPTS = [None, None, {"key": "species"}, {"term": TERM_X}, {"fallback": "fb"}, {"term_mapping": [["a", TERM_Y]]},
            {"key_mapping": [["a", "kk"]], "key": "explicit"}, {"empty_labels": ["b", "NA"]}]
H_LABELS = ["a", "a", "b", "__empty__", "1"]
_SINGLE = ("label_to_tags", "segment", "bbox")


def gen_tag_histories(rng, n):
    for _ in range(n):
        evs, sizes, used = [], [], []
        for _ in range(rng.randint(3, 8)):
            if sizes and rng.random() < 0.45:
                k = rng.randrange(len(sizes))
                a = rng.randrange(sizes[k] + 1) if rng.random() < 0.15 else rng.randrange(max(1, sizes[k]))
                evs.append({"edit": [k, a, rng.choice(["corrected", "a", "b", "", "a~"])]})
                continue
            kind = rng.choice(c10_hist.KINDS)
            labels = [rng.choice(H_LABELS) for _ in range(1 if kind in _SINGLE else rng.randint(0, 4))]
            opts = rng.choice(used) if used and rng.random() < 0.6 else rng.choice(OWN_OPTS)
            used.append(opts)
            evs.append({"call": {"kind": kind, "opts": opts, "labels": labels}})
            empties = (opts or {}).get("empty_labels") or ["__empty__"]
            sizes.append(sum(1 for x in labels if x not in empties))
        yield {"events": evs}


def enum_tag_histories():
    """import a label, the caller corrects the returned tag in place, import the label again - for every ordered
    pair of converters and every option record of the default tag construction"""
    for k1, k2 in itertools.product(c10_hist.KINDS, repeat=2):
        for o in OWN_OPTS[1:]:
            l1 = ["a"] if k1 in _SINGLE else ["a", "b", "a"]
            l2 = ["a"] if k2 in _SINGLE else ["b", "a"]
            yield {"events": [{"call": {"kind": k1, "opts": o, "labels": l1}}, {"edit": [0, 0, "a-corrected"]},
                              {"call": {"kind": k2, "opts": o, "labels": l2}}, {"edit": [1, len(l2) - 1, "again"]},
                              {"call": {"kind": k1, "opts": o, "labels": l1}}]}


def _hist_cases(rng, defaults):
    cases = []

    def add(op, inputs, n):
        inputs = list(inputs)
        for i in (rng.sample(inputs, n) if len(inputs) > n else inputs):
            i = dict(i)
            i.pop("extras", None)
            cases.append({"op": op, "inp": i})
    add("label_to_tags", enum_label_to_tags(False), 50)
    add("label_to_tags", enum_label_to_tags_falsy(), 10)
    add("label_from_tags", enum_label_from_tags(False), 40)
    add("label_from_tag", enum_label_from_tag(), 12)
    add("import_segment", gen_import_segment(rng, 40, POW2_TE, POW2_SR), 40)
    add("import_bbox", gen_import_bbox(rng, 40, POW2_TE), 40)
    add("import_sequence", ({"segments": gen_segments(rng, 4, valid=0.97), "rec": {"samplerate": rng.choice(POW2_SR), "te": rng.choice(POW2_TE)},
                             "adjust": rng.random() < 0.7, "opts": rng.choice(LABEL_OPTS)} for _ in range(30)), 30)
    add("import_annotation", gen_import_annotation(rng, 30), 30)
    add("export_segment", gen_export_segment(rng, 2, defaults), 30)
    add("export_bbox", itertools.islice(gen_export_bbox(rng, 1, defaults), 49), 30)
    add("export_sequence", gen_export_sequence(rng, 30, defaults), 30)
    add("export_annotation", gen_export_annotation(rng, 30, defaults), 30)
    return cases


def _hist_variants(x, rng, defaults=None):
    """neighbours of a step: the same element / annotation / tags with other options, another recording, a flipped
    switch, the plain call with every switch omitted; the same options with another element; the same label through
    a sibling converter"""
    op, b = x["op"], x["inp"]
    out = []
    d = defaults or {}

    def v(op_=None, **ch):
        nb = {k: w for k, w in b.items()}
        nb.update(ch)
        out.append({"op": op_ or op, "inp": nb})
    if op == "label_to_tags":
        for o in rng.sample(LABEL_OPTS, 3):
            v(opts=o)
        v(opts=None)
        v(label=rng.choice(LABELS))
    elif op == "label_from_tag":
        v(opts={"label_fn": None, "label_mapping": None, "value_only": rng.choice([None, True, False])})
        v(tag=rng.choice([TAG_A, TAG_B, TAG_C, TAG_D]))
        v(separator=rng.choice([None, "=", ""]))
    elif op == "label_from_tags":
        for o in rng.sample(TAGS_OPTS, 3):
            v(opts=o)
        v(tags=rng.choice(TAG_LISTS))
        v(tags=list(reversed(b["tags"])))
    elif op.startswith("import_"):
        for o in rng.sample(LABEL_OPTS, 2):
            v(opts=o)
        v(opts=None)
        v(adjust=not b["adjust"])
        v(rec={**b["rec"], "te": rng.choice(POW2_TE)})
        v(rec={**b["rec"], "samplerate": rng.choice(POW2_SR)})
        if op == "import_segment":
            v(segment={**b["segment"], "label": rng.choice(LABELS)})
            v(segment={**gen_segment(rng), "label": b["segment"]["label"]})
            out.append({"op": "label_to_tags", "inp": {"label": b["segment"]["label"], "opts": b.get("opts")}})
            out.append({"op": "import_bbox", "inp": {"bbox": {**gen_bbox(rng), "label": b["segment"]["label"]}, "rec": b["rec"],
                                                     "adjust": b["adjust"], "opts": b.get("opts")}})
        elif op == "import_bbox":
            v(bbox={**b["bbox"], "label": rng.choice(LABELS)})
            v(bbox={**gen_bbox(rng), "label": b["bbox"]["label"]})
            out.append({"op": "label_to_tags", "inp": {"label": b["bbox"]["label"], "opts": b.get("opts")}})
            out.append({"op": "import_segment", "inp": {"segment": {**gen_segment(rng, seconds="both"), "label": b["bbox"]["label"]},
                                                        "rec": b["rec"], "adjust": b["adjust"], "opts": b.get("opts")}})
        elif op == "import_sequence":
            v(segments=list(reversed(b["segments"])))
            v(segments=b["segments"][:-1])
            v(segments=[{**s_, "label": rng.choice(LABELS)} for s_ in b["segments"]])
        elif op == "import_annotation":
            c = b["crow"]
            v(crow={**c, "bboxes": list(reversed(c["bboxes"])), "seqs": [list(reversed(q)) for q in c["seqs"]]})
            v(crow={**c, "bboxes": c["bboxes"][:-1], "seqs": [q[:-1] for q in c["seqs"]]})
    elif op.startswith("export_"):
        for o in rng.sample(TAGS_OPTS, 2):
            v(opts=o)
        v(opts=None)
        if op in ("export_segment", "export_bbox"):
            v(sr=rng.choice(EXPORT_SR))
            v(cast=not b["cast"], default_cast=False, default_switches=False)
            if op == "export_bbox":
                v(raise_time=not b["raise_time"], default_switches=False)
                if d:
                    v(cast=d["box_cast"], raise_time=d["box_raise_time"], default_switches=True)
            elif d:
                v(cast=d["seg_cast"], default_cast=True)
            v(ann={**b["ann"], "tags": rng.choice(TAG_LISTS)})
            v(ann={**gen_ann(rng, None, none_p=0.1), "tags": b["ann"]["tags"]})
            if b["ann"]["geometry"] is not None:
                v(ann={**gen_ann(rng, b["ann"]["geometry"]["type"]), "tags": b["ann"]["tags"]})
        elif op == "export_sequence":
            v(sr=rng.choice(EXPORT_SR))
            v(cast=not b["cast"], default_switches=False)
            v(ignore=not b["ignore"], default_switches=False)
            if d:
                v(cast=d["seq_cast"], ignore=d["seq_ignore"], default_switches=True)
            v(anns=list(reversed(b["anns"])))
            v(anns=b["anns"] + [gen_ann(rng, rng.choice(["TimeInterval", "LineString", None]), none_p=0.2)])
            v(anns=[{**a, "tags": rng.choice(TAG_LISTS)} for a in b["anns"]])
        elif op == "export_annotation":
            v(fmt=rng.choice(["bbox", "seq"]))
            v(ignore=not b["ignore"], default_switches=False)
            v(cast=not b["cast"], default_switches=False)
            v(raise_time=not b["raise_time"], default_switches=False)
            if d:
                v(ignore=d["ann_ignore"], cast=d["ann_cast"], raise_time=d["box_raise_time"], default_switches=True)
                v(ignore=d["ann_ignore"], cast=d["ann_cast"], raise_time=d["box_raise_time"], default_switches=True, fmt="bbox",
                  anns=b["anns"] + [{"geometry": {"type": "TimeInterval", "coordinates": ["1", "2"]}, "tags": [TAG_A]}])
            v(rec={**b["rec"], "samplerate": rng.choice(EXPORT_SR)})
            v(anns=list(reversed(b["anns"])))
            v(anns=b["anns"] + [gen_ann(rng, rng.choice(["BoundingBox", "TimeInterval", "Point", None]), none_p=0.2)])
    return out


def _stage_histories(ctx, defaults):
    from .. import history
    rng = ctx.rng
    cases = _hist_cases(rng, defaults)
    hs = history.sequences(rng, cases, ctx.budget(420, 3000), variants=lambda x, r: _hist_variants(x, r, defaults),
                           reuse_hows=c10_hist.REUSE, poison=True)
    for h in hs:
        for st in h["seq"]:
            ctx.tally("history:" + st["inp"]["op"].split("_")[0] + ":" + (st.get("reuse") or "fresh") + ("+poison" if st.get("poison") else ""))
    c10_hist.keep_self_contained(ctx, OPS["history"], ctx.run_cases(OPS["history"], hs))
    c = _count(ctx, "enum:tag_history", enum_tag_histories())
    fails = ctx.run_cases(OPS["tag_history"], c)
    ctx.exhaustive["tag histories"] = (f"{len(c)} histories: import a label, correct the returned tag in place, import the label again, "
                                       "for every ordered pair of the six import routes x every option record of the default tag construction")
    fails += ctx.run_cases(OPS["tag_history"], _count(ctx, "tag_history:random", gen_tag_histories(rng, ctx.budget(300, 2500))))
    c10_hist.keep_self_contained(ctx, OPS["tag_history"], fails)
    c10_hist.fresh_modules()          # nothing the last history left behind reaches the stages that follow


def gen_positional(rng, defaults, sigs, reps):
    """every public converter x every split between positional and keyword passing x a few cases each"""
    pools = {
        "label_to_tags": lambda: rng.choice([{"label": rng.choice(LABELS), "opts": o} for o in LABEL_OPTS]),
        "label_from_tag": lambda: rng.choice(list(enum_label_from_tag())),
        "label_from_tags": lambda: {"tags": rng.choice(TAG_LISTS), "opts": rng.choice(TAGS_OPTS)},
        "segment_to_annotation": lambda: next(gen_import_segment(rng, 1, POW2_TE, POW2_SR)),
        "bbox_to_annotation": lambda: next(gen_import_bbox(rng, 1, POW2_TE)),
        "sequence_to_annotations": lambda: {"segments": gen_segments(rng, 4, valid=0.97), "rec": {"samplerate": rng.choice(POW2_SR), "te": rng.choice(POW2_TE)},
                                            "adjust": rng.random() < 0.6, "opts": rng.choice(LABEL_OPTS)},
        "annotation_to_clip_annotation": lambda: next(gen_import_annotation(rng, 1)),
        "segment_from_annotation": lambda: {"ann": gen_ann(rng, None, none_p=0.05), "sr": rng.choice(EXPORT_SR), "cast": rng.choice([True, False, None]),
                                            "opts": rng.choice(TAGS_OPTS)},
        "bbox_from_annotation": lambda: {"ann": gen_ann(rng, None, none_p=0.05), "sr": rng.choice(EXPORT_SR), "cast": rng.random() < 0.5,
                                         "raise_time": rng.random() < 0.5, "opts": rng.choice(TAGS_OPTS)},
        "sequence_from_annotations": lambda: {**next(gen_export_sequence(rng, 1, defaults)), "default_switches": False},
        "annotation_from_clip_annotation": lambda: {**next(gen_export_annotation(rng, 1, defaults)), "default_switches": False},
    }
    for fn, order in sigs.items():
        fill = c10_hist.fill_values(fn, defaults)
        for k in range(len(order) + 1):
            for _ in range(reps):
                base = dict(pools[fn]())
                base.pop("extras", None)
                if fn == "segment_from_annotation" and base["cast"] is None:
                    base["default_cast"] = True
                    base["cast"] = defaults["seg_cast"]
                yield {"fn": fn, "k": k, "order": order, "fill": fill, "base": base,
                       "pass_fill": rng.random() < 0.3, "kw_order": rng.choice(["given", "reversed"])}


def _stage_positional(ctx, defaults):
    sigs = {e["fn"]: e["params"] for e in ctx.model("signatures", {})}
    c = _count(ctx, "positional:every split", gen_positional(ctx.rng, defaults, sigs, ctx.budget(4, 20)))
    ctx.run_cases(OPS["positional"], c)
    ctx.exhaustive["positional calls"] = ("every public converter x every number of leading positional arguments (0 .. all parameters of the "
                                          "Lean table `signatures`), the other arguments by keyword (in the given or the reversed order)")


# ====================================================================== option x input-class products (HISTORIES.md section 3)
ELEMENT_CLASSES = list(gen_geom.TYPES) + ["none", "flat_line", "vertical_line", "zero_width_box", "zero_height_box", "zero_interval",
                                          "single_multipoint"]
_DEGENERATE = {
    "flat_line": {"type": "LineString", "coordinates": [["1", "2"], ["3", "2"]]},           # low == high: crowsetta refuses the box
    "vertical_line": {"type": "LineString", "coordinates": [["1", "2"], ["1", "3"]]},       # onset == offset
    "zero_width_box": {"type": "BoundingBox", "coordinates": ["1", "2", "1", "3"]},
    "zero_height_box": {"type": "BoundingBox", "coordinates": ["1", "2", "3", "2"]},
    "zero_interval": {"type": "TimeInterval", "coordinates": ["3/2", "3/2"]},
    "single_multipoint": {"type": "MultiPoint", "coordinates": [["1", "2"]]},
}


def _class_ann(rng, cls, tags=None):
    if cls in gen_geom.TYPES:
        a = gen_ann(rng, cls)
    elif cls == "none":
        a = {"geometry": None, "tags": rng.choice(TAG_LISTS)}
    else:
        a = {"geometry": _DEGENERATE[cls], "tags": rng.choice(TAG_LISTS)}
    if tags is not None:
        a = {**a, "tags": tags}
    return a


def enum_export_products(rng, defaults):
    """every exporter x every switch combination x every class of sound event (the nine geometry types, no geometry,
    geometries whose bounds crowsetta refuses), alone and between two convertible events"""
    ok_box = {"geometry": {"type": "BoundingBox", "coordinates": ["1/2", "1", "3/2", "2"]}, "tags": [TAG_A]}
    ok_int = {"geometry": {"type": "TimeInterval", "coordinates": ["1/2", "3/2"]}, "tags": [TAG_B]}
    for cls in ELEMENT_CLASSES:
        for cast, rt in itertools.product((True, False), repeat=2):
            yield "export_bbox", {"ann": _class_ann(rng, cls), "sr": rng.choice(EXPORT_SR), "cast": cast, "raise_time": rt, "opts": rng.choice(TAGS_OPTS)}
        for cast in (True, False):
            yield "export_segment", {"ann": _class_ann(rng, cls), "sr": rng.choice(EXPORT_SR), "cast": cast, "opts": rng.choice(TAGS_OPTS),
                                     "default_cast": False}
        for cast, ignore, around in itertools.product((True, False), (True, False), (False, True)):
            x = _class_ann(rng, cls)
            yield "export_sequence", {"anns": [ok_int, x, ok_box, ok_int] if around else [x], "sr": rng.choice(EXPORT_SR), "cast": cast,
                                      "ignore": ignore, "opts": rng.choice(TAGS_OPTS), "default_switches": False}
        for fmt, cast, ignore, rt, around in itertools.product(("bbox", "seq", "foo"), (True, False), (True, False), (True, False), (False, True)):
            x = _class_ann(rng, cls)
            yield "export_annotation", {"anns": [ok_box, x, ok_int, ok_box] if around else [x], "fmt": fmt,
                                        "rec": {"samplerate": rng.choice(EXPORT_SR), "te": rng.choice(["1", "2"]), "path": "rec.wav"},
                                        "ignore": ignore, "cast": cast, "raise_time": rt, "opts": rng.choice(TAGS_OPTS), "default_switches": False}
        # the defaults of every exporter on every class (switches omitted)
        yield "export_sequence", {"anns": [ok_int, _class_ann(rng, cls)], "sr": "8", "cast": defaults["seq_cast"], "ignore": defaults["seq_ignore"],
                                  "opts": None, "default_switches": True}
        for fmt in ("bbox", "seq"):
            yield "export_annotation", {"anns": [ok_box, _class_ann(rng, cls), ok_int], "fmt": fmt, "rec": {"samplerate": "8", "te": "1", "path": "rec.wav"},
                                        "ignore": defaults["ann_ignore"], "cast": defaults["ann_cast"], "raise_time": defaults["box_raise_time"],
                                        "opts": None, "default_switches": True}
    # label options x tag lists x every exporter
    g_box = {"type": "BoundingBox", "coordinates": ["1/2", "1", "3/2", "2"]}
    g_int = {"type": "TimeInterval", "coordinates": ["1/2", "3/2"]}
    for o, tags in itertools.product(TAGS_OPTS[1:], TAG_LISTS + [[TAG_A], [TAG_B]]):
        yield "export_segment", {"ann": {"geometry": g_int, "tags": tags}, "sr": "8", "cast": True, "opts": o, "default_cast": False}
        yield "export_bbox", {"ann": {"geometry": g_box, "tags": tags}, "sr": "8", "cast": True, "raise_time": True, "opts": o}
        yield "export_sequence", {"anns": [{"geometry": g_int, "tags": tags}, {"geometry": g_int, "tags": [TAG_B]}], "sr": "8", "cast": True,
                                  "ignore": rng.random() < 0.5, "opts": o, "default_switches": False}
        fmt = rng.choice(["bbox", "seq"])
        yield "export_annotation", {"anns": [{"geometry": g_box if fmt == "bbox" else g_int, "tags": tags}], "fmt": fmt,
                                    "rec": {"samplerate": "8", "te": "1", "path": "rec.wav"}, "ignore": rng.random() < 0.5, "cast": True,
                                    "raise_time": True, "opts": o, "default_switches": False}


PRESENCE = list(itertools.product((True, False), repeat=4))


def enum_import_products(rng):
    """every importer x every label option record x every label; every presence pattern of the four time fields x
    adjust x expansion factor; annotation level: boxes / one sequence / both / a list of sequences x path x adjust"""
    rec0 = {"samplerate": "8", "te": "2", "path": "rec.wav"}
    seg0 = {"onset_s": "1/2", "offset_s": "3/2", "onset_sample": 4, "offset_sample": 12}
    box0 = {"onset": "1/2", "offset": "3/2", "low_freq": "1", "high_freq": "2"}
    for o, lab in itertools.product(LABEL_OPTS[1:], LABELS):
        ex = _extra(rng)
        adj = rng.random() < 0.6
        yield "import_segment", {"segment": {**seg0, "label": lab}, "rec": rec0, "adjust": adj, "opts": o, "extras": ex}
        yield "import_bbox", {"bbox": {**box0, "label": lab}, "rec": rec0, "adjust": adj, "opts": o, "extras": ex}
        yield "import_sequence", {"segments": [{**seg0, "label": lab}, {**seg0, "label": "b"}, {**seg0, "label": lab}], "rec": rec0, "adjust": adj, "opts": o}
        yield "import_annotation", {"crow": {"notated_path": "rec.wav", "bboxes": [{**box0, "label": lab}, {**box0, "label": "a"}], "seqs": []},
                                    "rec": rec0, "adjust": adj, "opts": o, "extras": ex}
        yield "import_annotation", {"crow": {"notated_path": "rec.wav", "bboxes": [], "seqs": [[{**seg0, "label": "a"}, {**seg0, "label": lab}]]},
                                    "rec": rec0, "adjust": adj, "opts": o, "extras": ex}
        yield "import_annotation_load", {"crow": {"notated_path": WAV, "bboxes": [{**box0, "label": lab}], "seqs": []}, "file_sr": "8",
                                         "te": rng.choice([None, "2"]), "adjust": adj, "opts": o, "extras": ex}
    for (po, pe, pn, pm), adjust, te, sr in itertools.product(PRESENCE, (True, False), ("1", "2", "1/2", "4"), ("8", "256")):
        seg = {"label": "a", "onset_s": "3/2" if po else None, "offset_s": "11/4" if pe else None,
               "onset_sample": 5 if pn else None, "offset_sample": 40 if pm else None}
        yield "import_segment", {"segment": seg, "rec": {"samplerate": sr, "te": te}, "adjust": adjust, "opts": None, "extras": None}
    shapes = [
        {"bboxes": [{**box0, "label": "a"}, {**box0, "onset": "1", "label": "b"}], "seqs": []},
        {"bboxes": [], "seqs": [[{**seg0, "label": "a"}, {**seg0, "onset_s": "1", "label": "b"}]]},
        {"bboxes": [], "seqs": []},
        {"bboxes": [{**box0, "label": "a"}], "seqs": [[{**seg0, "label": "b"}]], "stub": True},
        {"bboxes": [{**box0, "label": "a"}], "seqs": [[{**seg0, "label": "b"}], [], [{**seg0, "label": "a"}, {**seg0, "label": "k:v"}]], "stub": True, "as_list": True},
        {"bboxes": [], "seqs": [[{**seg0, "label": "b"}]], "stub": True, "as_list": True},
    ]
    for sh, path, adjust, te in itertools.product(shapes, ("rec.wav", "other.wav", None), (True, False), ("1", "2", "1/4")):
        kinds = STUB_KINDS if sh.get("stub") else [None]
        for kind in kinds:
            crow = {"notated_path": path, **sh}
            if kind:
                crow["stub_kind"] = kind
            yield "import_annotation", {"crow": crow, "rec": {"samplerate": "8", "te": te, "path": "rec.wav"}, "adjust": adjust,
                                        "opts": rng.choice(LABEL_OPTS), "extras": _extra(rng)}


def _run_grouped(ctx, pairs, tag):
    by = {}
    for op, inp in pairs:
        by.setdefault(op, []).append(inp)
    n = 0
    for op, inputs in by.items():
        ctx.run_cases(OPS[op], inputs)
        ctx.tally(f"{tag}:{op}", len(inputs))
        n += len(inputs)
    return n


def _stage_products(ctx, defaults):
    n = _run_grouped(ctx, enum_export_products(ctx.rng, defaults), "product")
    ctx.exhaustive["export switches x event classes"] = (
        f"{n} cases: every exporter x every combination of its switches (cast, raise_on_time_geometries, ignore_errors, annotation_fmt incl. an "
        "unknown one) x 16 classes of sound event (nine geometry types, no geometry, a flat / vertical line, a zero-width / zero-height box, a "
        "zero-length interval, a one-point MultiPoint), alone and between convertible events, plus the defaults; every export label option "
        "record x tag list x exporter")
    n = _run_grouped(ctx, enum_import_products(ctx.rng), "product")
    ctx.exhaustive["import options x importers"] = (
        f"{n} cases: every label option record x label x importer (segment, box, sequence, annotation with boxes / with a sequence, recording "
        "loaded from the notated path); 16 presence patterns of the time fields x adjust x expansion factor x samplerate; annotation shapes "
        "(boxes, one sequence, empty, boxes and a sequence, a list of sequences) x notated path (matching, other, none) x adjust x factor x "
        "stand-in kind")
    # the option containers: the cascades on other legitimate mappings / keyword orders
    cases = [{**c, "opts": {**c["opts"], "_kw": KW_KINDS[i % len(KW_KINDS)]}} for i, c in enumerate(enum_label_to_tags(False)) if i % 3 == 0]
    ctx.run_cases(OPS["label_to_tags"], _count(ctx, "enum:label_to_tags:containers", cases))
    cases = [{**c, "opts": {**c["opts"], "_kw": KW_KINDS[i % len(KW_KINDS)]}} for i, c in enumerate(enum_label_from_tags_falsy()) if i % 2 == 0]
    ctx.run_cases(OPS["label_from_tags"], _count(ctx, "enum:label_from_tags:containers", cases))


# ====================================================================== boundaries (HISTORIES.md section 4)
def _f(x):
    """the exact value of a binary64 number, as the protocol string"""
    return rat(float(x))


NEAR_ONE = [1 + 2.0 ** -k for k in (10, 20, 30, 40, 52)] + [1 - 2.0 ** -k for k in (10, 20, 30, 40, 53)] + \
           [1 + 1e-6, 1 - 1e-6, 1 + 1e-9, 1 - 1e-9, 1 + 1e-12, 1 - 1e-12]
MAGS_T = [2.0 ** -20, 0.75, 1000.5, 2.0 ** 20 + 0.5]
MAGS_F = [0.5, 1000.25, 4.0e6]


def enum_boundaries_import():
    """expansion factors at tolerance-sized distances from 1 (where the adjustment is switched on), small and large
    times / frequencies: one division or one multiplication of exact operands (round-once)"""
    for te, adjust in itertools.product(NEAR_ONE, (True, False)):
        for t in MAGS_T:
            seg = {"label": "a", "onset_s": _f(t), "offset_s": _f(t * 2), "onset_sample": None, "offset_sample": None}
            yield "import_segment_r1", {"segment": seg, "rec": {"samplerate": "44100", "te": _f(te)}, "adjust": adjust, "opts": None, "extras": None}
            for f in MAGS_F:
                box = {"onset": _f(t), "offset": _f(t * 2), "low_freq": _f(f), "high_freq": _f(f * 1.25), "label": "a"}
                yield "import_bbox_r1", {"bbox": box, "rec": {"samplerate": "44100", "te": _f(te)}, "adjust": adjust, "opts": None, "extras": None}
        seg = {"label": "a", "onset_s": None, "offset_s": None, "onset_sample": 44100, "offset_sample": 88201}
        yield "import_segment_tol", {"segment": seg, "rec": {"samplerate": "44100", "te": _f(te)}, "adjust": adjust, "opts": None, "extras": None}


def enum_boundaries_nyquist():
    """upper frequencies at tolerance-sized distances (relative 1e-6 .. 1e-12, one unit in the last place) on both
    sides of samplerate / 2, at small and large sample rates; lower frequencies at and above it (exact: no arithmetic
    but the halving of an integer)"""
    import math
    for sr in (7, 8, 44100, 96000, 1 << 20, 384000):
        nyq = sr / 2
        his = [nyq, math.nextafter(nyq, 0), math.nextafter(nyq, math.inf)]
        for rel in (1e-6, 1e-8, 1e-9, 1e-10, 1e-12):
            his += [nyq * (1 - rel), nyq * (1 + rel)]
        los = [0.0, nyq / 2, math.nextafter(nyq, 0), nyq, math.nextafter(nyq, math.inf)]
        for hi, lo in itertools.product(his, los):
            if lo > hi or hi > MAXF:
                continue
            for ty in ("BoundingBox", "LineString"):
                g = ({"type": ty, "coordinates": [_f(1), _f(lo), _f(2), _f(hi)]} if ty == "BoundingBox" else
                     {"type": ty, "coordinates": [[_f(1), _f(lo)], [_f(2), _f(hi)]]})
                yield "export_bbox", {"ann": {"geometry": g, "tags": [TAG_A]}, "sr": str(sr), "cast": True, "raise_time": True,
                                      "opts": {"value_only": True}}
        for cast_rt in ((True, False),):
            g = {"type": "TimeInterval", "coordinates": ["1", "2"]}
            yield "export_bbox", {"ann": {"geometry": g, "tags": [TAG_A]}, "sr": str(sr), "cast": cast_rt[0], "raise_time": cast_rt[1], "opts": None}


LATTICE = [(100, 100, 300), (3, 3, 200), (10, 10, 200), (44100, 44100, 400), (22050, 22050, 300), (48000, 1000, 300), (44100, 100, 300),
           (8000, 3, 100)]


def enum_lattice():
    """every point of a few non-dyadic time axes (step 1/den seconds) through import and export at a sample rate: the
    sample index is floor(float(time) * samplerate) of the float product (free-mode monitor), also far from zero"""
    for sr, den, n in LATTICE:
        for base in (0, 86400 * den):
            for k in range(0, n, 2):
                a, b = (base + k) / den, (base + k + 1) / den
                yield {"segment": {"label": "a", "onset_s": _f(a), "offset_s": _f(b), "onset_sample": None, "offset_sample": None},
                       "rec": {"samplerate": str(sr), "te": "1", "path": "rec.wav"}, "adjust": True, "cast": True, "opts": None,
                       "export_opts": {"value_only": True}, "free": True}


SIZES = [16, 17, 256, 257, 1024, 1025]


def enum_sizes(rng):
    """lists just below / at / above the sizes where an implementation could switch strategy (> 16, > 256, >= 1024)"""
    labels = ["a", "b", "__empty__", "k:v", "1"]
    for n in SIZES:
        segs = [{"label": labels[i % 5], "onset_s": rat(Fraction(i, 4)), "offset_s": rat(Fraction(i, 4) + Fraction(1, 8)),
                 "onset_sample": None, "offset_sample": None} for i in range(n)]
        boxes = [{"label": labels[(i + 1) % 5], "onset": rat(Fraction(i, 4)), "offset": rat(Fraction(i, 4) + Fraction(1, 8)),
                  "low_freq": rat(Fraction(i % 7, 2)), "high_freq": rat(Fraction(i % 7, 2) + 1)} for i in range(n)]
        rec = {"samplerate": "8", "te": "2", "path": "rec.wav"}
        o = rng.choice([None, {"key": "species"}, {"term_mapping": [["a", TERM_Y]]}])
        yield "import_sequence", {"segments": segs, "rec": rec, "adjust": True, "opts": o}
        yield "import_annotation", {"crow": {"notated_path": "rec.wav", "bboxes": boxes, "seqs": []}, "rec": rec, "adjust": True, "opts": o, "extras": None}
        yield "import_annotation", {"crow": {"notated_path": "rec.wav", "bboxes": [], "seqs": [segs]}, "rec": rec, "adjust": False, "opts": o, "extras": None}
        # export: convertible events with an unconvertible one at the first, a middle and the last position
        def ev(i):
            if i in (0, n // 2, n - 1):
                return {"geometry": None if i else {"type": "Point", "coordinates": ["1", "2"]}, "tags": [TAG_A]}
            return {"geometry": {"type": "TimeInterval", "coordinates": [rat(Fraction(i, 4)), rat(Fraction(i, 4) + Fraction(1, 8))]},
                    "tags": [ktag("k1", "v%d" % i)]}
        def bx(i):
            if i in (0, n // 2, n - 1):
                return {"geometry": {"type": "TimeStamp", "coordinates": "1"}, "tags": [TAG_A]}
            return {"geometry": {"type": "BoundingBox", "coordinates": [rat(Fraction(i, 4)), "1", rat(Fraction(i, 4) + Fraction(1, 8)), "3"]},
                    "tags": [ktag("k1", "v%d" % i)]}
        anns = [ev(i) for i in range(n)]
        for ignore in (True, False):
            yield "export_sequence", {"anns": anns, "sr": "8", "cast": False, "ignore": ignore, "opts": {"value_only": True}, "default_switches": False}
        yield "export_annotation", {"anns": [bx(i) for i in range(n)], "fmt": "bbox", "rec": {"samplerate": "8", "te": "1", "path": "rec.wav"},
                                    "ignore": True, "cast": True, "raise_time": True, "opts": {"value_only": True}, "default_switches": False}
        yield "export_annotation", {"anns": anns, "fmt": "seq", "rec": {"samplerate": "8", "te": "1", "path": "rec.wav"},
                                    "ignore": True, "cast": True, "raise_time": True, "opts": {"select_by_key": "k1"}, "default_switches": False}
        # many tags / many mapping entries / many empty labels
        tags = [ktag("k%d" % (i % 9), "v%d" % i) for i in range(n)]
        rep = [ktag("k%d" % (i % 3), "v%d" % (i % 7)) for i in range(n)]          # many repeated tags: order and multiplicity are pinned
        for o in ({}, {"index": n + 1}, {"index": -n - 1}, {"index": n - 1}, {"select_by_key": "k8"}, {"value_only": True, "separator": "|"}):
            yield "label_from_tags", {"tags": tags, "opts": o}
            yield "label_from_tags", {"tags": rep, "opts": o}
        big = [["l%d" % i, "key%d" % i] for i in range(n)]
        for lab in ("l0", "l%d" % (n - 1), "l%d" % n):
            yield "label_to_tags", {"label": lab, "opts": {"key_mapping": big, "key": "explicit"}}
            yield "label_to_tags", {"label": lab, "opts": {"empty_labels": [b[0] for b in big[1:]]}}
            yield "label_to_tags", {"label": lab, "opts": {"term_mapping": [[b[0], TERM_X if i % 2 else TERM_Y] for i, b in enumerate(big)],
                                                           "tag_mapping": [[b[0], {"single": TAG_A}] for b in big[n // 2:]]}}


def _stage_boundaries(ctx):
    n = _run_grouped(ctx, enum_boundaries_import(), "boundary")
    ctx.exhaustive["expansion factor near 1"] = (f"{n} cases: time_expansion = 1 +- 2^-k (k = 10 .. 53) and 1 +- 1e-6 / 1e-9 / 1e-12, adjust on and off, "
                                                 "times 2^-20 .. 2^20 s, frequencies 0.5 Hz .. 4 MHz (round-once), the sample path with tolerance")
    n = _run_grouped(ctx, enum_boundaries_nyquist(), "boundary")
    ctx.exhaustive["Nyquist boundary"] = (f"{n} cases: upper frequency = samplerate/2 x (1 +- 1e-6 .. 1e-12), +- one unit in the last place, lower "
                                          "frequency 0 .. just above it, sample rates 7 .. 2^20, boxes and lines (exact)")
    c = _count(ctx, "boundary:lattice", enum_lattice())
    ctx.run_cases(OPS["roundtrip_segment_free"], c)
    ctx.exhaustive["sample-index lattice"] = (f"{len(c)} round trips covering every point k/den of eight non-dyadic time axes (den = 100, 3, 10, 44100, "
                                              "22050, 1000), near zero and one day in: sample = floor(float(time) * samplerate)")
    n = _run_grouped(ctx, enum_sizes(ctx.rng), "size")
    ctx.exhaustive["size thresholds"] = (f"{n} cases: sequences / box lists / event lists / tag lists / mappings / empty-label lists of "
                                         f"{', '.join(map(str, SIZES))} entries (unconvertible events first, in the middle and last)")


# ====================================================================== run
def _count(ctx, key, cases):
    cases = list(cases)
    ctx.tally(key, len(cases))
    return cases


def _model_defaults(ctx):
    return ctx.model("defaults", {})


def _stage_cascades(ctx):
    full = True        # the whole abstracted option space in both tiers (about 80 000 combinations, 15 s)
    ctx.run_cases(OPS["term_key"], [{"key": k} for k in ["crowsetta", "", "a b", "species", "ü:1", "k1"]])
    c = _count(ctx, "enum:label_to_tags", enum_label_to_tags(full))
    ctx.run_cases(OPS["label_to_tags"], c)
    ctx.exhaustive["label_to_tags options"] = (f"{len(c)} combinations: label/empty_labels x tag_fn(absent, single, list, [], ValueError, KeyError) "
                                               "x tag_mapping(absent, miss, hit single, hit list) x term_mapping(absent, miss, hit) "
                                               "x key_mapping(absent, miss, hit) x key x term x fallback")
    c = _count(ctx, "enum:label_from_tag", enum_label_from_tag())
    ctx.run_cases(OPS["label_from_tag"], c)
    ctx.exhaustive["label_from_tag options"] = f"{len(c)} combinations: tag x label_fn x label_mapping x value_only x separator"
    c = _count(ctx, "enum:label_from_tags", enum_label_from_tags(full))
    ctx.run_cases(OPS["label_from_tags"], c)
    ctx.exhaustive["label_from_tags options"] = (f"{len(c)} combinations: tags(none, one, several) x seq_label_fn(absent, returns, ValueError, KeyError) "
                                                 "x select_by_key(absent, miss, hit, later hit) x index(absent, 0, 1, len, len+1, -1, -len-2, 7) "
                                                 "x label_fn x label_mapping x value_only(absent, True, False) x separator x empty_label"
                                                 + ("" if full else " (thinned in the quick tier)"))
    ctx.run_cases(OPS["label_from_tags"], [{"tags": t, "opts": o, "as_tuple": True} for t in TAG_LISTS for o in TAGS_OPTS])
    c = _count(ctx, "enum:label_to_tags:falsy", enum_label_to_tags_falsy())
    ctx.run_cases(OPS["label_to_tags"], c)
    ctx.exhaustive["label_to_tags falsy values"] = (f"{len(c)} combinations: label/empty_labels incl. '' and [] x tag_mapping(absent, {{}}, hit []) "
                                                    "x term_mapping(absent, {}) x key_mapping(absent, {}, miss, hit '') x key(absent, '', given) "
                                                    "x term x fallback(absent, '', given)")
    c = _count(ctx, "enum:label_from_tags:falsy", enum_label_from_tags_falsy())
    ctx.run_cases(OPS["label_from_tags"], c)
    ctx.exhaustive["label_from_tags falsy values"] = (f"{len(c)} combinations: tags with an empty key / empty value x select_by_key(absent, '', hit) "
                                                      "x index(absent, 0, -1) x label_mapping(absent, {}, hit '') x value_only x separator '' x empty_label ''")
    ctx.run_cases(OPS["label_from_tag"], [{"tag": t, "opts": {"label_mapping": mp, "value_only": vo}, "separator": sep}
                                          for t in (TAG_E, TAG_F) for mp in (None, [], [[t, ""]]) for vo in (None, True, False)
                                          for sep in (None, "")])


def _stage_import(ctx):
    rng = ctx.rng
    n = ctx.budget(3000, 20000)
    ctx.run_cases(OPS["import_segment"], _count(ctx, "import_segment:pow2", gen_import_segment(rng, n, POW2_TE, POW2_SR)))
    ctx.run_cases(OPS["import_segment_r1"], _count(ctx, "import_segment:seconds,decimal te",
                                                  gen_import_segment(rng, n // 2, DEC_TE + POW2_TE, INT_SR, seconds="seconds")))
    ctx.run_cases(OPS["import_segment_r1"], _count(ctx, "import_segment:samples,pow2 te,integer sr",
                                                  gen_import_segment(rng, n // 2, POW2_TE, INT_SR, seconds="samples")))
    ctx.run_cases(OPS["import_segment_tol"], _count(ctx, "import_segment:decimal te",
                                                   gen_import_segment(rng, n // 2, DEC_TE, INT_SR + POW2_SR)))
    ctx.run_cases(OPS["import_bbox"], _count(ctx, "import_bbox:pow2", gen_import_bbox(rng, n, POW2_TE)))
    ctx.run_cases(OPS["import_bbox_r1"], _count(ctx, "import_bbox:decimal te", gen_import_bbox(rng, n // 2, DEC_TE)))
    ctx.run_cases(OPS["import_sequence"], [
        _seq_case(rng) for _ in range(ctx.budget(800, 4000))])
    ctx.run_cases(OPS["import_annotation"], gen_import_annotation(rng, ctx.budget(800, 4000)))
    ctx.run_cases(OPS["import_annotation_load"], _count(ctx, "import_annotation:recording loaded from the notated path",
                                                       gen_import_annotation_load(rng, ctx.budget(300, 1500))))


def _stage_export(ctx, defaults):
    rng = ctx.rng
    reps = ctx.budget(30, 150)
    ctx.run_cases(OPS["export_segment"], _count(ctx, "export_segment:9 types x cast", gen_export_segment(rng, reps, defaults)))
    ctx.run_cases(OPS["export_bbox"], _count(ctx, "export_bbox:9 types x cast x raise", gen_export_bbox(rng, reps // 2, defaults)))
    ctx.exhaustive["export_bbox Nyquist grid"] = "box low/high on i/2, i=0..9, all pairs x samplerate in {4, 6, 7, 8}"
    ctx.run_cases(OPS["export_sequence"], gen_export_sequence(rng, ctx.budget(800, 4000), defaults))
    ctx.run_cases(OPS["export_annotation"], gen_export_annotation(rng, ctx.budget(800, 4000), defaults))


def _stage_roundtrip(ctx):
    rng = ctx.rng
    m = ctx.budget(1500, 8000)
    ctx.run_cases(OPS["roundtrip_segment"], gen_rt_segment(rng, m))
    ctx.run_cases(OPS["roundtrip_segment_free"], gen_rt_segment_free(rng, m))
    ctx.run_cases(OPS["roundtrip_bbox"], gen_rt_bbox(rng, m))
    ctx.run_cases(OPS["roundtrip_sequence"], gen_rt_sequence(rng, m // 2))
    ctx.run_cases(OPS["roundtrip_sequence_free"], gen_rt_sequence(rng, m // 4, free=True))
    ctx.run_cases(OPS["roundtrip_annotation"], gen_rt_annotation(rng, m // 2))


def run(ctx):
    import time
    times = {}

    def stage(name, fn, *a):
        t0 = time.time()
        r = ctx.stage(name, fn, *a)
        times[name] = round(time.time() - t0, 1)
        return r
    stage("corpus", ctx.run_corpus, OPS)
    # ties 1 and 1b
    stage("keyword-defaults", _defaults_obligation, ctx)
    stage("positional-signatures", _signatures_obligation, ctx)
    stage("symbolic-ties", _symbolic_ties, ctx)
    stage("discharge", ctx.discharge, ["SoundeventModel.Crowsetta", "SoundeventModel.CrowsettaHist", "SoundeventModel.Tactics"])
    defaults = _model_defaults(ctx)
    # (a) the abstracted option space of both cascades, exhaustively
    stage("cascades", _stage_cascades, ctx)
    # (b) numeric correspondence through real crowsetta objects
    stage("import", _stage_import, ctx)
    stage("export", _stage_export, ctx, defaults)
    # (c) the round trip through real crowsetta objects: correspondence + monitor
    stage("roundtrip", _stage_roundtrip, ctx)
    # (d) histories in one process, the store semantics of returned tags, positional calls (HISTORIES.md)
    stage("histories", _stage_histories, ctx, defaults)
    stage("positional", _stage_positional, ctx, defaults)
    # (e) option x input-class products, numeric and size boundaries (HISTORIES.md sections 3 and 4)
    stage("products", _stage_products, ctx, defaults)
    stage("boundaries", _stage_boundaries, ctx)
    stage("self-contained-replays", c10_hist.drop_not_self_contained, ctx)
    ctx.note("stage seconds: " + ", ".join(f"{k} {v}" for k, v in times.items()))


def search(ctx, failures):
    """a tie broke without a concrete failing input so far: widen the scopes of the affected operations"""
    ops = {f.extra.get("op") or f.op for f in failures}
    rng = ctx.rng
    defaults = _model_defaults(ctx)
    if ops & {"import_segment", "import_segment_r1", "import_segment_tol", "import_sequence"} or not ops & set(OPS):
        ctx.run_cases(OPS["import_segment"], gen_import_segment(rng, 6000, POW2_TE, POW2_SR))
        ctx.run_cases(OPS["import_segment_r1"], gen_import_segment(rng, 3000, DEC_TE + POW2_TE, INT_SR, seconds="seconds"))
    if ops & {"import_annotation", "import_annotation_load"}:
        ctx.run_cases(OPS["import_annotation"], gen_import_annotation(rng, 2000))
        ctx.run_cases(OPS["import_annotation_load"], gen_import_annotation_load(rng, 600))
    if ops & {"export_segment", "export_sequence"}:
        ctx.run_cases(OPS["export_segment"], gen_export_segment(rng, 60, defaults))
        ctx.run_cases(OPS["export_sequence"], gen_export_sequence(rng, 2000, defaults))
    if ops & {"import_bbox", "import_bbox_r1", "import_annotation"} or not ops & set(OPS):
        ctx.run_cases(OPS["import_bbox"], gen_import_bbox(rng, 6000, POW2_TE))
        ctx.run_cases(OPS["import_bbox_r1"], gen_import_bbox(rng, 3000, DEC_TE))
    if ops & {"export_bbox", "export_annotation", "defaults"} or not ops & set(OPS):
        ctx.run_cases(OPS["export_bbox"], gen_export_bbox(rng, 60, defaults))
        ctx.run_cases(OPS["export_annotation"], gen_export_annotation(rng, 2000, defaults))
    if "positional" in ops:
        sigs = {e["fn"]: e["params"] for e in ctx.model("signatures", {})}
        ctx.run_cases(OPS["positional"], gen_positional(rng, defaults, sigs, 12))
    if "defaults" in ops:
        ctx.run_cases(OPS["export_segment"], gen_export_segment(rng, 40, defaults))
        ctx.run_cases(OPS["export_sequence"], gen_export_sequence(rng, 2000, defaults))
        ctx.run_cases(OPS["label_to_tags"], enum_label_to_tags(True))
        ctx.run_cases(OPS["label_from_tag"], enum_label_from_tag())
        ctx.run_cases(OPS["label_from_tags"], enum_label_from_tags(True))
