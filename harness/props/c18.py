"""C18 — Audio paths are stored relative to the audio directory and relocate on load."""
import copy
import itertools
import json
import os
import random
import shutil
import unicodedata
from pathlib import Path, PurePosixPath

from ..core import Op, canon_exc, jkey
from .. import aoef, aoefgen, leanio

PROPERTY = "C18"
LEAN_MODULE = "Proofs.C18"
_T = "SE.Proofs.C18."
_THEOREM_NAMES = ["C18_relative_iff", "C18_relative_join", "C18_join_relative", "C18_relocate", "C18_passthrough",
                  "C18_stored_relative", "C18_every_recording_stored", "C18_outside_fails",
                  "C18_outside_fails_needs_coherence", "C18_outside_fails_wf", "C18_outside_fails_recordingSet",
                  "C18_outside_fails_dataset", "C18_inside_succeeds", "parse_parts_ok", "parse_root_ok",
                  "C18_parse_render",
                  # second review
                  "C18_parse_wf", "C18_parse_render_parse", "C18_relative_join_wf", "C18_render_injective",
                  "C18_string_level", "C18_relocate_to_none", "C18_relocate_from_none", "C18_recordings_of_mapPath",
                  "C18_loaded_recordings", "C18_relocate_collection", "C18_passthrough_collection", "C18_adapter_table",
                  # follow-up: histories and construction paths
                  "C18_session_save_ok", "C18_session_save_fails", "C18_session_file_changes", "C18_session_frame",
                  "C18_session_load", "C18_session_relocate", "C18_session_failed_save_keeps_file",
                  "C18_session_document_reused", "C18_saves_history_free", "C18_dispatch_table", "C18_signature_table"]
THEOREMS = [_T + n for n in _THEOREM_NAMES]
LEVEL_TEXT = ("Lean theorems over a model of POSIX pure paths (parse, render, relative_to, join as pathlib computes "
              "them; every string parses to a well-formed path and parse . render is the identity on those) and of the "
              "AOEF recording adapter inside the C01 model: relative_to succeeds exactly for paths inside the directory "
              "and is inverted by join; saving under A and loading under B maps A/x to B/x for every recording "
              "reachable from the collection by whatever route (clip, sound event, sequence, prediction, task, match), "
              "for all eight collection constructors; every recording is stored relative to the directory and saving "
              "fails as a whole when one lies outside; without a directory (on either side) paths pass through. "
              "Histories: a session model (live objects and files / in-memory documents as state) with theorems that a "
              "successful save replaces exactly the target's content whatever it held, a failing save changes nothing, "
              "a file changes only through a save to it, one document converted under several directories relocates "
              "each time from the saved paths, and saves are history free. The path model is compared with pathlib on "
              "every generated path, and stored / relocated paths of all eight collection types with the real save / "
              "load (directory as str, Path, os.PathLike and PurePosixPath, messy spellings, keyword and positional "
              "calls, objects built by constructors / validation / JSON / copies / user-defined subclasses) and with "
              "whole sessions of saves, loads, conversions and edits in one process.")
LEVEL_NOTE = ("Trusted: Lean kernel; pathlib itself (its parse is compared with the model's on every generated path); "
              "POSIX flavour only (Windows paths are out of scope). Of the file system only this is modelled: a file is a "
              "cell holding one document; a successful save replaces the cell, a failing one leaves every cell as it was, "
              "loads do not write. That the real files behave like that (the target holds exactly the new document also "
              "over a longer earlier file, a failing save leaves nothing behind and an existing file byte for byte "
              "untouched, no other file changes) is observed on the real code at every save of every case. That `save` "
              "creates a missing parent directory of the target before converting is observed and not compared. A "
              "PurePosixPath as *load* directory and anything but str / Path as `Recording.path` are outside the "
              "quantifier (pydantic rejects them today). The very large collections (> 36 clips) are checked for "
              "well-formedness by the harness, not by the model's `wf` (quadratic).")
TECHNIQUE = ("Lean 4 proof (path algebra, recording-adapter theorems over the AOEF model, session semantics over objects "
             "and files); three regenerated table obligations (introspection of ADAPTERS: one recording adapter per "
             "collection adapter, and it got the directory; subclass instances are converted by their type's adapter; "
             "positions of the positional parameters of the six public functions); differential correspondence with "
             "pathlib, with the real save/load of all eight collection types, and with sessions of saves / loads / "
             "conversions / edits in one process")
RULE = ("distinct (operation, input) cases on which the real code produced paths (or the expected failure): path "
        "strings against pathlib, stored paths and relocated paths of every recording of a collection; sessions "
        "(`session`): 64 / 512 template sessions (8 kinds x 8 types: same target longer-shorter-longer, failing save "
        "over an existing file, same objects under other directories and files, recording moved after the first save "
        "by assignment / model_copy, loaded object changed and saved back, caller changes a loaded object, one "
        "in-memory document converted several times, construction paths of one content) plus 16 / 128 random walks, "
        "8-16 steps each, every step judged by pathlib arithmetic and by the session model")
TRUSTED = ["pathlib.PurePosixPath (compared with the model on every generated path)",
           "harness/aoef.py `build` (constructors of soundevent.data; shared with C01); the generic walker over "
           "pydantic fields that reads `Recording.path` of live objects",
           "expected values come from pathlib arithmetic on the input (`_want_stored`, `_want_relocated`, "
           "`_session_oracle`) and from the Lean model, never from soundevent"]
ASSUMPTIONS = ["POSIX path flavour"]
NOT_COMPARED = ["creation of the target file's parent directory before the conversion fails",
                "error messages and error classes (only: an exception is raised and nothing is left behind in the "
                "target directory)",
                "the spelling of a loaded path beyond pathlib equality (str(Path(p)) is compared)",
                "the class of the loaded collection and every field other than the recordings' uuids and paths (C01)",
                "whether `Recording.path` of a loaded recording is a Path or a str"]

PARTS = ["a", "b", "sub dir", "ünï", "x.y", ".hidden", "..", "...", " ", "rec.wav", "ñandú 1.WAV", "data", "audio", "a",
         " lead", "trail ", "tab\there", "estacio\u0301n", "estaci\u00f3n", "..x", "~"]


def gen_path(rng, absolute=None, messy=True):
    n = rng.randint(0, 4)
    parts = [rng.choice(PARTS) for _ in range(n)]
    sep = lambda: rng.choice(["/", "/", "/", "//", "/./"]) if messy else "/"
    s = ""
    for i, p in enumerate(parts):
        s += (sep() if i else "") + p
    absolute = rng.random() < 0.6 if absolute is None else absolute
    if absolute:
        s = rng.choice(["/", "/", "/", "//", "///"] if messy else ["/"]) + s
    if messy and rng.random() < 0.2:
        s += rng.choice(["/", "/.", "//"])
    return s


# ------------------------------------------------------------------ path algebra against pathlib
def _pj(p):
    return {"root": p.root if not p.drive else p.drive + p.root, "parts": [x for x in p.parts if x != p.anchor], "str": str(p)}


def _impl_parse(inp):
    return _pj(PurePosixPath(inp["p"]))


def _impl_rel(inp):
    return {"val": _pj(PurePosixPath(inp["p"]).relative_to(inp["d"]))}


def _impl_join(inp):
    return _pj(inp["d"] / PurePosixPath(inp["p"]))


# ------------------------------------------------------------------ the real save / load, by every public route
_N = [0]


def _fresh_dir():
    """a fresh, empty directory of this run: whatever a save leaves behind is visible in it"""
    _N[0] += 1
    d = os.path.join(leanio.run_dir(), f"c18_{_N[0]}")
    shutil.rmtree(d, ignore_errors=True)
    os.makedirs(d)
    return d


def _listing(d):
    out = []
    for root, _dirs, files in os.walk(d):
        for f in files:
            out.append(os.path.relpath(os.path.join(root, f), d))
    return sorted(out)


def _converters():
    """`to_aeof` / `to_soundevent` of soundevent.io.aoef when both exist (they are public; a renamed one only
    means that this route is not taken)"""
    try:
        from soundevent.io import aoef as real
    except Exception:  # noqa: BLE001
        return None
    f, g = getattr(real, "to_aeof", None), getattr(real, "to_soundevent", None)
    return (f, g) if callable(f) and callable(g) else None


class FsPath:
    """a user-defined `os.PathLike` that is not a pathlib class: besides `str`, what `soundevent.data.PathLike`
    (`Union[os.PathLike, str]`) admits"""

    def __init__(self, s):
        self._s = s

    def __fspath__(self):
        return self._s

    def __repr__(self):
        return f"FsPath({self._s!r})"


DIR_KINDS_SAVE = ["str", "path", "fspath", "pure"]
DIR_KINDS_LOAD = ["str", "path", "fspath"]     # a pure path as load directory is outside the quantifier: `dir / p` is then
#                                                a PurePosixPath, which pydantic rejects as `Recording.path` today


def _as_path(d, how="str"):
    """a directory / a file name as the caller may pass it: `str`, `pathlib.Path`, `PurePosixPath`, or a
    user-defined `os.PathLike`"""
    if d is None:
        return None
    if how == "path":
        return Path(d)
    if how == "pure":
        return PurePosixPath(d)
    if how == "fspath":
        return FsPath(d)
    return d


def _do_save(obj, target, audio_dir, how, api="io", fmt="aoef", target_as="str"):
    """save `obj` to `target` by one of the public routes, keyword and positional"""
    ad = _as_path(audio_dir, how)
    tp = _as_path(target, target_as)
    if api in ("aoef", "aoef_positional"):
        from soundevent.io import aoef as real
        if api == "aoef":
            real.save(obj, tp, audio_dir=ad)
        else:
            real.save(obj, tp, ad)
        return
    from soundevent import io
    if api == "positional":
        io.save(obj, Path(target), ad)
    elif api == "positional_full":
        io.save(obj, tp, ad, fmt)
    else:
        io.save(obj, tp, audio_dir=ad, format=fmt)


def _do_load(target, audio_dir, how, api="io", fmt="aoef", ty=None, target_as="str"):
    ad = _as_path(audio_dir, how)
    tp = _as_path(target, target_as)
    if api in ("aoef", "aoef_positional"):
        from soundevent.io import aoef as real
        if api == "aoef_positional":
            return real.load(tp, ad) if ty is None else real.load(tp, ad, ty)
        return real.load(tp, audio_dir=ad) if ty is None else real.load(tp, audio_dir=ad, type=ty)
    from soundevent import io
    if api == "positional":
        return io.load(Path(target), ad)
    if api == "positional_full":
        return io.load(tp, ad, fmt) if ty is None else io.load(tp, ad, fmt, ty)
    if ty is not None:
        return io.load(tp, audio_dir=ad, format=fmt, type=ty)
    return io.load(tp, audio_dir=ad, format=fmt)


# ------------------------------------------------------------------ live objects: walking, construction paths, edits
def _is_model(x):
    return hasattr(type(x), "model_fields") and not isinstance(x, type)


def _recording_class():
    from soundevent import data
    return data.Recording


def _live_recordings(root):
    """every `Recording` instance reachable from a live object through declared pydantic fields, each instance
    once (by identity) -- whatever the classes in between are called (instances of user-defined subclasses of
    the collection classes are walked like any other)"""
    R = _recording_class()
    seen, out, todo = set(), [], [root]
    while todo:
        x = todo.pop()
        if isinstance(x, (list, tuple)):
            todo.extend(x)
            continue
        if not _is_model(x) or id(x) in seen:
            continue
        seen.add(id(x))
        if isinstance(x, R):
            out.append(x)
            continue
        for name in type(x).model_fields:
            todo.append(getattr(x, name, None))
    return out


def _live_paths(root):
    """[[uuid, path], ...] of every recording reachable from a live object, sorted (observe_at: `Recording.path` of
    every recording reachable from the loaded object)"""
    out = {}
    for r in _live_recordings(root):
        out[str(r.uuid)] = str(PurePosixPath(os.fspath(r.path)))
    return sorted([u, p] for u, p in out.items())


def _snapshot(obj):
    """the whole content of a live object as text: an argument must read the same before and after a call"""
    try:
        return obj.model_dump_json(warnings=False)
    except TypeError:
        return obj.model_dump_json()


_SUBCLASSES = {}


def _subclass_of(cls):
    """a user-defined subclass of a collection class (one more field with a default, one more method), as a
    project would write it: `class LabProject(data.AnnotationProject): ...`"""
    if cls not in _SUBCLASSES:
        _SUBCLASSES[cls] = type("Lab" + cls.__name__, (cls,), {
            "__annotations__": {"lab_note": str}, "lab_note": "kept by the lab", "__module__": __name__,
            "n_members": lambda self: sum(len(v) for v in vars(self).values() if isinstance(v, list))})
    return _SUBCLASSES[cls]


_FALLBACKS = [0]
BUILD_HOWS = ["ctor", "validate", "validate_json", "deepcopy", "copy_deep", "subclass", "subclass_validate"]


def _construct(cj, how="ctor", rec_path_as=None):
    """the live collection carrying the content `cj`, by one of several construction paths:
    ctor               constructors, objects with one uuid shared by reference (harness/aoef.py)
    validate           `Cls.model_validate(obj.model_dump())`: every occurrence its own Python object
    validate_json      `Cls.model_validate_json(obj.model_dump_json())`
    deepcopy           `copy.deepcopy(obj)`
    copy_deep          `obj.model_copy(deep=True)`
    subclass           an instance of a user-defined subclass of the collection class, children shared
    subclass_validate  the same through `Sub.model_validate(obj.model_dump())`
    `rec_path_as="str"`: every `Recording.path` is a `str` afterwards (assignment is not validated) instead of
    a `Path`.  A construction path that does not reproduce the recording paths of `cj` (a fault of the path
    itself, not of save / load) falls back to the constructors."""
    base = aoef.build(cj)
    obj = base
    try:
        if how == "validate":
            obj = type(base).model_validate(base.model_dump())
        elif how == "validate_json":
            obj = type(base).model_validate_json(base.model_dump_json())
        elif how == "deepcopy":
            obj = copy.deepcopy(base)
        elif how == "copy_deep":
            obj = base.model_copy(deep=True)
        elif how == "subclass":
            obj = _subclass_of(type(base))(**{f: getattr(base, f) for f in type(base).model_fields})
        elif how == "subclass_validate":
            obj = _subclass_of(type(base)).model_validate(base.model_dump())
        if obj is not base and _live_paths(obj) != _live_paths(base):
            obj = base
            _FALLBACKS[0] += 1
    except leanio.InfraError:
        raise
    except Exception:  # noqa: BLE001
        obj = base
        _FALLBACKS[0] += 1
    if rec_path_as == "str":
        for r in _live_recordings(obj):
            r.path = os.fspath(r.path)
    return obj


def _copy_tree(x, f, memo):
    """`model_copy(update=…)` all the way up: every recording `r` with `f(r)` not None is replaced by that copy,
    every object that (transitively) holds a replaced one is replaced by `model_copy(update={field: new})`;
    objects that hold none are kept; sharing is preserved"""
    if isinstance(x, list):
        ys = [_copy_tree(v, f, memo) for v in x]
        return ys if any(a is not b for a, b in zip(ys, x)) else x
    if not _is_model(x):
        return x
    if id(x) in memo:
        return memo[id(x)][1]
    if isinstance(x, _recording_class()):
        y = f(x)
        y = x if y is None else y
    else:
        upd = {}
        for name in type(x).model_fields:
            v = getattr(x, name, None)
            w = _copy_tree(v, f, memo)
            if w is not v:
                upd[name] = w
        y = x.model_copy(update=upd) if upd else x
    memo[id(x)] = (x, y)
    return y


MOVE_HOWS = ["assign", "assign_str", "model_copy", "model_copy_str", "copy_assign"]


def _move(obj, src, dst, how):
    """every recording of the live object at `src` is at `dst` afterwards -> the live object to go on with
    (the same one after an assignment, a new one after `model_copy(update=...)` / `copy.copy` + assignment: whatever
    an earlier save remembered *on* the recording object travels with such a copy)"""
    hit = lambda r: PurePosixPath(os.fspath(r.path)) == PurePosixPath(src)
    new = dst if how.endswith("_str") else Path(dst)
    if how.startswith("assign"):
        for r in _live_recordings(obj):
            if hit(r):
                r.path = new
        return obj
    if how == "copy_assign":
        def moved(r):
            if not hit(r):
                return None
            r2 = copy.copy(r)
            r2.path = new
            return r2
        return _copy_tree(obj, moved, {})
    return _copy_tree(obj, lambda r: r.model_copy(update={"path": new}) if hit(r) else None, {})


def _rec_paths_of_data(data):
    return sorted([r["uuid"], r["path"]] for r in data.get("recordings") or [])


def _rec_paths_of_doc(path):
    return _rec_paths_of_data(json.load(open(path))["data"])


SENTINEL = "{\"earlier\": \"content\"}\n"


def _read_doc_paths(path):
    """the recording entries of a written file -> {"val": ...}; a file that is not one JSON document (e.g. the
    tail of an earlier, longer file left behind) is reported as such"""
    try:
        return {"val": _rec_paths_of_doc(path)}
    except (ValueError, KeyError, TypeError, AttributeError) as e:
        return {"val": None, "unreadable": repr(e)[:200]}


def _stored_of(obj, inp):
    """save one (already built) object as `inp` says -> the recording paths of the document | the failure;
    `mutated` when the call changed its argument"""
    api, fmt, pre = inp.get("api", "io"), inp.get("format", "aoef"), inp.get("pre")
    how = inp.get("dir_as", "str")
    conv = _converters() if api in ("convert", "convert_positional") else None
    snap = _snapshot(obj)

    def done(out):
        if _snapshot(obj) != snap:
            out["mutated"] = True
        return out
    if conv is not None:
        # the conversion step of `save` on its own (public `to_aeof`): no file is involved
        try:
            ad = _as_path(inp.get("audio_dir"), how)
            doc = conv[0](obj, ad) if api == "convert_positional" else conv[0](obj, audio_dir=ad)
            return done({"val": _rec_paths_of_data(json.loads(doc.model_dump_json(exclude_none=True))["data"])})
        except leanio.InfraError:
            raise
        except Exception as e:  # noqa: BLE001
            return done(canon_exc(e))
    if api in ("convert", "convert_positional"):
        api = "io"
    d = _fresh_dir()
    target = os.path.join(d, "doc.json")
    if pre == "fresh_dir":
        target = os.path.join(d, "not yet", "there", "doc.json")
    elif pre == "file":
        open(target, "w").write(SENTINEL)
    elif pre == "longer":
        # an earlier, much longer AOEF document at the same path
        open(target, "w").write(json.dumps(aoef.aoef_file({"collection_type": "recording_set", "uuid": "0" * 32,
                                                          "recordings": [], "padding": "x" * 200000})))
    before = open(target).read() if pre in ("file", "longer") else None
    try:
        try:
            _do_save(obj, target, inp.get("audio_dir"), how, api, fmt, inp.get("target_as", "str"))
        except leanio.InfraError:
            raise
        except Exception as e:  # noqa: BLE001
            out = canon_exc(e)
            left = _listing(d)
            if before is not None and os.path.exists(target) and open(target).read() == before:
                left = [f for f in left if f != "doc.json"]      # an earlier file, untouched
            out["file_written"] = bool(left)
            if left:
                out["left_behind"] = left
            return done(out)
        return done(_read_doc_paths(target))
    finally:
        shutil.rmtree(d, ignore_errors=True)


def _impl_stored(inp):
    """'path' of every entry of data.recordings in the written JSON; on failure: nothing may have been written"""
    try:
        obj = _construct(inp["collection"], inp.get("build", "ctor"), inp.get("rec_path_as"))
    except leanio.InfraError:
        raise
    except Exception as e:  # noqa: BLE001
        return canon_exc(e)
    return _stored_of(obj, inp)


def _want_stored(cj, A):
    """the property, directly (pathlib arithmetic on the input): uuid -> stored path, or None when a recording
    lies outside `A`"""
    want = {}
    for u, p in _all_recordings(cj):
        q = PurePosixPath(p)
        if A is not None:
            try:
                q = q.relative_to(A)
            except ValueError:
                return None
        want[u] = str(q)
    return want


def _judge_stored(inp, out, where=""):
    if out.get("mutated"):
        return f"{where}the save changed the object it was given (its content reads differently after the call)"
    if out.get("unreadable"):
        return (f"{where}the written file is not one JSON document ({out['unreadable']}): something of an earlier "
                "file at the same path is still there")
    if out.get("file_written"):
        return (f"{where}saving failed but something was written in the target directory: "
                f"{out.get('left_behind')}")
    want = _want_stored(inp["collection"], inp.get("audio_dir"))
    if want is None:
        if "val" in out:
            return (f"{where}a recording lies outside the audio directory {inp.get('audio_dir')!r} but saving did not "
                    f"fail (stored: {out['val'][:3]})")
        return None
    if "val" in out:
        got = {u: p for u, p in out["val"]}
        for u, p in want.items():
            if got.get(u) != p:
                return (f"{where}recording {u}: stored path {got.get(u)!r}, expected {p!r} "
                        f"(audio directory {inp.get('audio_dir')!r})")
    return None


def _holds_stored(ctx, inp, out):
    return _judge_stored(inp, out)


def _cmp_sorted_val(inp, io, mo):
    a = {k: v for k, v in io.items() if k not in ("trace", "file_written", "left_behind", "mutated", "unreadable")}
    if "raise" in a and "raise" in mo:
        return None         # the property pins *that* saving fails, not the class of the error
    if "val" in mo:
        mo = {"val": sorted(mo["val"])}
    return None if a == mo else "implementation and model disagree"


def _all_recordings(cj):
    """every recording reachable from a loaded collection (model JSON), by uuid"""
    out = {}

    def walk(x):
        if isinstance(x, dict):
            if "samplerate" in x and "path" in x:
                out[x["uuid"]] = x["path"]
            for v in x.values():
                walk(v)
        elif isinstance(x, list):
            for v in x:
                walk(v)
    walk(cj)
    return sorted([u, p] for u, p in out.items())


def _load_type(inp):
    return inp["collection"]["type"] if inp.get("type") else None


def _impl_relocate(inp):
    """save under A, load under B (fresh file, fresh call): Recording.path of every reachable recording"""
    api, fmt = inp.get("api", "io"), inp.get("format", "aoef")
    how_s = inp.get("dir_as", "str")
    how_l = inp.get("load_as") or ("str" if how_s == "pure" else how_s)
    tas = inp.get("target_as", "str")
    d = None
    try:
        obj = _construct(inp["collection"], inp.get("build", "ctor"), inp.get("rec_path_as"))
        conv = _converters() if api in ("convert", "convert_positional") else None
        if conv is not None:
            sd, ld = _as_path(inp.get("save_dir"), how_s), _as_path(inp.get("load_dir"), how_l)
            doc = conv[0](obj, sd) if api == "convert_positional" else conv[0](obj, audio_dir=sd)
            doc = type(doc).model_validate_json(doc.model_dump_json(exclude_none=True))
            back = conv[1](doc, ld) if api == "convert_positional" else conv[1](doc, audio_dir=ld)
            return {"val": _live_paths(back)}
        if api in ("convert", "convert_positional"):
            api = "io"
        d = _fresh_dir()
        target = os.path.join(d, "doc.json")
        _do_save(obj, target, inp.get("save_dir"), how_s, api, fmt, tas)
        back = _do_load(target, inp.get("load_dir"), how_l, api, fmt, _load_type(inp), tas)
        return {"val": _live_paths(back)}
    except leanio.InfraError:
        raise
    except Exception as e:  # noqa: BLE001
        return canon_exc(e)
    finally:
        if d:
            shutil.rmtree(d, ignore_errors=True)


def _want_relocated(paths, A, B):
    """pathlib arithmetic: {uuid: path} saved under A and loaded under B, or None when the save must fail"""
    want = {}
    for u, p in paths.items():
        q = PurePosixPath(p)
        if A is not None:
            try:
                q = q.relative_to(A)
            except ValueError:
                return None
        if B is not None:
            q = PurePosixPath(B) / q
        want[u] = str(q)
    return want


def _judge_relocated(paths, A, B, out, where=""):
    want = _want_relocated(paths, A, B)
    if want is None:
        if "val" in out:
            return f"{where}a recording lies outside the audio directory {A!r} but saving did not fail"
        return None
    if "val" not in out:
        return None          # judged by the comparison with the model
    got = dict(out["val"])
    for u, p in want.items():
        if got.get(u) != p:
            return f"{where}recording {u}: loaded path {got.get(u)!r}, expected {p!r} (saved under {A!r}, loaded under {B!r})"
    return None


def _holds_relocate(ctx, inp, out):
    """the property, directly: A/x -> B/x for every recording (pathlib arithmetic on the input paths)"""
    return _judge_relocated(dict(_all_recordings(inp["collection"])), inp.get("save_dir"), inp.get("load_dir"), out)


# ------------------------------------------------------------------ several saves / loads in one process
def _impl_stored_history(inp):
    """consecutive saves in one process; with `reuse` the *same* objects are saved again (a save must not have
    changed them)"""
    if not inp.get("reuse"):
        return [_impl_stored(st) for st in inp["steps"]]
    try:
        obj = aoef.build(inp["steps"][0]["collection"])
    except leanio.InfraError:
        raise
    except Exception as e:  # noqa: BLE001
        return [canon_exc(e) for _ in inp["steps"]]
    return [_stored_of(obj, st) for st in inp["steps"]]


def _holds_stored_history(ctx, inp, out):
    for i, (st, o) in enumerate(zip(inp["steps"], out)):
        msg = _judge_stored(st, o, where=f"save {i + 1} of {len(out)} in one process: ")
        if msg:
            return msg
    return None


def _cmp_stored_history(inp, io, mo):
    for i, (a, b) in enumerate(zip(io, mo)):
        msg = _cmp_sorted_val(inp["steps"][i], a, b)
        if msg:
            return f"step {i + 1} of {len(io)} (after earlier saves with other audio directories in the same process): {msg}"
    return None


def _impl_relocate_many(inp):
    """one save under `save_dir`, then the same file is loaded under each of `load_dirs`, in one process"""
    loads = inp["load_dirs"]
    hows = inp.get("load_as") or ["str"] * len(loads)
    d = _fresh_dir()
    target = os.path.join(d, "doc.json")
    try:
        try:
            obj = aoef.build(inp["collection"])
            _do_save(obj, target, inp.get("save_dir"), inp.get("dir_as", "str"))
        except leanio.InfraError:
            raise
        except Exception as e:  # noqa: BLE001
            return [canon_exc(e) for _ in loads]
        outs = []
        for B, how in zip(loads, hows):
            try:
                outs.append({"val": _live_paths(_do_load(target, B, how))})
            except leanio.InfraError:
                raise
            except Exception as e:  # noqa: BLE001
                outs.append(canon_exc(e))
        return outs
    finally:
        shutil.rmtree(d, ignore_errors=True)


def _holds_relocate_many(ctx, inp, out):
    paths = dict(_all_recordings(inp["collection"]))
    for i, (B, o) in enumerate(zip(inp["load_dirs"], out)):
        msg = _judge_relocated(paths, inp.get("save_dir"), B, o, where=f"load {i + 1} of {len(out)} of one file in one process: ")
        if msg:
            return msg
    return None


def _cmp_list(inp, io, mo):
    if len(io) != len(mo):
        return "implementation and model disagree (number of steps)"
    for i, (a, b) in enumerate(zip(io, mo)):
        msg = _cmp_sorted_val(inp, a, b)
        if msg:
            return f"step {i + 1} of {len(io)}: {msg}"
    return None


def _impl_relocate_chain(inp):
    """save under s1, load under l1, save *the loaded object* under s2, load under l2, ...; the first failure ends
    the chain (every later step reports it too)"""
    outs = []
    try:
        obj = aoef.build(inp["collection"])
    except leanio.InfraError:
        raise
    except Exception as e:  # noqa: BLE001
        return [canon_exc(e) for _ in inp["steps"]]
    err = None
    for st in inp["steps"]:
        if err is not None:
            outs.append(err)
            continue
        d = _fresh_dir()
        target = os.path.join(d, "doc.json")
        try:
            _do_save(obj, target, st.get("save_dir"), st.get("dir_as", "str"))
            obj = _do_load(target, st.get("load_dir"), st.get("load_as", "str"))
            outs.append({"val": _live_paths(obj)})
        except leanio.InfraError:
            raise
        except Exception as e:  # noqa: BLE001
            err = canon_exc(e)
            outs.append(err)
        finally:
            shutil.rmtree(d, ignore_errors=True)
    return outs


def _holds_relocate_chain(ctx, inp, out):
    paths = dict(_all_recordings(inp["collection"]))
    for i, (st, o) in enumerate(zip(inp["steps"], out)):
        where = f"cycle {i + 1} of {len(out)} (each cycle saves what the previous one loaded): "
        msg = _judge_relocated(paths, st.get("save_dir"), st.get("load_dir"), o, where=where)
        if msg:
            return msg
        nxt = _want_relocated(paths, st.get("save_dir"), st.get("load_dir"))
        if nxt is None or "val" not in o:
            return None
        paths = nxt
    return None


# ------------------------------------------------------------------ sessions: objects and files as state
FILE_APIS = ["io", "io", "aoef", "positional", "positional_full", "aoef_positional"]


def _doc_paths(doc):
    """the recording entries of an in-memory document, as `save` would write them"""
    return _rec_paths_of_data(json.loads(doc.model_dump_json(exclude_none=True))["data"])


_DOC_CLASS = []


def _doc_class():
    """the class of the documents `to_aeof` returns (found by converting a one-recording set once)"""
    if not _DOC_CLASS:
        cj = _minimal(random.Random(0), "recording_set", "/x/y.wav")
        _DOC_CLASS.append(type(_converters()[0](aoef.build(cj))))
    return _DOC_CLASS[0]


def _poison(obj):
    """the caller changes an object that a load returned, in place: every recording elsewhere, the last member
    of every list of the collection gone"""
    for r in _live_recordings(obj):
        r.path = Path("/poisoned by the caller") / Path(os.fspath(r.path)).name
    for name in type(obj).model_fields:
        v = getattr(obj, name, None)
        if isinstance(v, list) and v:
            v.pop()


def _impl_session(inp):
    """a sequence of steps in one process over named live objects and named files in one directory:
    put   a live object carrying `collection`, built by the construction path `how`
    move  every recording of a live object at `src` is moved to `dst` (assignment / model_copy(update=...))
    save  a live object to a file (the same file may be the target again and again)
    load  a file into a live object
    poison  the caller changes a loaded object in place
    convert / revive / parse / dump   the same through the public converters `to_aeof` / `to_soundevent` on
            in-memory documents: one document object may be converted to objects several times, under
            several directories, and written out afterwards
    -> the output of every step; after every save / load every *other* file must hold what it held before, a
    failing save must leave *every* file as it was, the saved object must read as before the call; at the end
    every loaded object that was not touched must still read as when it was returned"""
    d = _fresh_dir()
    objs, docs, outs, live, notes = {}, {}, [], [], []

    def fpath(f):
        return os.path.join(d, f + ".json")

    def files_state():
        out = {}
        for n in _listing(d):
            with open(os.path.join(d, n), "rb") as fh:
                out[n] = fh.read()
        return out

    known = {st["file"] + ".json" for st in inp["steps"] if "file" in st}

    def changed(before, allowed=(), strict=False):
        """files that differ from `before`: after a failing save (`strict`) any difference counts (nothing may be
        written at all); otherwise only the files of the session count (a successful save / a load may keep
        whatever else it likes next to them: the property does not speak about that)"""
        now = files_state()
        return sorted(n for n in set(before) | set(now) if before.get(n) != now.get(n) and n not in allowed
                      and (strict or n in known))
    try:
        for k, st in enumerate(inp["steps"]):
            do = st.get("do")
            try:
                if do == "put":
                    objs[st["obj"]] = _construct(st["collection"], st.get("how", "ctor"), st.get("rec_path_as"))
                    out = {"val": _live_paths(objs[st["obj"]])}
                elif do == "move":
                    old = objs[st["obj"]]
                    live = [x for x in live if x[1] is not old]
                    objs[st["obj"]] = _move(old, st["src"], st["dst"], st.get("how", "assign"))
                    out = {"val": _live_paths(objs[st["obj"]])}
                elif do == "save":
                    obj = objs[st["obj"]]
                    before, snap = files_state(), _snapshot(obj)
                    try:
                        _do_save(obj, fpath(st["file"]), st.get("audio_dir"), st.get("dir_as", "str"), st.get("api", "io"),
                                 st.get("format", "aoef"), st.get("target_as", "str"))
                        out = _read_doc_paths(fpath(st["file"]))
                    except leanio.InfraError:
                        raise
                    except Exception as e:  # noqa: BLE001
                        out = canon_exc(e)
                    ch = changed(before, (st["file"] + ".json",) if "val" in out else (), strict="val" not in out)
                    if ch:
                        out["changed"] = ch
                    if _snapshot(obj) != snap:
                        out["mutated"] = True
                elif do == "load":
                    before = files_state()
                    obj = _do_load(fpath(st["file"]), st.get("audio_dir"), st.get("dir_as", "str"), st.get("api", "io"),
                                   st.get("format", "aoef"), st.get("type"), st.get("target_as", "str"))
                    objs[st["into"]] = obj
                    out = {"val": _live_paths(obj)}
                    live.append((k, obj, out["val"]))
                    ch = changed(before)
                    if ch:
                        out["changed"] = ch
                elif do == "convert":
                    # `to_aeof` on its own: an in-memory document
                    obj = objs[st["obj"]]
                    snap = _snapshot(obj)
                    ad = _as_path(st.get("audio_dir"), st.get("dir_as", "str"))
                    try:
                        doc = _converters()[0](obj, ad) if st.get("positional") else _converters()[0](obj, audio_dir=ad)
                        docs[st["doc"]] = doc
                        out = {"val": _doc_paths(doc)}
                    except leanio.InfraError:
                        raise
                    except Exception as e:  # noqa: BLE001
                        out = canon_exc(e)
                    if _snapshot(obj) != snap:
                        out["mutated"] = True
                elif do == "revive":
                    # `to_soundevent` on a document object that may have been converted before
                    doc = docs[st["doc"]]
                    snap = _snapshot(doc)
                    ad = _as_path(st.get("audio_dir"), st.get("dir_as", "str"))
                    obj = _converters()[1](doc, ad) if st.get("positional") else _converters()[1](doc, audio_dir=ad)
                    objs[st["into"]] = obj
                    out = {"val": _live_paths(obj)}
                    live.append((k, obj, out["val"]))
                    if _snapshot(doc) != snap:
                        out["mutated"] = True
                elif do == "parse":
                    # the text of a file as an in-memory document
                    with open(fpath(st["file"])) as fh:
                        docs[st["doc"]] = _doc_class().model_validate_json(fh.read())
                    out = {"val": _doc_paths(docs[st["doc"]])}
                elif do == "dump":
                    # an in-memory document written out, the way `save` writes it
                    before = files_state()
                    with open(fpath(st["file"]), "w") as fh:
                        fh.write(docs[st["doc"]].model_dump_json(exclude_none=True))
                    out = _read_doc_paths(fpath(st["file"]))
                    ch = changed(before, (st["file"] + ".json",))
                    if ch:
                        out["changed"] = ch
                elif do == "poison":
                    obj = objs[st["obj"]]
                    live = [x for x in live if x[1] is not obj]
                    _poison(obj)
                    out = None
                else:
                    out = None
            except leanio.InfraError:
                raise
            except Exception as e:  # noqa: BLE001
                out = canon_exc(e)
                if out["raise"].startswith("crash:"):
                    out["trace"] = repr(e)[:300]
            outs.append(out)
        for k, obj, first in live:
            try:
                now = _live_paths(obj)
            except Exception as e:  # noqa: BLE001
                now = canon_exc(e)
            if now != first:
                notes.append({"step": k, "first": first[:4], "now": now[:4] if isinstance(now, list) else now})
        return {"steps": outs, "notes": notes}
    finally:
        shutil.rmtree(d, ignore_errors=True)


def _norm_paths(pairs):
    return {u: str(PurePosixPath(p)) for u, p in pairs}


MEM = "in memory: "      # cells of the model that are in-memory documents, not files


def _session_oracle(steps):
    """the session by pathlib arithmetic on {uuid: path} maps alone: what every step must report
    -> list of ("recs" | "stored", {uuid: path}) | ("fail",) | ("none",)"""
    paths, files, want = {}, {}, []
    for st in steps:
        do = st.get("do")
        if do == "put":
            paths[st["obj"]] = _norm_paths(_all_recordings(st["collection"]))
            want.append(("recs", dict(paths[st["obj"]])))
        elif do == "move":
            cur = paths.get(st["obj"])
            if cur is None:
                want.append(("fail",))
                continue
            src = PurePosixPath(st["src"])
            cur = {u: (str(PurePosixPath(st["dst"])) if PurePosixPath(p) == src else p) for u, p in cur.items()}
            paths[st["obj"]] = cur
            want.append(("recs", dict(cur)))
        elif do in ("save", "convert"):
            cur = paths.get(st["obj"])
            w = None if cur is None else _want_relocated(cur, st.get("audio_dir"), None)
            if w is None:
                want.append(("fail",))
            else:
                files[st["file"] if do == "save" else MEM + st["doc"]] = w
                want.append(("stored", dict(w)))
        elif do in ("load", "revive"):
            q = files.get(st["file"] if do == "load" else MEM + st["doc"])
            if q is None:
                want.append(("fail",))
            else:
                paths[st["into"]] = _want_relocated(q, None, st.get("audio_dir"))
                want.append(("recs", dict(paths[st["into"]])))
        elif do in ("parse", "dump"):
            src, dst = (st["file"], MEM + st["doc"]) if do == "parse" else (MEM + st["doc"], st["file"])
            if files.get(src) is None:
                want.append(("fail",))
            else:
                files[dst] = dict(files[src])
                want.append(("stored", dict(files[dst])))
        else:
            if do == "poison":
                paths.pop(st.get("obj"), None)
            want.append(("none",))
    return want


def _step_text(st):
    do = st.get("do")
    if do == "put":
        return f"put {st['obj']} ({st['collection']['type']}, built by {st.get('how', 'ctor')})"
    if do == "move":
        return f"move {st['src']!r} -> {st['dst']!r} in {st['obj']} by {st.get('how', 'assign')}"
    if do == "save":
        return f"save {st['obj']} -> {st['file']} under {st.get('audio_dir')!r}"
    if do == "load":
        return f"load {st['file']} under {st.get('audio_dir')!r} -> {st['into']}"
    if do == "convert":
        return f"{st['doc']} = to_aeof({st['obj']}, {st.get('audio_dir')!r})"
    if do == "revive":
        return f"{st['into']} = to_soundevent({st['doc']}, {st.get('audio_dir')!r})"
    if do == "parse":
        return f"{st['doc']} = the document parsed from {st['file']}"
    if do == "dump":
        return f"write {st['doc']} to {st['file']}"
    return str(do)


def _holds_session(ctx, inp, io):
    if not isinstance(io, dict) or "steps" not in io:
        return f"the session driver failed: {jkey(io)[:200]}"
    steps = inp["steps"]
    want = _session_oracle(steps)
    trail = []
    for k, (st, w, out) in enumerate(zip(steps, want, io["steps"])):
        trail.append(_step_text(st))
        where = f"step {k + 1} of {len(steps)} in one process [{'; '.join(trail[-5:])}]: "
        if w[0] == "none":
            continue
        out = out or {}
        if out.get("changed"):
            return where + (f"files changed that the step must not touch (a failing save: anything; otherwise the other "
                            f"files of the session): {out['changed']}")
        if out.get("mutated"):
            return where + ("the conversion changed the document it was given (it reads differently after the call)"
                            if st.get("do") == "revive" else "the save / conversion changed the object it was given")
        if out.get("unreadable"):
            return where + (f"the written file is not one JSON document ({out['unreadable']}): something of the file "
                            "that was at the same path before is still there")
        if w[0] == "fail":
            if "val" in out:
                if st.get("do") in ("save", "convert"):
                    return where + f"a recording lies outside the audio directory {st.get('audio_dir')!r} but saving did not fail"
                return where + "the step succeeded although the session has no such object / file"
            continue
        if "val" not in out:
            return where + f"raised {out.get('raise')} ({str(out.get('trace', ''))[:120]}) where the property gives {w[0]} paths"
        got = {u: p for u, p in out["val"]}
        for u, p in w[1].items():
            if got.get(u) != p:
                what = "stored path" if w[0] == "stored" else "path"
                return where + f"recording {u}: {what} {got.get(u)!r}, expected {p!r}"
    for n in io.get("notes", []):
        return (f"the object returned by the load at step {n['step'] + 1} changed after later steps "
                f"(was {jkey(n['first'])[:160]} now {jkey(n['now'])[:160]})")
    return None


def _cmp_session(inp, io, mo):
    outs = io.get("steps") if isinstance(io, dict) else None
    if outs is None or len(outs) != len(mo):
        return "implementation and model disagree (number of steps)"
    for k, (a, b) in enumerate(zip(outs, mo)):
        if b is None:
            continue
        a = {x: v for x, v in (a or {}).items() if x not in ("changed",)}
        if "val" in a and "val" in b:
            a = {"val": sorted(a["val"] or [])}
        msg = _cmp_sorted_val(inp, a, b)
        if msg:
            return f"step {k + 1} of {len(outs)} ({_step_text(inp['steps'][k])}): {msg}"
    return None


_MODEL_STEP_KEYS = ("do", "obj", "collection", "src", "dst", "file", "audio_dir", "into")


def _model_step(st):
    do = st.get("do")
    if do == "convert":
        return {"do": "save", "obj": st["obj"], "file": MEM + st["doc"], "audio_dir": st.get("audio_dir")}
    if do == "revive":
        return {"do": "load", "file": MEM + st["doc"], "audio_dir": st.get("audio_dir"), "into": st["into"]}
    if do == "parse":
        return {"do": "copy", "from": st["file"], "to": MEM + st["doc"]}
    if do == "dump":
        return {"do": "copy", "from": MEM + st["doc"], "to": st["file"]}
    return {k: st[k] for k in _MODEL_STEP_KEYS if k in st}


def _session_to_model(inp):
    return {"steps": [_model_step(st) for st in inp["steps"]]}


# ------------------------------------------------------------------ paths that exist on disk
DISK_ROOT = os.path.join(leanio.RUN_DIR, "c18-disk")     # fixed (no pid): a replay finds the same tree again
DISK_TREE = {"files": ["A/x.wav", "A/sub dir/y.wav", "A/sub dir/deeper/z.wav", "B/x.wav", "B/sub dir/y.wav", "x.wav",
                       "sub dir/y.wav"],
             "dirs": ["C", "A/empty"], "links": {"L": "A", "A/sub link": "sub dir"}}


def _ensure_disk(spec):
    """real files / directories / symbolic links under DISK_ROOT (idempotent; nothing is ever removed)"""
    for f in spec.get("files", []):
        q = os.path.join(DISK_ROOT, f)
        os.makedirs(os.path.dirname(q), exist_ok=True)
        if not os.path.exists(q):
            open(q, "a").close()
    for d in spec.get("dirs", []):
        os.makedirs(os.path.join(DISK_ROOT, d), exist_ok=True)
    for name, to in spec.get("links", {}).items():
        q = os.path.join(DISK_ROOT, name)
        os.makedirs(os.path.dirname(q), exist_ok=True)
        if not os.path.lexists(q):
            try:
                os.symlink(to, q)
            except FileExistsError:
                pass


def _with_disk(f):
    def g(inp):
        if inp.get("disk"):
            _ensure_disk(inp["disk"])
        return f(inp)
    g.__doc__ = f.__doc__
    return g


# ------------------------------------------------------------------ Tie 1: the adapter table, by introspection
def _reachable_instances(root, cls, depth=6):
    """every instance of `cls` reachable from `root` through instance attributes, whatever their names"""
    seen, found, todo = set(), {}, [(root, 0)]
    while todo:
        x, d = todo.pop()
        if id(x) in seen:
            continue
        seen.add(id(x))
        if isinstance(x, cls):
            found[id(x)] = x
        if d >= depth:
            continue
        if isinstance(x, dict):
            kids = list(x.values())
        elif isinstance(x, (list, tuple, set)):
            kids = list(x)
        elif hasattr(x, "__dict__") and not isinstance(x, type):
            kids = list(vars(x).values())
        else:
            kids = []
        for k in kids:
            if k is None or isinstance(k, (str, bytes, int, float, bool, Path)):
                continue
            todo.append((k, d + 1))
    return list(found.values())


def _adapter_rows():
    """(collection type, number of distinct recording adapters of the collection adapter built with a directory,
    each stores relative / fails outside / joins on load, the ones built without a directory pass paths through) for
    every row of soundevent.io.aoef.ADAPTERS -- observed by calling the recording adapters' two conversion methods"""
    import importlib
    import uuid as _uuid
    from soundevent import data
    real = importlib.import_module("soundevent.io.aoef")
    recmod = importlib.import_module("soundevent.io.aoef.recording")
    table = getattr(real, "ADAPTERS", None)
    # the two classes by what they are (a renamed class is found all the same): the adapter is the class of the module
    # with the two conversion methods, the object class the pydantic model with a `path` field
    own = [c for c in vars(recmod).values() if isinstance(c, type) and c.__module__ == recmod.__name__]
    RA = getattr(recmod, "RecordingAdapter", None) or next(
        (c for c in own if hasattr(c, "assemble_aoef") and hasattr(c, "assemble_soundevent")), None)
    RO = getattr(recmod, "RecordingObject", None) or next(
        (c for c in own if "path" in getattr(c, "model_fields", {})), None)
    if table is None or RA is None or RO is None:
        raise LookupError("soundevent.io.aoef.ADAPTERS / the recording adapter class / the recording object class not found")
    sent = Path("/c18 probe/audio dir")

    def rec(p):
        return data.Recording(path=p, duration=1.0, channels=1, samplerate=8000)

    def obj(p):
        return RO(uuid=_uuid.uuid4(), path=p, duration=1.0, channels=1, samplerate=8000)

    def ok(f):
        def g(a):
            try:
                return bool(f(a))
            except Exception:  # noqa: BLE001
                return False
        return g

    def stores(a):
        r = rec(sent / "sub dir" / "x.wav")
        return str(a.assemble_aoef(r, r.uuid).path) == "sub dir/x.wav"

    def fails(a):
        r = rec(Path("/c18 probe/audio dir2/x.wav"))
        try:
            a.assemble_aoef(r, r.uuid)
        except Exception:  # noqa: BLE001  (the property pins that it fails, not the class of the error)
            return True
        return False

    def joins(a):
        return Path(a.assemble_soundevent(obj("sub dir/x.wav")).path) == sent / "sub dir" / "x.wav"

    def passes(a):
        r = rec(sent / "y.wav")
        return (Path(a.assemble_aoef(r, r.uuid).path) == sent / "y.wav"
                and Path(a.assemble_soundevent(obj("rel/y.wav")).path) == Path("rel/y.wav"))

    rows = []
    for name, _cls, adapter_cls in table:
        with_dir = _reachable_instances(adapter_cls(audio_dir=sent), RA)
        without = _reachable_instances(adapter_cls(), RA)
        rows.append((str(name), len(with_dir), all(map(ok(stores), with_dir)), all(map(ok(fails), with_dir)),
                     all(map(ok(joins), with_dir)), len(without) == len(with_dir) and all(map(ok(passes), without))))
    return rows


def _dispatch_rows():
    """(collection type, `collection_type` of the document `save` writes for a smallest instance of the class,
    the same for an instance of a user-defined subclass of the class) -- observed by saving"""
    rng = random.Random("C18-dispatch")
    rows = []
    d = _fresh_dir()
    try:
        for ty in aoefgen.TYPES:
            cj = _minimal(rng, ty, "/c18 probe/x.wav")
            seen = []
            for how in ("ctor", "subclass"):
                obj = _construct(cj, how)
                if how == "subclass" and type(obj).__name__[:3] != "Lab":
                    seen.append("<no subclass instance could be built>")
                    continue
                target = os.path.join(d, f"{ty}_{how}.json")
                try:
                    _do_save(obj, target, None, "str")
                    seen.append(str(json.load(open(target))["data"]["collection_type"]))
                except leanio.InfraError:
                    raise
                except Exception as e:  # noqa: BLE001
                    seen.append(f"<{type(e).__name__}>")
            rows.append((ty, seen[0], seen[1]))
    finally:
        shutil.rmtree(d, ignore_errors=True)
    return rows


SIG_FUNCTIONS = [("io.save", "soundevent.io", "save"), ("io.load", "soundevent.io", "load"),
                 ("aoef.save", "soundevent.io.aoef", "save"), ("aoef.load", "soundevent.io.aoef", "load"),
                 ("aoef.to_aeof", "soundevent.io.aoef", "to_aeof"), ("aoef.to_soundevent", "soundevent.io.aoef", "to_soundevent")]


def _signature_rows():
    """(function, parameter, position among the positional parameters) of the public functions, by
    `inspect.signature`; a function that is gone or takes `*args` is not listed"""
    import importlib
    import inspect
    rows = []
    for label, mod, name in SIG_FUNCTIONS:
        try:
            fn = getattr(importlib.import_module(mod), name, None)
            params = list(inspect.signature(fn).parameters.values())
        except Exception:  # noqa: BLE001
            continue
        if any(q.kind == q.VAR_POSITIONAL for q in params):
            continue
        pos = [q.name for q in params if q.kind in (q.POSITIONAL_ONLY, q.POSITIONAL_OR_KEYWORD)]
        rows += [(label, n, i) for i, n in enumerate(pos)]
    return rows


def _tables(ctx):
    ctx.stage("table: adapters", _table_adapters, ctx)
    ctx.stage("table: dispatch of subclass instances", _table_dispatch, ctx)
    ctx.stage("table: positional parameters", _table_signatures, ctx)
    ctx.discharge(["Proofs.C18"])


def _table_dispatch(ctx):
    rows = _dispatch_rows()
    q = lambda x: json.dumps(x, ensure_ascii=False)
    src = ("def extractedDispatch : List SE.Proofs.C18.DispatchRow := ["
           + ", ".join(f"⟨{q(t)}, {q(a)}, {q(b)}⟩" for t, a, b in rows) + "]\n"
           "example : SE.Proofs.C18.DispatchOK extractedDispatch := by decide\n"
           "example (c : SE.Aoef.Collection) : ∃ r ∈ extractedDispatch, r.type = c.typeName ∧ r.exact = c.typeName ∧\n"
           "    r.subclass = c.typeName := SE.Proofs.C18.C18_dispatch_table extractedDispatch (by decide) c\n")
    ctx.obligation("subclass_instances_use_their_types_adapter", src, {"rows": rows})


def _table_signatures(ctx):
    rows = _signature_rows()
    q = lambda x: json.dumps(x, ensure_ascii=False)
    src = ("def extractedSignatures : List (String × String × Nat) := ["
           + ", ".join(f"({q(f)}, {q(n)}, {i})" for f, n, i in rows) + "]\n"
           "example : SE.Proofs.C18.SigOK extractedSignatures := by decide\n")
    ctx.obligation("positional_parameters_as_called", src, {"rows": rows, "listed": sorted({f for f, _n, _i in rows})})


def _table_adapters(ctx):
    rows = _adapter_rows()
    b = lambda x: "true" if x else "false"
    lean_rows = ", ".join(f'⟨{json.dumps(n, ensure_ascii=False)}, {k}, {b(s)}, {b(f)}, {b(j)}, {b(p)}⟩' for n, k, s, f, j, p in rows)
    src = (f"def extractedAdapters : List SE.Proofs.C18.AdapterRow := [{lean_rows}]\n"
           "example : SE.Proofs.C18.ThreadsDir extractedAdapters := by decide\n"
           "example (c : SE.Aoef.Collection) : ∃ r ∈ extractedAdapters, r.type = c.typeName ∧ r.recAdapters = 1 ∧\n"
           "    r.storesRelative = true ∧ r.failsOutside = true ∧ r.joinsOnLoad = true ∧ r.passThrough = true :=\n"
           "  SE.Proofs.C18.C18_adapter_table extractedAdapters (by decide) c\n")
    ctx.obligation("adapter_table_threads_audio_dir", src, {"rows": rows})


def _model_args(*keys):
    return lambda i: {k: i.get(k) for k in keys}


OPS = {
    "stored_history": Op("stored_history", _impl_stored_history, holds=_holds_stored_history, compare=_cmp_stored_history,
                         nontrivial=lambda i, o: any("val" in x for x in o),
                         to_model=lambda i: {"steps": [{"collection": s["collection"], "audio_dir": s.get("audio_dir")}
                                                       for s in i["steps"]]}),
    "path_parse": Op("path_parse", _impl_parse, model_op="parse"),
    "path_relative_to": Op("path_relative_to", _impl_rel, model_op="relative_to"),
    "path_join": Op("path_join", _impl_join, model_op="join"),
    "stored": Op("stored", _with_disk(_impl_stored), holds=_holds_stored, compare=_cmp_sorted_val, model_op="stored",
                 to_model=_model_args("collection", "audio_dir")),
    "relocate": Op("relocate", _with_disk(_impl_relocate), holds=_holds_relocate, compare=_cmp_sorted_val, model_op="relocate",
                   to_model=_model_args("collection", "save_dir", "load_dir")),
    "relocate_many": Op("relocate_many", _impl_relocate_many, holds=_holds_relocate_many, compare=_cmp_list,
                        nontrivial=lambda i, o: any("val" in x for x in o),
                        to_model=_model_args("collection", "save_dir", "load_dirs")),
    "session": Op("session", _impl_session, holds=_holds_session, compare=_cmp_session, to_model=_session_to_model,
                  nontrivial=lambda i, o: isinstance(o, dict) and any(isinstance(x, dict) and "val" in x for x in o.get("steps", []))),
    "relocate_chain": Op("relocate_chain", _impl_relocate_chain, holds=_holds_relocate_chain, compare=_cmp_list,
                         nontrivial=lambda i, o: any("val" in x for x in o),
                         to_model=lambda i: {"collection": i["collection"],
                                             "steps": [{"save_dir": s.get("save_dir"), "load_dir": s.get("load_dir")}
                                                       for s in i["steps"]]}),
}


# ------------------------------------------------------------------ generators
DEEP_DIR = "/" + "/".join(f"level {i}" for i in range(40))
LONG_NAME = "n" * 250 + ".wav"
# directories under which the recordings of a collection lie (absolute and relative; blanks, tabs, decomposed
# unicode, a repeated name, the two-slash root, `..` inside the directory's own spelling)
ABS_DIRS = ["/data/audio", "/", "/a b/ünï/x.y", "/data", "/data/audio/sub", "/audio/x/audio", "/data/ audio ",
            "/estacio\u0301n/grabaciones", "/tab\tdir", "//net/share", "/data/audio/..", "/data/../data/audio", "/...",
            DEEP_DIR]
REL_DIRS = ["rel/dir", "rel", "audio", ".", "", "../up", " rel ", "~/audio", "~"]     # `~` is a name like any other
DIRS = ABS_DIRS + REL_DIRS
LOAD_DIRS = DIRS + ["/mnt/other disk", "elsewhere", "/mnt/b", "//net/x", "..", "/mnt/ b ", "/mnt/estaci\u00f3n"]

DIR_PARTS = ["sub", "a b", "ünï", "2024", "x.y", ".hidden", "...", "estacio\u0301n", "estaci\u00f3n", " lead", "trail ",
             "tab\tdir", "audio", "data", "..x", "~"]
FILE_NAMES = ["rec.wav", "ñandú 1.WAV", "a.b.c.flac", "rec", " ", "grabacio\u0301n n\u0303u.wav", "grabaci\u00f3n \u00f1u.wav",
              "\u1112\u1161\u11ab.wav", " lead.wav", "trail.wav ", "tab\t.wav", "\ttab.wav", "end.wav\t", "..wav", "...",
              "..hidden", "audio", "audio.wav", "data", "~", "-", "#1.wav", "%2e%2e", "a\\b.wav", "new\nline.wav",
              " nbsp.wav ", "A\u030a.wav", "　", LONG_NAME]


def _last_name(base):
    p = PurePosixPath(base or ".")
    return p.name or "audio"


class PGen(aoefgen.Gen):
    """the shared collection generator with C18's spellings of the recording paths: names with leading / trailing
    blanks and tabs, composed and decomposed unicode, names equal to the directory's own name, `..` components,
    and (rarely) the audio directory itself as the recording's path"""

    def __init__(self, rng, rich=False, base="/data/audio", size=1.0, dots=0.1, messy=0.15, itself=0.03):
        self.dots, self.messy, self.itself = dots, messy, itself
        super().__init__(rng, rich=rich, base=base, size=size)

    def path(self, i):
        r = self.rng
        base = self.base
        if base not in (None, "", ".") and r.random() < self.itself:
            return base
        own = _last_name(base)
        parts = []
        for _ in range(r.randint(0, 3)):
            z = r.random()
            parts.append(".." if z < self.dots else own if z < self.dots + 0.08 else r.choice(DIR_PARTS))
        z = r.random()
        parts.append(own if z < 0.06 else own + ".wav" if z < 0.1 else f"r{i}.wav" if z < 0.25 else r.choice(FILE_NAMES))
        sep = (lambda: r.choice(["/", "//", "/./"])) if r.random() < self.messy else (lambda: "/")
        rel = parts[0]
        for p in parts[1:]:
            rel += sep() + p
        if base in (None, "", "."):
            return rel
        return (base.rstrip("/") + sep() + rel) if base.strip("/") else base + rel


def _dir_variant(rng, d):
    """the same directory as a caller may write it (pathlib parses all of these to the same path)"""
    if d is None:
        return None
    if d in ("", "."):
        return rng.choice(["", ".", "./", "./."])
    if d.strip("/") == "":
        return d if len(d) == 2 else rng.choice(["/", "/", "///", "/.", "/./"])
    z = rng.random()
    if z < 0.45:
        return d
    if z < 0.6:
        return d + "/"
    if z < 0.7:
        return d + "/."
    if z < 0.78:
        return d + "//"
    if z < 0.86 and "/" in d[2:]:
        i = d.index("/", 2)
        return d[:i] + rng.choice(["//", "/./"]) + d[i + 1:]
    if z < 0.93 and not d.startswith("/"):
        return "./" + d
    if z < 0.97 and d.startswith("/") and not d.startswith("//"):
        return "//" + d            # three slashes: still the root "/"
    return d


def _ancestors(base):
    p = PurePosixPath(base)
    out, cur = [], p
    while True:
        out.append(str(cur))
        if cur.parent == cur:
            break
        cur = cur.parent
    return out


def _flip_unicode(s):
    for form in ("NFC", "NFD"):
        t = unicodedata.normalize(form, s)
        if t != s:
            return t
    return None


def _outside_dirs(base):
    """directories that do *not* contain `base` lexically but look as if they might: siblings sharing a string
    prefix, children, another case, the other unicode normal form, the other anchor, `..` spellings"""
    b = base if base != "" else "."
    out = []
    if b.strip("/") and b != ".":
        out += [b + "2", b + " ", b + "_backup", b + "/deeper/still", b.upper(), b + "/..", b + "/sub/.."]
        out.append(b.rstrip("/")[:-1] or "x")                   # a proper string prefix of the name
        out.append(b.lstrip("/") if b.startswith("/") else "/" + b)       # relative <-> absolute
        if b.startswith("/") and not b.startswith("//"):
            out.append("/" + b)                                  # two slashes: another root
        f = _flip_unicode(b)
        if f:
            out.append(f)
        out.append(str(PurePosixPath(b).parent / "other"))
    else:
        out += ["/x/y", "x", "//"] if b != "." else ["/", "x", ".."]
    out.append("/unrelated")
    return [o for o in out if o != base]


def _pick_how(ctx, rng, who):
    how = rng.choice(DIR_KINDS_LOAD if who.startswith("load") else DIR_KINDS_SAVE)
    ctx.tally(f"{who} audio_dir as " + how)
    return how


def _routes_opts(rng):
    """the public route and options of a save / load: mostly soundevent.io with format='aoef'"""
    z = rng.random()
    o = {}
    if rng.random() < 0.35:
        o["build"] = rng.choice(BUILD_HOWS[1:])
    if rng.random() < 0.15:
        o["rec_path_as"] = "str"
    if rng.random() < 0.3:
        o["target_as"] = rng.choice(["path", "fspath", "pure"])
    if z < 0.5:
        return o
    if z < 0.6:
        return {"format": None, **o}
    if z < 0.68:
        return {"api": "aoef", **o}
    if z < 0.76:
        return {"api": rng.choice(["convert", "convert_positional"]), **o}
    if z < 0.82:
        return {"api": "positional", **o}
    if z < 0.88:
        return {"api": "positional_full", **({"type": True} if rng.random() < 0.5 else {}), **o}
    if z < 0.94:
        return {"api": "aoef_positional", **({"type": True} if rng.random() < 0.5 else {}), **o}
    return {"type": True, **o}


def _collection_cases(ctx, rng, n_per_type):
    stored, reloc, many, chain = [], [], [], []
    for ty in aoefgen.TYPES:
        for k in range(n_per_type):
            base = rng.choice(DIRS)
            cj = PGen(rng, rich=rng.random() < 0.3, base=base, size=0.8).collection(ty)
            hs, hl = _pick_how(ctx, rng, "save:"), _pick_how(ctx, rng, "load:")
            ctx.tally("type:" + ty)
            ctx.tally("recordings under an absolute directory" if base.startswith("/") else "recordings under a relative directory")
            # inside: save under the base or one of its (lexical) ancestors
            anc = rng.choice(_ancestors(base or ".")) if rng.random() < 0.3 else base
            A = _dir_variant(rng, anc)
            opts = _routes_opts(rng)
            sopts = {k: v for k, v in opts.items() if k != "type"}
            for o in opts:
                ctx.tally(f"route/option {o}={opts[o]}")
            stored.append({"collection": cj, "audio_dir": A, "dir_as": hs, **sopts})
            stored.append({"collection": cj, "audio_dir": None, "dir_as": hs})
            B = _dir_variant(rng, rng.choice(LOAD_DIRS))
            reloc.append({"collection": cj, "save_dir": A, "load_dir": B, "dir_as": hs, "load_as": hl, **opts})
            reloc.append({"collection": cj, "save_dir": None, "load_dir": None, "dir_as": hs, "load_as": hl})
            z = rng.random()
            if z < 0.3:
                reloc.append({"collection": cj, "save_dir": None, "load_dir": B, "dir_as": hs, "load_as": hl, **opts})
            elif z < 0.5:
                reloc.append({"collection": cj, "save_dir": A, "load_dir": None, "dir_as": hs, "load_as": hl, **opts})
            # outside
            out = rng.choice(_outside_dirs(base))
            pre = rng.choice([None, None, "file", "fresh_dir"])
            stored.append({"collection": cj, "audio_dir": out, "dir_as": hs, **sopts, **({"pre": pre} if pre else {})})
            ctx.tally("outside-directory candidate" + (f" ({pre})" if pre else ""))
            if k % 4 == 0:
                Bs = [_dir_variant(rng, rng.choice(LOAD_DIRS)) for _ in range(3)] + [None, B]
                many.append({"collection": cj, "save_dir": A, "dir_as": hs, "load_dirs": Bs,
                             "load_as": [rng.choice(["str", "path"]) for _ in Bs]})
            if k % 4 == 1:
                B1, B2 = rng.choice(LOAD_DIRS), rng.choice(LOAD_DIRS)
                chain.append({"collection": cj, "steps": [
                    {"save_dir": A, "load_dir": B1, "dir_as": hs, "load_as": hl},
                    {"save_dir": _dir_variant(rng, B1), "load_dir": B2, "dir_as": hl, "load_as": hl},
                    {"save_dir": rng.choice([B2, None, "/nowhere"]), "load_dir": None, "dir_as": hs, "load_as": hl}]})
    return stored, reloc, many, chain


# -- recordings reachable by one route only ------------------------------------------------------------------
ANN_TYPES = ("annotation_set", "annotation_project", "evaluation_set")
PRED_TYPES = ("prediction_set", "model_run")
ROUTES = {
    "recording_set": ["member_first", "member_middle", "member_last"],
    "dataset": ["member_first", "member_middle", "member_last"],
    "annotation_set": ["clip", "sound_event", "sequence", "parent_sequence"],
    "annotation_project": ["clip", "sound_event", "sequence", "parent_sequence", "task"],
    "evaluation_set": ["clip", "sound_event", "sequence", "parent_sequence"],
    "prediction_set": ["clip", "sound_event", "sequence", "parent_sequence"],
    "model_run": ["clip", "sound_event", "sequence", "parent_sequence"],
    "evaluation": ["clip", "ann_sound_event", "ann_sequence", "pred_sound_event", "pred_sequence", "pred_parent_sequence"],
}


def _route_collection(rng, ty, route, star_path, base):
    """a collection of type `ty` whose recordings lie under `base`, plus one more recording at `star_path` that is
    reachable through `route` only"""
    g = PGen(rng, base=base, size=0.7, itself=0.0)
    star = dict(g.recording(99), path=star_path)

    def with_star(f):
        old = g.recordings
        g.recordings = [star]
        try:
            return f()
        finally:
            g.recordings = old

    def seq_of(ses, parent=None):
        return {"uuid": g.uid(), "sound_events": ses, "features": g.features(2), "parent": parent}

    def star_seq(deep):
        s = seq_of([with_star(g.sound_event)])
        if deep:
            s = seq_of([copy.deepcopy(rng.choice(g.ses))], parent=seq_of([], parent=s))
        return s

    cj = g.collection(ty)
    v = cj["value"]
    if ty in ("recording_set", "dataset"):
        recs = [copy.deepcopy(r) for r in g.recordings] + [g.recording(50 + i) for i in range(2)]
        i = {"member_first": 0, "member_middle": len(recs) // 2, "member_last": len(recs)}[route]
        v["recordings"] = recs[:i] + [star] + recs[i:]
        return cj
    if ty in ANN_TYPES:
        ca = g.ca()
        if route == "clip" or route == "task":
            sc = with_star(g.clip)
            if route == "clip":
                ca = g.ca(sc)
        elif route == "sound_event":
            ca["sound_events"].append(dict(g.sea(), sound_event=with_star(g.sound_event)))
        else:
            ca["sequences"].append(dict(g.sqa(), sequence=star_seq(route == "parent_sequence")))
        v["clip_annotations"].insert(rng.randint(0, len(v["clip_annotations"])), ca)
        if ty == "annotation_project":
            v["tasks"].append(g.task(ca["clip"]))
            if route == "task":
                v["tasks"].insert(0, g.task(sc))
        return cj
    if ty in PRED_TYPES:
        cp = g.cp()
        if route == "clip":
            cp = g.cp(with_star(g.clip))
        elif route == "sound_event":
            cp["sound_events"].append(dict(g.sep(), sound_event=with_star(g.sound_event)))
        else:
            cp["sequences"].append(dict(g.sqp(), sequence=star_seq(route == "parent_sequence")))
        v["clip_predictions"].insert(rng.randint(0, len(v["clip_predictions"])), cp)
        return cj
    # evaluation
    if route == "clip":
        old = g.clips
        g.clips = [with_star(g.clip)]
        try:
            ce = g.ce()
        finally:
            g.clips = old
    else:
        ce = g.ce()
        if route == "ann_sound_event":
            a = dict(g.sea(), sound_event=with_star(g.sound_event))
            ce["annotations"]["sound_events"].append(a)
            ce["matches"].append(g.match(None, a))
        elif route == "pred_sound_event":
            p = dict(g.sep(), sound_event=with_star(g.sound_event))
            ce["predictions"]["sound_events"].append(p)
            ce["matches"].insert(0, g.match(p, None))
        elif route == "ann_sequence":
            ce["annotations"]["sequences"].append(dict(g.sqa(), sequence=star_seq(False)))
        else:
            ce["predictions"]["sequences"].append(dict(g.sqp(), sequence=star_seq(route == "pred_parent_sequence")))
    v["clip_evaluations"].insert(rng.randint(0, len(v["clip_evaluations"])), ce)
    return cj


def _share_uuids_across_kinds(cj):
    """the same collection with one uuid used by objects of different kinds (the collection itself, its first
    member, that member's recording): uuids identify objects within their kind only"""
    cj = copy.deepcopy(cj)
    v = cj["value"]
    recs = _all_recordings(cj)
    if not recs:
        return None
    members = v.get("clip_annotations") or v.get("clip_predictions") or []
    if members:
        u = members[0]["clip"]["recording"]["uuid"]
        if all(m["uuid"] != u for m in members):
            members[0]["uuid"] = u
        v["uuid"] = u
    else:
        v["uuid"] = recs[0][0]
    return cj


def _route_cases(ctx, rng, reps=1):
    """every route by which a recording can be reached, per collection type: the recording inside the directory
    (stored relative, relocated) and outside it (the whole save fails, nothing is left behind)"""
    stored, reloc = [], []
    for ty, routes in ROUTES.items():
        for route in routes:
            for _ in range(reps):
                base = rng.choice(["/data/audio", "/a b/ünï/x.y", "rel/dir", "/data/ audio ", "/"])
                inside = PGen(rng, base=base, itself=0.0, size=0.0).path(7)
                outside = rng.choice(["/data/audio2/stray.wav", "/elsewhere/x.wav", "stray.wav", "/data/stray.wav",
                                      "rel/dir2/x.wav", "/a b/ünï/x.y2/z.wav", "//data/audio/x.wav"])
                if base == "/":
                    outside = rng.choice(["stray.wav", "//x/stray.wav", "rel/x.wav"])
                hs, hl = rng.choice(["str", "path"]), rng.choice(["str", "path"])
                cin = _route_collection(rng, ty, route, inside, base)
                cout = _route_collection(rng, ty, route, outside, base)
                A = _dir_variant(rng, base)
                stored.append({"collection": cin, "audio_dir": A, "dir_as": hs})
                reloc.append({"collection": cin, "save_dir": A, "load_dir": rng.choice(LOAD_DIRS), "dir_as": hs, "load_as": hl})
                pre = rng.choice([None, "file", "fresh_dir"])
                stored.append({"collection": cout, "audio_dir": A, "dir_as": hs, **({"pre": pre} if pre else {})})
                ctx.tally(f"route {ty}:{route}")
                # the same route when the collection is an instance of a user-defined subclass of its class (the
                # adapter is then found by isinstance, not by the exact class), and when it was built by validation
                # (every occurrence of the recording its own Python object, paths given as str)
                for how, rp in (("subclass", None), (rng.choice(["validate", "validate_json", "subclass_validate", "copy_deep"]),
                                                    rng.choice([None, "str"]))):
                    extra = {"build": how, **({"rec_path_as": rp} if rp else {})}
                    stored.append({"collection": cin, "audio_dir": A, "dir_as": rng.choice(DIR_KINDS_SAVE), **extra})
                    stored.append({"collection": cout, "audio_dir": A, "dir_as": rng.choice(DIR_KINDS_SAVE), **extra})
                    reloc.append({"collection": cin, "save_dir": A, "load_dir": rng.choice(LOAD_DIRS),
                                  "dir_as": rng.choice(DIR_KINDS_SAVE), "load_as": rng.choice(DIR_KINDS_LOAD), **extra})
                    ctx.tally(f"route cases built by {how}" + (", paths as str" if rp else ""), 3)
                shared = _share_uuids_across_kinds(cin)
                if shared is not None and ty != "evaluation":
                    stored.append({"collection": shared, "audio_dir": A, "dir_as": hs})
                    reloc.append({"collection": shared, "save_dir": A, "load_dir": rng.choice(LOAD_DIRS), "dir_as": hs, "load_as": hl})
                    ctx.tally("route cases with one uuid shared across kinds", 2)
    return stored, reloc


# -- small-scope exhaustive grid -------------------------------------------------------------------------------
GRID_REC = ["/data/audio/x.wav", "/data/audio/sub/x.wav", "/data/audio", "/data/audio/../audio/x.wav", "/data/audio/audio",
            "/data/audio2/x.wav", "/data/x.wav", "data/audio/x.wav", "x.wav", "//data/audio/x.wav", "/data/audio/ x.wav ",
            "/data/audio/e\u0301.wav", "/data/audio/.../x.wav", "/x.wav", "~/x.wav"]
GRID_SAVE = [None, "/data/audio", "/data/audio/", "/data", "/", "data/audio", "", "/data/audio/sub/..", "/data/audio2",
             "//data/audio", "/data/aud", "/DATA/audio", "~"]
GRID_LOAD = [None, "/mnt/b", "/", "", "b c/", "//net/x", "..", "~/b"]


def _minimal(rng, ty, path):
    """the smallest collection of type `ty` with one recording at `path`"""
    g = PGen(rng, base="/data/audio", size=0.0, itself=0.0)
    rec = dict(g.recording(0), path=path)
    g.recordings = [rec]
    g.clips = [g.clip()]
    g.ses = [g.sound_event(0)]
    g.seqs = [{"uuid": g.uid(), "sound_events": [copy.deepcopy(g.ses[0])], "features": [], "parent": None}]
    g.seas, g.sqas, g.seps, g.sqps = [g.sea()], [g.sqa()], [g.sep()], [g.sqp()]
    cj = g.collection(ty)
    v = cj["value"]
    if ty in ("recording_set", "dataset"):
        v["recordings"] = [rec]
    elif ty in ANN_TYPES and not v["clip_annotations"]:
        v["clip_annotations"] = [g.ca()]
        if ty == "annotation_project":
            v["tasks"] = [g.task(v["clip_annotations"][0]["clip"])]
    elif ty in PRED_TYPES and not v["clip_predictions"]:
        v["clip_predictions"] = [g.cp()]
    elif ty == "evaluation" and not v["clip_evaluations"]:
        v["clip_evaluations"] = [g.ce()]
    return cj


def _grid_cases(ctx):
    rng = random.Random("C18-grid")
    stored, reloc = [], []
    n = 0
    for ty in aoefgen.TYPES:
        minimal = {p: _minimal(rng, ty, p) for p in GRID_REC}
        for p, A in itertools.product(GRID_REC, GRID_SAVE):
            n += 1
            how = DIR_KINDS_SAVE[n % 4]
            stored.append({"collection": minimal[p], "audio_dir": A, "dir_as": how})
            fails = _want_relocated({"r": p}, A, None) is None
            for B in GRID_LOAD:
                n += 1
                if B is None or (not fails and (n + len(p)) % 4 == 0):
                    reloc.append({"collection": minimal[p], "save_dir": A, "load_dir": B, "dir_as": how,
                                  "load_as": DIR_KINDS_LOAD[n % 3]})
    ctx.exhaustive["stored: 8 types x recording path x save directory (directory as str / Path / os.PathLike / PurePosixPath in turn)"] = {
        "types": len(aoefgen.TYPES), "recording_paths": GRID_REC, "save_dirs": GRID_SAVE, "cases": len(stored)}
    ctx.exhaustive["relocate: 8 types x recording path x save directory x (load directory: None always; the others 1 in 4 when the save succeeds)"] = {
        "load_dirs": GRID_LOAD, "cases": len(reloc)}
    return stored, reloc


PRODUCT_APIS = [{}, {"format": None}, {"api": "aoef"}, {"api": "positional"}, {"api": "positional_full"},
                {"api": "aoef_positional"}, {"api": "convert"}, {"api": "convert_positional"}]


def _product_cases(ctx):
    """the options of the public functions against each other and against the input classes (HISTORIES.md 3):
    collection type x public route (keyword and positional) x kind of the directory argument x recording inside /
    outside, with the construction path, the kind of `Recording.path` and the kind of the file name taken in turn"""
    rng = random.Random("C18-product")
    stored, reloc = [], []
    n = 0
    for ty in aoefgen.TYPES:
        cin = _minimal(rng, ty, "/data/audio/sub dir/x.wav")
        cout = _minimal(rng, ty, "/data/audio2/x.wav")
        for api in PRODUCT_APIS:
            for how in DIR_KINDS_SAVE:
                for cj in (cin, cout):
                    n += 1
                    extra = {"build": BUILD_HOWS[n % len(BUILD_HOWS)], "target_as": ["str", "path", "fspath", "pure"][(n // 2) % 4]}
                    if n % 3 == 0:
                        extra["rec_path_as"] = "str"
                    if cj is cout:
                        extra["pre"] = [None, "file", "longer", "fresh_dir"][(n // 2) % 4]
                    stored.append({"collection": cj, "audio_dir": "/data/audio" if n % 5 else "/data/audio/", "dir_as": how,
                                   **api, **{k: v for k, v in extra.items() if v}})
            for hl in DIR_KINDS_LOAD:
                for with_type in ((False, True) if api.get("api") in (None, "aoef", "positional_full", "aoef_positional") else (False,)):
                    n += 1
                    reloc.append({"collection": cin, "save_dir": "/data/audio", "load_dir": ["/mnt/b", "rel b", "/", None][n % 4],
                                  "dir_as": DIR_KINDS_SAVE[n % 4], "load_as": hl, **api, **({"type": True} if with_type else {}),
                                  "build": BUILD_HOWS[n % len(BUILD_HOWS)], "target_as": ["str", "path", "fspath", "pure"][n % 4]})
    ctx.exhaustive["stored: 8 types x 8 public routes (keyword / positional / converters) x 4 kinds of audio_dir x inside / outside"] = {
        "routes": PRODUCT_APIS, "dir_kinds": DIR_KINDS_SAVE, "cases": len(stored)}
    ctx.exhaustive["relocate: 8 types x 8 public routes x 3 kinds of load directory x with / without type="] = {
        "load_dir_kinds": DIR_KINDS_LOAD, "cases": len(reloc)}
    return stored, reloc


def _disk_cases(ctx):
    """the same questions about paths that exist: real files under A (and under B, not under C), a symbolic link
    L -> A and one inside A; pathlib's answers are lexical, so nothing may depend on what is on disk"""
    rng = random.Random("C18-disk")
    R = DISK_ROOT
    stored, reloc = [], []
    rels = ["x.wav", "sub dir/y.wav", "sub dir/deeper/z.wav", "sub link/y.wav", "missing.wav", "empty"]
    for ty in aoefgen.TYPES:
        for base in ("A", "L"):
            for rel in rels:
                cj = _minimal(rng, ty, f"{R}/{base}/{rel}")
                how = rng.choice(["str", "path"])
                stored.append({"collection": cj, "audio_dir": f"{R}/{base}", "dir_as": how, "disk": DISK_TREE})
                other = "L" if base == "A" else "A"       # the same directory through / not through the link: outside
                stored.append({"collection": cj, "audio_dir": f"{R}/{other}", "dir_as": how, "disk": DISK_TREE})
                for B in (f"{R}/B", f"{R}/C", f"{R}/L", f"{R}/missing", R, None):
                    if rng.random() < 0.5:
                        reloc.append({"collection": cj, "save_dir": f"{R}/{base}", "load_dir": B, "dir_as": how,
                                      "load_as": rng.choice(["str", "path"]), "disk": DISK_TREE})
                if rng.random() < 0.3:
                    reloc.append({"collection": cj, "save_dir": None, "load_dir": f"{R}/B", "dir_as": how, "disk": DISK_TREE})
    ctx.tally("cases with paths that exist on disk (files, directories, symbolic links)", len(stored) + len(reloc))
    return stored, reloc


def _py_coherent(cj):
    """coherence of a generated collection, checked on the JSON itself (the part of `WF` that the generator can break:
    every object with one uuid is one value; the collection's own member lists have distinct uuids).  Used instead of
    the model's `wf` for the very large collections only, where the model's quadratic test takes minutes."""
    seen = {}

    def walk(x):
        if isinstance(x, dict):
            u = x.get("uuid")
            if u is not None:
                first = seen.setdefault(u, x)
                if first is not x and first != x:
                    return False
            return all(walk(v) for v in x.values())
        if isinstance(x, list):
            return all(walk(v) for v in x)
        return True
    if not walk(cj):
        return False
    for key in ("recordings", "clip_annotations", "clip_predictions", "clip_evaluations", "tasks"):
        ms = cj["value"].get(key)
        if ms is not None and len({m["uuid"] for m in ms}) != len(ms):
            return False
    return True


def _large_collection(rng, ty, n, lean=0.8):
    """a collection of type `ty` with `n` recordings, each reached through its own clip (member lists for the
    two recording-list types); the second result is the recordings in member order"""
    g = PGen(rng, base="/data/audio", size=lean, itself=0.0)
    g.recordings = [g.recording(i) for i in range(n)]
    if n > 36:       # keep the very large ones small per recording: the paths are what matters here
        for r in g.recordings:
            r.update(owners=[], tags=r["tags"][:1], features=[], notes=[])
    g.clips = [dict(g.clip(), recording=copy.deepcopy(r)) for r in g.recordings]
    cj = g.collection(ty)
    v = cj["value"]
    if ty in ("recording_set", "dataset"):
        v["recordings"] = copy.deepcopy(g.recordings)
    elif ty in ANN_TYPES:
        v["clip_annotations"] = [g.ca(copy.deepcopy(c)) for c in g.clips]
        if ty == "annotation_project":
            v["tasks"] = [g.task(c) for c in g.clips]
    elif ty in PRED_TYPES:
        v["clip_predictions"] = [g.cp(copy.deepcopy(c)) for c in g.clips]
    else:
        old = g.clips
        ces = []
        for c in old:
            g.clips = [c]
            ces.append(g.ce())
        g.clips = old
        v["clip_evaluations"] = ces
    return cj, g.recordings


def _with_outsider(cj, uuid, path="/data/audio2/stray.wav"):
    bad = copy.deepcopy(cj)

    def move(x):
        if isinstance(x, dict):
            if x.get("uuid") == uuid and "samplerate" in x:
                x["path"] = path
            for y in x.values():
                move(y)
        elif isinstance(x, list):
            for y in x:
                move(y)
    move(bad)
    return bad


def _large_cases(ctx):
    """collections far larger than the generator's usual ones, at the sizes where an implementation could switch
    strategy (more than 16, more than 256, 1024 and more recordings: sorting, chunking, batching): every recording
    inside, and the outsider first / in the middle / last.  -> (cases checked by the model's `wf`, cases checked by
    `_py_coherent`)"""
    rng = random.Random("C18-large")
    small, huge = ([], []), ([], [])
    full = ctx.thorough()
    plan = {   # type -> [(number of recordings, positions of the outsider: first / middle / last)]
        "recording_set": [(17, "fml"), (257, "f"), (1024, "m"), (1025, "l")],
        "dataset": [(17, "fml"), (1100, "l")] + ([(257, "m"), (1024, "f")] if full else []),
        "annotation_project": [(17, "fml"), (257, "m")] + ([(1030, "l")] if full else []),
        "prediction_set": [(17, "fml"), (36, "m")] + ([(257, "f"), (1030, "l")] if full else []),
        "evaluation": [(17, "fml"), (257, "l")] + ([(1030, "m")] if full else []),
    }
    for ty in aoefgen.TYPES:
        member = ty in ("recording_set", "dataset")
        for n, positions in plan.get(ty, [(17, "fml"), (36, "l")] + ([(257, "f"), (1030, "l")] if full else [])):
            cj, recs = _large_collection(rng, ty, n, lean=0.8 if n <= 36 else 0.0)
            stored, reloc = small if (member or n <= 36) else huge
            hs, hl = rng.choice(DIR_KINDS_SAVE), rng.choice(DIR_KINDS_LOAD)
            stored.append({"collection": cj, "audio_dir": "/data/audio", "dir_as": hs})
            reloc.append({"collection": cj, "save_dir": "/data/audio/", "load_dir": "/mnt/other disk", "dir_as": hs, "load_as": hl})
            for where in positions:
                i = {"f": 0, "m": n // 2, "l": n - 1}[where]
                stored.append({"collection": _with_outsider(cj, recs[i]["uuid"]), "audio_dir": "/data/audio",
                               "dir_as": rng.choice(DIR_KINDS_SAVE), "pre": rng.choice(["file", "longer"])})
            ctx.tally(f"large collection: {ty} with {n} recordings", 2 + len(positions))
    return small, huge


# -- sessions ---------------------------------------------------------------------------------------------------
def _opts(rng, load=False):
    """how one save / load of a session is called: directory kind, public route, kind of the file name"""
    o = {"dir_as": rng.choice(DIR_KINDS_LOAD if load else DIR_KINDS_SAVE), "api": rng.choice(FILE_APIS),
         "target_as": rng.choice(["str", "str", "path", "fspath", "pure"])}
    if o["api"] == "io" and rng.random() < 0.2:
        o["format"] = None
    return o


def _inside_name(rng, base, tag):
    name = rng.choice(["moved.wav", "ñ moved.wav", " moved ", "sub/moved.wav", "estacio\u0301n.wav"])
    return str(PurePosixPath(base or ".") / f"{tag}" / name)


def _session_templates(ctx, rng, ty, which):
    """one session of each kind for the collection type `ty` (see HISTORIES.md section 1)"""
    base = rng.choice(["/data/audio", "/a b/ünï/x.y", "rel/dir", "/data/ audio ", "/", "", "~/audio", "/data/../data/audio"])
    other = rng.choice(["/mnt/other disk", "elsewhere", "/mnt/b", "//net/x", "~", "/mnt/ b "])
    third = rng.choice(["/srv/third", "third dir", "/"])
    A = _dir_variant(rng, base)
    anc = _dir_variant(rng, rng.choice(_ancestors(base or ".")))
    outside = rng.choice(_outside_dirs(base))
    big = PGen(rng, rich=rng.random() < 0.3, base=base, size=1.2, itself=0.0).collection(ty)
    route = rng.choice(ROUTES[ty])
    if not _all_recordings(big) or rng.random() < 0.5:
        big = _route_collection(rng, ty, route, PGen(rng, base=base, itself=0.0, size=0.0).path(3), base)
    small_ty = ty if rng.random() < 0.7 else rng.choice(aoefgen.TYPES)
    small = _minimal(rng, small_ty, str(PurePosixPath(base or ".") / "only one.wav"))
    stray = "/somewhere else/stray.wav" if not base.startswith("/somewhere") else "/x/stray.wav"
    if base == "/":
        stray = "relative/stray.wav"
    bad = _route_collection(rng, ty, rng.choice(ROUTES[ty]), stray, base)
    recs = _all_recordings(big)
    P = rng.choice(recs)[1] if recs else None
    sv = lambda obj, f, d, **kw: {"do": "save", "obj": obj, "file": f, "audio_dir": d, **_opts(rng), **kw}
    ld = lambda f, d, into, **kw: {"do": "load", "file": f, "audio_dir": d, "into": into, **_opts(rng, load=True), **kw}
    put = lambda obj, cj, how="ctor", **kw: {"do": "put", "obj": obj, "collection": cj, "how": how, **kw}
    how = rng.choice(BUILD_HOWS)
    ctx.tally("session kind: " + which)
    if which == "same target: longer, shorter, longer":
        return [put("a", big, how), put("b", small), sv("a", "f", A), ld("f", other, "x"), sv("b", "f", anc),
                ld("f", third, "y"), sv("a", "f", None), ld("f", None, "z"), sv("b", "f", None), ld("f", other, "w")]
    if which == "failing save over an existing file":
        return [put("a", big), put("bad", bad, how), sv("a", "f", A), sv("bad", "f", A), ld("f", other, "x"),
                sv("a", "f", outside), ld("f", third, "y"), sv("bad", "g", A), sv("a", "g", anc), ld("g", other, "z")]
    if which == "same objects, other directories and files":
        return [put("a", big, how), sv("a", "f", A), sv("a", "g", anc), sv("a", "f", None), ld("g", other, "x"),
                ld("f", other, "y"), sv("a", "g", outside), ld("g", None, "z"), sv("a", "f", A), ld("f", third, "w")]
    if which == "recording moved after the first save" and P is not None:
        P2 = _inside_name(rng, base, "m1")
        P3 = "/moved right out/of it.wav" if base != "/" else "moved right out/of it.wav"
        h1, h2 = rng.choice(MOVE_HOWS), rng.choice(MOVE_HOWS)
        return [put("a", big, how), sv("a", "f", A), {"do": "move", "obj": "a", "src": P, "dst": P2, "how": h1},
                sv("a", "g", A), ld("g", other, "x"), ld("f", other, "y"),
                {"do": "move", "obj": "a", "src": P2, "dst": P3, "how": h2}, sv("a", "f", A), ld("f", third, "z"),
                sv("a", "f", None), ld("f", third, "w")]
    if which == "loaded object changed and saved back" and P is not None:
        try:
            rel = PurePosixPath(P).relative_to(PurePosixPath(A))
        except ValueError:
            return None
        Q = str(PurePosixPath(other) / rel)
        Q2 = _inside_name(rng, other, "m2")
        return [put("a", big), sv("a", "f", A), ld("f", other, "x"),
                {"do": "move", "obj": "x", "src": Q, "dst": Q2, "how": rng.choice(MOVE_HOWS)}, sv("x", "f", other),
                ld("f", third, "y"), sv("y", "g", third), ld("g", None, "z"), sv("a", "f", anc), ld("f", other, "w")]
    if which == "caller changes a loaded object":
        return [put("a", big, how), sv("a", "f", A), ld("f", other, "x"), {"do": "poison", "obj": "x"}, ld("f", other, "y"),
                ld("f", third, "z"), {"do": "poison", "obj": "y"}, ld("f", other, "w"), sv("a", "f", anc), ld("f", other, "v")]
    if which == "one document converted several times":
        if _converters() is None:
            return None
        cv = lambda obj, doc, d: {"do": "convert", "obj": obj, "doc": doc, "audio_dir": d, "dir_as": rng.choice(DIR_KINDS_SAVE),
                                  **({"positional": True} if rng.random() < 0.3 else {})}
        rv = lambda doc, d, into: {"do": "revive", "doc": doc, "audio_dir": d, "into": into, "dir_as": rng.choice(DIR_KINDS_LOAD),
                                   **({"positional": True} if rng.random() < 0.3 else {})}
        return [put("a", big, how), cv("a", "D", A), rv("D", other, "x"), rv("D", third, "y"), rv("D", None, "z"),
                {"do": "dump", "doc": "D", "file": "f"}, ld("f", third, "w"), {"do": "parse", "file": "f", "doc": "E"},
                rv("E", other, "u"), rv("E", third, "v"), rv("D", other, "t"), cv("a", "D", anc), rv("D", third, "s"),
                cv("a", "F", outside), {"do": "dump", "doc": "E", "file": "g"}, ld("g", None, "r")]
    if which == "construction paths of one content":
        hows = rng.sample(BUILD_HOWS, 3)
        steps = []
        for i, h in enumerate(hows):
            steps += [put(f"a{i}", big, h, **({"rec_path_as": "str"} if rng.random() < 0.4 else {})),
                      sv(f"a{i}", "f", rng.choice([A, anc])), ld("f", rng.choice([other, third]), f"x{i}")]
        return steps + [sv("a0", "g", outside), sv("a1", "g", None), ld("g", other, "y")]
    return None


SESSION_KINDS = ["same target: longer, shorter, longer", "failing save over an existing file",
                 "same objects, other directories and files", "recording moved after the first save",
                 "loaded object changed and saved back", "caller changes a loaded object",
                 "one document converted several times", "construction paths of one content"]


def _random_session(ctx, rng, ty):
    """a random walk over the steps, kept inside what the session has (objects that exist, files that were
    written); three saves in four use a directory that contains every recording of the object"""
    base = rng.choice(DIRS + ["~/audio"])
    pool = LOAD_DIRS + [base]
    steps = [{"do": "put", "obj": "a", "collection": PGen(rng, base=base, size=0.8, itself=0.0).collection(ty),
              "how": rng.choice(BUILD_HOWS)}]
    if rng.random() < 0.5:
        ty2 = ty if rng.random() < 0.6 else rng.choice(aoefgen.TYPES)
        steps.append({"do": "put", "obj": "b", "collection": PGen(rng, base=base, size=0.5, itself=0.0).collection(ty2),
                      "how": rng.choice(BUILD_HOWS)})
    n_into = 0
    conv = _converters() is not None
    for _ in range(rng.randint(5, 9)):
        want = _session_oracle(steps)
        files, docs = set(), set()
        # replay the oracle's bookkeeping (objects alive with their paths, files written)
        cur = {}
        for st, w in zip(steps, want):
            if st["do"] in ("put", "move") and w[0] == "recs":
                cur[st["obj"]] = w[1]
            elif st["do"] == "load" and w[0] == "recs":
                cur[st["into"]] = w[1]
            elif st["do"] == "save" and w[0] == "stored":
                files.add(st["file"])
            elif st["do"] == "convert" and w[0] == "stored":
                docs.add(st["doc"])
            elif st["do"] == "poison":
                cur.pop(st["obj"], None)
        z = rng.random()
        if z < 0.45 or not (files or docs):
            k = rng.choice(sorted(cur))
            cands = [None] + [_dir_variant(rng, d) for d in rng.sample(pool, 4)]
            inside = [d for d in cands if _want_relocated(cur[k], d, None) is not None]
            d = rng.choice(inside) if inside and rng.random() < 0.75 else rng.choice(cands)
            if conv and rng.random() < 0.2:
                steps.append({"do": "convert", "obj": k, "doc": rng.choice(["D", "E"]), "audio_dir": d,
                              "dir_as": rng.choice(DIR_KINDS_SAVE)})
            else:
                steps.append({"do": "save", "obj": k, "file": rng.choice(["f", "f", "g"]), "audio_dir": d, **_opts(rng)})
        elif z < 0.8:
            n_into += 1
            if docs and rng.random() < 0.4:
                steps.append({"do": "revive", "doc": rng.choice(sorted(docs)), "audio_dir": rng.choice([None] + rng.sample(pool, 3)),
                              "into": rng.choice(["x", "y", f"l{n_into}"]), "dir_as": rng.choice(DIR_KINDS_LOAD)})
                continue
            if not files:
                continue
            steps.append({"do": "load", "file": rng.choice(sorted(files)), "audio_dir": rng.choice([None] + rng.sample(pool, 3)),
                          "into": rng.choice(["x", "y", f"l{n_into}"]), **_opts(rng, load=True)})
        elif z < 0.93:
            k = rng.choice(sorted(cur))
            if cur[k]:
                src = rng.choice(sorted(cur[k].values()))
                home = str(PurePosixPath(src).parent)
                steps.append({"do": "move", "obj": k, "src": src, "dst": _inside_name(rng, home, f"m{len(steps)}"),
                              "how": rng.choice(MOVE_HOWS)})
        else:
            loaded = [k for k in cur if k not in ("a", "b")]
            if loaded:
                steps.append({"do": "poison", "obj": rng.choice(sorted(loaded))})
    ctx.tally("session kind: random walk")
    return steps


def _session_cases(ctx, rng, reps, walks):
    cases = []
    for ty in aoefgen.TYPES:
        for _ in range(reps):
            for which in SESSION_KINDS:
                steps = _session_templates(ctx, rng, ty, which)
                if steps:
                    cases.append({"steps": steps})
        for _ in range(walks):
            cases.append({"steps": _random_session(ctx, rng, ty)})
    for c in cases:
        for st in c["steps"]:
            ctx.tally("session step: " + st["do"] + (" by " + st["how"] if st["do"] in ("put", "move") else ""))
            if st["do"] in ("convert", "revive"):
                ctx.tally(f"session {st['do']}: " + (f"audio_dir as {st['dir_as']}" if st.get("audio_dir") is not None else "no audio_dir")
                          + (", positional" if st.get("positional") else ""))
            if st["do"] in ("save", "load"):
                ctx.tally(f"session {st['do']}: audio_dir as {st['dir_as']}" if st.get("audio_dir") is not None
                          else f"session {st['do']}: no audio_dir")
                ctx.tally(f"session {st['do']}: route {st['api']}, file name as {st['target_as']}")
    return cases


def _wf_sessions(ctx, cases):
    """the theorems' hypothesis (`WF`) on every content a session puts"""
    flat = [(i, st["collection"]) for i, c in enumerate(cases) for st in c["steps"] if st["do"] == "put"]
    oks = ctx.driver.call_many("C01", "wf", [{"collection": cj} for _i, cj in flat])
    bad = {i for (i, _cj), ok in zip(flat, oks) if not ok}
    if bad:
        ctx.tally("generated sessions outside the quantifier (a content not well formed), dropped", len(bad))
    return [c for i, c in enumerate(cases) if i not in bad]


def _mixed_outside(rng):
    """one recording of several lies outside the directory: the whole save must fail"""
    cases = []
    for ty in aoefgen.TYPES:
        g = aoefgen.Gen(rng, base="/data/audio", size=0.8)
        g.recordings.append(dict(g.recording(), path="/data/audio2/stray.wav"))
        g.clips = [g.clip() for _ in range(4)]
        g.ses = [g.sound_event(i) for i in range(5)]
        cj = g.collection(ty)
        cases.append({"collection": cj, "audio_dir": "/data/audio", "dir_as": "str"})
    return cases


def _path_cases(rng, n):
    ps, rels, joins = [], [], []
    for _ in range(n):
        p = gen_path(rng)
        ps.append({"p": p})
        d = gen_path(rng)
        if rng.random() < 0.6:      # make d an ancestor of p (in messy spelling)
            q = PurePosixPath(p)
            k = rng.randint(0, len(q.parts))
            d = str(PurePosixPath(*q.parts[:k])) if k else ("" if not q.is_absolute() else "/")
            if d and rng.random() < 0.3:
                d += "/"
        rels.append({"p": p, "d": d})
        joins.append({"d": gen_path(rng), "p": gen_path(rng, absolute=rng.random() < 0.2)})
    return ps, rels, joins


def _wf(ctx, cases):
    """the theorems' hypothesis (`WF`: one uuid, one object) is checked by the model on every collection"""
    def cjs(c):
        if "steps" in c and "collection" not in c:
            return c["steps"][0]["collection"]
        return c["collection"]
    oks = ctx.driver.call_many("C01", "wf", [{"collection": cjs(c)} for c in cases])
    dropped = sum(1 for ok in oks if not ok)
    if dropped:
        ctx.tally("generated collections outside the quantifier (not well formed), dropped", dropped)
    return [c for c, ok in zip(cases, oks) if ok]


def _spellings(ctx):
    """every spelling that occurs in the pools, against pathlib: parse, and relative_to / join with each directory"""
    names = sorted(set(PARTS + DIR_PARTS + FILE_NAMES))
    dirs = sorted(set(DIRS + LOAD_DIRS + GRID_SAVE[1:] + [d for b in DIRS for d in _outside_dirs(b)]))
    ps = [{"p": s} for s in names + dirs + GRID_REC]
    ps += [{"p": d + sep + n} for d in dirs[::3] for n in names[::4] for sep in ("/", "//", "/./")]
    rels = [{"p": p, "d": d} for p in GRID_REC + [d + "/" + n for d in DIRS for n in FILE_NAMES[::5]] for d in dirs[::2]]
    joins = [{"d": d, "p": p} for d in dirs[::2] for p in names[::3] + GRID_REC[::3] + ["", ".", "..", "../x"]]
    ctx.run_cases(OPS["path_parse"], ps)
    ctx.run_cases(OPS["path_relative_to"], rels)
    ctx.run_cases(OPS["path_join"], joins)
    ctx.exhaustive["every name / directory of the generator pools against pathlib"] = {
        "parse": len(ps), "relative_to": len(rels), "join": len(joins)}


def _paths(ctx):
    ps, rels, joins = _path_cases(ctx.rng, ctx.budget(6000, 60000))
    ps += [{"p": s} for s in ["", ".", "/", "//", "///", "a", "./a", "a/.", "a//b", "//a", "///a", "a/..", "../a", "/.", "/..", " "]]
    ctx.run_cases(OPS["path_parse"], ps)
    ctx.run_cases(OPS["path_relative_to"], rels)
    ctx.run_cases(OPS["path_join"], joins)
    _spellings(ctx)


def _histories(ctx, stored):
    # the same recordings saved again under other audio directories (ancestor, the base, none, outside, root);
    # every other history saves the *same objects* each time
    hist = []
    for n, c in enumerate(_wf(ctx, stored[::5])):
        base = c["audio_dir"]
        if base is None:
            continue
        c = {k: v for k, v in c.items() if k != "pre"}
        anc = str(PurePosixPath(base).parent)
        hist.append({"reuse": n % 2 == 0,
                     "steps": [c, dict(c, audio_dir=anc), dict(c, audio_dir=None), dict(c, audio_dir=base + "/nowhere"),
                               dict(c, audio_dir="/", dir_as="path"), c]})
    ctx.run_cases(OPS["stored_history"], hist)
    ctx.tally("stored-history cases (6 saves each)", len(hist))
    ctx.tally("stored-history cases saving the same objects again", sum(1 for h in hist if h["reuse"]))


def _collections(ctx):
    stored, reloc, many, chain = _collection_cases(ctx, ctx.rng, ctx.budget(26, 600))
    ctx.run_cases(OPS["stored"], _wf(ctx, stored))
    ctx.run_cases(OPS["relocate"], _wf(ctx, reloc))
    ctx.run_cases(OPS["relocate_many"], _wf(ctx, many))
    ctx.run_cases(OPS["relocate_chain"], _wf(ctx, chain))
    ctx.run_cases(OPS["stored"], _wf(ctx, _mixed_outside(random.Random("C18-mixed"))))
    _histories(ctx, stored)


def _routes(ctx):
    stored, reloc = _route_cases(ctx, ctx.rng, ctx.budget(2, 12))
    ctx.run_cases(OPS["stored"], _wf(ctx, stored))
    ctx.run_cases(OPS["relocate"], _wf(ctx, reloc))


def _grid(ctx):
    stored, reloc = _grid_cases(ctx)
    ctx.run_cases(OPS["stored"], _wf(ctx, stored))
    ctx.run_cases(OPS["relocate"], _wf(ctx, reloc))


def _product(ctx):
    stored, reloc = _product_cases(ctx)
    ctx.run_cases(OPS["stored"], _wf(ctx, stored))
    ctx.run_cases(OPS["relocate"], _wf(ctx, reloc))


def _special(ctx):
    stored, reloc = _disk_cases(ctx)
    ctx.run_cases(OPS["stored"], _wf(ctx, stored))
    ctx.run_cases(OPS["relocate"], _wf(ctx, reloc))
    (stored, reloc), (hstored, hreloc) = _large_cases(ctx)
    ctx.run_cases(OPS["stored"], _wf(ctx, stored) + [c for c in hstored if _py_coherent(c["collection"])])
    ctx.run_cases(OPS["relocate"], _wf(ctx, reloc) + [c for c in hreloc if _py_coherent(c["collection"])])


def _sessions(ctx):
    cases = _session_cases(ctx, ctx.rng, ctx.budget(1, 8), ctx.budget(2, 16))
    ctx.run_cases(OPS["session"], _wf_sessions(ctx, cases))


def run(ctx):
    ctx.stage("tables", _tables, ctx)
    ctx.stage("corpus", ctx.run_corpus, OPS)
    ctx.stage("paths", _paths, ctx)
    ctx.stage("grid", _grid, ctx)
    ctx.stage("routes", _routes, ctx)
    ctx.stage("options x input classes", _product, ctx)
    ctx.stage("on disk / large", _special, ctx)
    ctx.stage("collections", _collections, ctx)
    ctx.stage("sessions", _sessions, ctx)
    if _FALLBACKS[0]:
        ctx.tally("construction path did not reproduce the content: constructors used instead", _FALLBACKS[0])


def search(ctx, failures):
    rng = random.Random("C18-search")
    ctx.run_cases(OPS["session"], _wf_sessions(ctx, _session_cases(ctx, rng, 1, 2)))
    stored, reloc, many, chain = _collection_cases(ctx, rng, 20)
    ctx.run_cases(OPS["stored"], _wf(ctx, stored))
    ctx.run_cases(OPS["relocate"], _wf(ctx, reloc))
    ctx.run_cases(OPS["relocate_many"], _wf(ctx, many))
    ctx.run_cases(OPS["relocate_chain"], _wf(ctx, chain))
