"""C18 — Audio paths are stored relative to the audio directory and relocate on load."""
import copy
import json
import os
import random
from pathlib import Path, PurePosixPath

from ..core import Op, canon_exc
from .. import aoef, aoefgen, aoef_impl, leanio

PROPERTY = "C18"
LEAN_MODULE = "Proofs.C18"
_T = "SE.Proofs.C18."
_THEOREM_NAMES = ["C18_relative_iff", "C18_relative_join", "C18_join_relative", "C18_relocate", "C18_passthrough",
                  "C18_stored_relative", "C18_every_recording_stored", "C18_outside_fails",
                  "C18_outside_fails_needs_coherence", "C18_outside_fails_wf", "C18_outside_fails_recordingSet",
                  "C18_outside_fails_dataset", "C18_inside_succeeds", "parse_parts_ok", "parse_root_ok",
                  "C18_parse_render",
                  # second review
                  "C18_parse_wf", "C18_parse_render_parse", "C18_relative_join_wf", "C18_render_injective",
                  "C18_string_level", "C18_relocate_to_none", "C18_relocate_from_none", "C18_recordings_of_mapPath",
                  "C18_loaded_recordings", "C18_relocate_collection", "C18_passthrough_collection"]
THEOREMS = [_T + n for n in _THEOREM_NAMES]
LEVEL_TEXT = ("Lean theorems over a model of POSIX pure paths (parse, render, relative_to, join as pathlib computes "
              "them) and of the AOEF recording adapter inside the C01 model: relative_to succeeds exactly for paths "
              "inside the directory and is inverted by join; saving under A and loading under B maps A/x to B/x; "
              "every recording of every collection constructor is stored relative to the directory and saving fails as "
              "a whole when one lies outside; without a directory paths pass through. The path model is compared with "
              "pathlib on every generated path, and stored / relocated paths of all eight collection types with the "
              "real save / load (directory given as str and as Path, with and without trailing slash).")
LEVEL_NOTE = ("Trusted: Lean kernel; pathlib itself (its parse is compared with the model's on every generated path); "
              "POSIX flavour only (Windows paths are out of scope). That `save` creates a missing parent directory of "
              "the target file before converting is observed and not compared.")
TECHNIQUE = ("Lean 4 proof (path algebra and recording-adapter theorems over the AOEF model); differential "
             "correspondence with pathlib and with the real save/load of all eight collection types")
RULE = ("distinct (operation, input) cases on which the real code produced paths (or the expected failure): path "
        "strings against pathlib, stored paths and relocated paths of every recording of a collection")
TRUSTED = ["pathlib.PurePosixPath (compared with the model on every generated path)",
           "harness/aoef.py conversions (shared with C01)"]
ASSUMPTIONS = ["POSIX path flavour"]
NOT_COMPARED = ["creation of the target file's parent directory before the conversion fails",
                "error messages (only: an exception is raised and no file exists at the target path)"]

PARTS = ["a", "b", "sub dir", "ünï", "x.y", ".hidden", "..", "...", " ", "rec.wav", "ñandú 1.WAV", "data", "audio", "a"]


def gen_path(rng, absolute=None, messy=True):
    n = rng.randint(0, 4)
    parts = [rng.choice(PARTS) for _ in range(n)]
    sep = lambda: rng.choice(["/", "/", "/", "//", "/./"]) if messy else "/"
    s = ""
    for i, p in enumerate(parts):
        s += (sep() if i else "") + p
    absolute = rng.random() < 0.6 if absolute is None else absolute
    if absolute:
        s = rng.choice(["/", "/", "/", "//", "///"] if messy else ["/"]) + s
    if messy and rng.random() < 0.2:
        s += rng.choice(["/", "/.", "//"])
    return s


# ------------------------------------------------------------------ path algebra against pathlib
def _pj(p):
    return {"root": p.root if not p.drive else p.drive + p.root, "parts": [x for x in p.parts if x != p.anchor], "str": str(p)}


def _impl_parse(inp):
    return _pj(PurePosixPath(inp["p"]))


def _impl_rel(inp):
    return {"val": _pj(PurePosixPath(inp["p"]).relative_to(inp["d"]))}


def _impl_join(inp):
    return _pj(inp["d"] / PurePosixPath(inp["p"]))


# ------------------------------------------------------------------ collections
def _rec_paths_of_doc(path):
    real = json.load(open(path))["data"]
    return sorted([r["uuid"], r["path"]] for r in real.get("recordings") or [])


def _impl_stored(inp):
    """'path' of every entry of data.recordings in the written JSON; on failure: nothing may have been written"""
    target = aoef_impl.tmp_path("c18")
    if os.path.exists(target):
        os.remove(target)
    try:
        aoef_impl.save_real(inp["collection"], inp.get("audio_dir"), inp.get("dir_as", "str"), path=target)
    except Exception as e:  # noqa: BLE001
        out = canon_exc(e)
        out["file_written"] = os.path.exists(target)
        aoef_impl.cleanup(target)
        return out
    try:
        return {"val": _rec_paths_of_doc(target)}
    finally:
        aoef_impl.cleanup(target)


def _holds_stored(ctx, inp, out):
    if out.get("file_written"):
        return "saving failed but a file was written at the target path"
    return None


def _cmp_sorted_val(inp, io, mo):
    a = {k: v for k, v in io.items() if k not in ("trace", "file_written")}
    if "val" in mo:
        mo = {"val": sorted(mo["val"])}
    return None if a == mo else "implementation and model disagree"


def _all_recordings(cj):
    """every recording reachable from a loaded collection (model JSON), by uuid"""
    out = {}

    def walk(x):
        if isinstance(x, dict):
            if "samplerate" in x and "path" in x:
                out[x["uuid"]] = x["path"]
            for v in x.values():
                walk(v)
        elif isinstance(x, list):
            for v in x:
                walk(v)
    walk(cj)
    return sorted([u, p] for u, p in out.items())


def _impl_relocate(inp):
    """save under A, load under B (fresh file, fresh call): Recording.path of every reachable recording"""
    from soundevent import io
    target = aoef_impl.tmp_path("c18r")
    try:
        aoef_impl.save_real(inp["collection"], inp.get("save_dir"), inp.get("dir_as", "str"), path=target)
        obj = io.load(target, audio_dir=aoef_impl.adir(inp.get("load_dir"), inp.get("dir_as", "str")))
        return {"val": _all_recordings(aoef.dump(obj))}
    except leanio.InfraError:
        raise
    except Exception as e:  # noqa: BLE001
        return canon_exc(e)
    finally:
        aoef_impl.cleanup(target)


def _holds_relocate(ctx, inp, out):
    """the property, directly: A/x -> B/x for every recording (pathlib arithmetic on the input paths)"""
    if "val" not in out:
        return None
    A, B = inp.get("save_dir"), inp.get("load_dir")
    want = {}
    for u, p in _all_recordings(inp["collection"]):
        q = PurePosixPath(p)
        if A is not None:
            q = q.relative_to(A)
        if B is not None:
            q = PurePosixPath(B) / q
        want[u] = str(q)
    got = dict(out["val"])
    for u, p in want.items():
        if got.get(u) != p:
            return f"recording {u}: loaded path {got.get(u)!r}, expected {p!r} (saved under {A!r}, loaded under {B!r})"
    return None


def _impl_stored_history(inp):
    return [_impl_stored(st) for st in inp["steps"]]


def _holds_stored_history(ctx, inp, out):
    for i, o in enumerate(out):
        if o.get("file_written"):
            return f"step {i + 1}: saving failed but a file was written at the target path"
    return None


def _cmp_stored_history(inp, io, mo):
    for i, (a, b) in enumerate(zip(io, mo)):
        msg = _cmp_sorted_val(inp["steps"][i], a, b)
        if msg:
            return f"step {i + 1} of {len(io)} (after earlier saves with other audio directories in the same process): {msg}"
    return None


OPS = {
    "stored_history": Op("stored_history", _impl_stored_history, holds=_holds_stored_history, compare=_cmp_stored_history,
                         nontrivial=lambda i, o: any("val" in x for x in o)),
    "path_parse": Op("path_parse", _impl_parse, model_op="parse"),
    "path_relative_to": Op("path_relative_to", _impl_rel, model_op="relative_to"),
    "path_join": Op("path_join", _impl_join, model_op="join"),
    "stored": Op("stored", _impl_stored, holds=_holds_stored, compare=_cmp_sorted_val, model_op="stored",
                 to_model=lambda i: {"collection": i["collection"], "audio_dir": i.get("audio_dir")}),
    "relocate": Op("relocate", _impl_relocate, holds=_holds_relocate, compare=_cmp_sorted_val, model_op="relocate",
                   to_model=lambda i: {"collection": i["collection"], "save_dir": i.get("save_dir"),
                                       "load_dir": i.get("load_dir")}),
}


# ------------------------------------------------------------------ generators
DIRS = ["/data/audio", "/", "/a b/ünï/x.y", "/data", "rel/dir", "/data/audio/sub"]


def _dir_variant(rng, d):
    """the same directory as a caller may write it"""
    if d == "/":
        return d
    return d + rng.choice(["", "", "/", "/."])


def _collection_cases(ctx, rng, n_per_type):
    stored, reloc = [], []
    for ty in aoefgen.TYPES:
        for _ in range(n_per_type):
            base = rng.choice(DIRS)
            cj = aoefgen.gen_collection(rng, ty, rich=rng.random() < 0.3, base=base, size=0.8)
            how = rng.choice(["str", "path"])
            ctx.tally("type:" + ty)
            ctx.tally("audio_dir as " + how)
            # inside: save under the base or one of its ancestors
            anc = str(PurePosixPath(base).parent) if rng.random() < 0.3 else base
            stored.append({"collection": cj, "audio_dir": _dir_variant(rng, anc), "dir_as": how})
            stored.append({"collection": cj, "audio_dir": None, "dir_as": how})
            B = rng.choice(DIRS + ["/mnt/other disk", "elsewhere"])
            reloc.append({"collection": cj, "save_dir": _dir_variant(rng, anc), "load_dir": B, "dir_as": how})
            reloc.append({"collection": cj, "save_dir": None, "load_dir": None, "dir_as": how})
            if rng.random() < 0.3:
                reloc.append({"collection": cj, "save_dir": None, "load_dir": B, "dir_as": how})
            # outside: a sibling whose name extends the directory's, a child directory, an unrelated one
            out = rng.choice([base + "2", base + "/deeper/still", "/unrelated", base.upper() if base != "/" else "/x/y"])
            if out != base and out != "/":
                stored.append({"collection": cj, "audio_dir": out, "dir_as": how})
                ctx.tally("outside-directory case")
    return stored, reloc


def _mixed_outside(rng):
    """one recording of several lies outside the directory: the whole save must fail"""
    cases = []
    for ty in aoefgen.TYPES:
        g = aoefgen.Gen(rng, base="/data/audio", size=0.8)
        g.recordings.append(dict(g.recording(), path="/data/audio2/stray.wav"))
        g.clips = [g.clip() for _ in range(4)]
        g.ses = [g.sound_event(i) for i in range(5)]
        cj = g.collection(ty)
        cases.append({"collection": cj, "audio_dir": "/data/audio", "dir_as": "str"})
    return cases


def _path_cases(rng, n):
    ps, rels, joins = [], [], []
    for _ in range(n):
        p = gen_path(rng)
        ps.append({"p": p})
        d = gen_path(rng)
        if rng.random() < 0.6:      # make d an ancestor of p (in messy spelling)
            q = PurePosixPath(p)
            k = rng.randint(0, len(q.parts))
            d = str(PurePosixPath(*q.parts[:k])) if k else ("" if not q.is_absolute() else "/")
            if d and rng.random() < 0.3:
                d += "/"
        rels.append({"p": p, "d": d})
        joins.append({"d": gen_path(rng), "p": gen_path(rng, absolute=rng.random() < 0.2)})
    return ps, rels, joins


def _wf(ctx, cases):
    oks = ctx.driver.call_many("C01", "wf", [{"collection": c["collection"]} for c in cases])
    return [c for c, ok in zip(cases, oks) if ok]


def _correspondence(ctx):
    ctx.run_corpus(OPS)
    ps, rels, joins = _path_cases(ctx.rng, ctx.budget(6000, 60000))
    ps += [{"p": s} for s in ["", ".", "/", "//", "///", "a", "./a", "a/.", "a//b", "//a", "///a", "a/..", "../a", "/.", "/..", " "]]
    ctx.run_cases(OPS["path_parse"], ps)
    ctx.run_cases(OPS["path_relative_to"], rels)
    ctx.run_cases(OPS["path_join"], joins)
    stored, reloc = _collection_cases(ctx, ctx.rng, ctx.budget(40, 800))
    ctx.run_cases(OPS["stored"], _wf(ctx, stored))
    ctx.run_cases(OPS["relocate"], _wf(ctx, reloc))
    ctx.run_cases(OPS["stored"], _wf(ctx, _mixed_outside(random.Random("C18-mixed"))))
    # histories: the same recordings saved again under other audio directories (ancestor, the base, none, outside)
    hist = []
    for c in _wf(ctx, stored[::6]):
        base = c["audio_dir"]
        if base is None:
            continue
        anc = str(PurePosixPath(base).parent)
        hist.append({"steps": [c, dict(c, audio_dir=anc), dict(c, audio_dir=None), dict(c, audio_dir=base + "/nowhere"),
                               dict(c, audio_dir="/"), c]})
    ctx.run_cases(OPS["stored_history"], hist)
    ctx.tally("stored-history cases (6 saves each)", len(hist))


def run(ctx):
    ctx.stage("correspondence", _correspondence, ctx)


def search(ctx, failures):
    rng = random.Random("C18-search")
    stored, reloc = _collection_cases(ctx, rng, 20)
    ctx.run_cases(OPS["stored"], _wf(ctx, stored))
    ctx.run_cases(OPS["relocate"], _wf(ctx, reloc))
