"""C12 — Overlap predicates agree with exact interval arithmetic."""
import itertools
import math
from fractions import Fraction

from ..core import Op, jkey
from ..leanio import InfraError
from ..rat import rat, frac
from .. import symtrace as st
from ..symtrace import Sym
from .. import gen_geom
from .. import c12_session as S

PROPERTY = "C12"
LEAN_MODULE = "Proofs.C12"
_T = "SE.Proofs.C12."
THEOREMS = [_T + n for n in [
    "C12_symm", "C12_iff", "C12_default_iff_common_point", "C12_abs_iff_common_subinterval",
    "C12_monotone_abs", "C12_monotone_rel", "C12_rejects", "C12_geometry_delegation",
    "C12_in_clip_iff", "C12_negative_minimum_rejected", "C12_inside_is_in",
    "C12_timestamp_inside_is_in", "C12_touching_is_out",
    # review R-C12: readings of the threshold
    "C12_default_is_zero_threshold", "C12_iff_measure", "C12_negative_abs_is_gap_tolerance",
    "C12_rel_one_iff_containment", "C12_monotone_rel_needs_proper",
    # geometry level (compute_bounds composed with the interval predicate)
    "C12_geometry_symm", "C12_geometry_extents", "C12_geometry_defined", "C12_extent_table",
    "C12_timestamp_overlap", "C12_time_only_frequency_overlap",
    "C12_in_clip_geom_iff", "C12_in_clip_geom_rejects", "C12_in_clip_vs_overlap_length",
    "C12_in_clip_is_not_overlap_length", "C12_in_clip_default_open", "C12_in_clip_default_common_point",
    "C12_in_clip_antitone",
    # binary64: the computation operation by operation in a rounding arithmetic
    "isRnd_id", "isRnd_example", "relErr_id", "C12_float_id", "C12_float_symm", "C12_float_rejects",
    "C12_float_default_exact", "C12_float_abs_one_sided", "C12_float_monotone", "C12_float_exact_on_grid",
    "C12_float_in_clip", "C12_float_band", "C12_float_in_clip_band",
    # follow-up 3: how the arguments of a call reach the parameters; histories in one process
    "C12_params_nodup", "C12_bind_positional", "C12_bind_keyword_order", "C12_call_forms", "C12_call_forms_geometry",
    "C12_session_last_write", "C12_session_answer", "C12_session_reads_transparent", "C12_session_fresh"]]
LEVEL_TEXT = ("Lean theorems (symmetry, iff with intersection length >= threshold, set-theoretic / measure readings, "
              "monotonicity, rejection; on geometries: the predicate on [least, greatest] time / frequency coordinate; "
              "is_in_clip iff, its corollaries and its relation to the overlap length) hold for all rational inputs of the "
              "model; the same functions in an arbitrary rounding arithmetic (binary64) are proved symmetric, monotone, "
              "exact for the default threshold and exact outside an explicit band for every threshold.  Every modelled "
              "function is re-derived from the source on each run by path-exhaustive symbolic tracing and proved equal to "
              "the model for all inputs, in exact arithmetic and operation by operation in the rounding arithmetic, "
              "and run differentially on exhaustive dyadic grids (exact) and on arbitrary floats (bit for bit).  How the "
              "arguments of a call reach the parameters (positional / keyword / explicit None, against parameter tables "
              "re-read from the signatures) and histories of calls in one process on objects that are changed in between "
              "are part of the model: every way of writing a call gives the same answer, and every call of a history "
              "answers as the base predicate on the content the objects carry at that moment (C12_call_forms, "
              "C12_bind_*, C12_session_*); both are run differentially on live objects.")
LEVEL_NOTE = ("Trusted: Lean kernel, symbolic tracer (stubs for geometry_to_shapely / compute_bounds / Clip), shapely "
              "bounds, `rnd64` = binary64 round-to-nearest-even (compared with CPython on every run).  Histories: the "
              "model has no state by construction (C12_session_reads_transparent); that the *code* has none is validated "
              "by enumerated and random histories (every geometry type x every way of changing an object x every first "
              "use), not proved.  Unmodelled: overflow / underflow / inf / nan of binary64; threads.")
TECHNIQUE = ("Lean 4 proof over model; symbolic-trace equality obligations regenerated from source (exact and "
             "rounding arithmetic); exhaustive-grid and bit-exact float correspondence")
RULE = ("exhaustive grids of interval end points x threshold settings, random dyadic intervals, geometry pairs of "
        "all 81 type combinations on boundary placements (enumerated on either axis), clip/geometry placements, "
        "arbitrary binary64 inputs incl. offsets of a relative 1e-6 .. 1e-12 on both sides of every comparison at "
        "magnitudes 1e-3 .. 1e6 and the lattice k/100; every way of writing a call (positional / mixed / keywords in "
        "both orders / explicit None) x every container (tuple, list, ndarray, namedtuple) and number type (int, "
        "float, numpy float64 / float32 / int64, Fraction, bool thresholds); every construction path of geometries "
        "and clips (constructor, geometry_validate dict / json / attributes, model_validate(_json), copies, dump round "
        "trip, subclass); geometries of 17 / 257 / 1025 vertices or parts with the extremes anywhere in the list; "
        "histories in one process (op `session`): objects used, then changed (assignment, model_copy(update=...) "
        "shallow / deep, copy + assignment, in-place list edit, raw tuples / ints) or derived into a second object, "
        "then used again; clips changed under the same uuid; the same objects asked with one option after another; "
        "arguments snapshotted around every call; the replay of a failing history is the whole sequence; "
        "non-trivial = the implementation returned a boolean (not an error) (sessions: at least one call answered); "
        "distinct = distinct (operation, input)")
TRUSTED = ["shapely `bounds` (min/max over the converted coordinates) inside compute_bounds",
           "symbolic tracer stubs: geometry_to_shapely (or compute_bounds) replaced by a symbolic 4-tuple, Clip by a "
           "record of two symbols",
           "`SE.Affinity.rnd64` is binary64 round-to-nearest-even (monitored against float(Fraction) every run)",
           "the session driver harness/c12_session.py (the content a slot carries is the JSON of the step that wrote "
           "it, never read back from the object; pydantic's model_copy / copy semantics produce the object)",
           "Python's own binding of positional and keyword arguments (`bindCall` is its model for the optional "
           "parameters; the parameter tables are re-read from inspect.signature on every run)"]
ASSUMPTIONS = ["binary64 arithmetic is exact on the dyadic grids used (sums/products of <= 20-bit dyadics); "
               "justified by C12_float_exact_on_grid",
               "no overflow / underflow / inf / nan in the float runs (magnitudes 1e-3 .. 1e7)"]
NOT_COMPARED = ["error messages (only the error class)", "non-finite floats",
                "objects that merely look like a Clip / a geometry (duck typing: the functions are annotated with the data "
                "classes; subclasses of them are exercised)",
                "the value returned by compute_bounds in a history (C05's subject; here it only makes history)",
                "calls Python itself rejects (too many positional values, unknown keywords): modelled as TypeError, not run",
                "geometries sharing one coordinate list object (aliasing between two live objects is Python's, not the "
                "library's, semantics)"]

U53 = "1/9007199254740992"     # unit round-off of binary64


def _f(s):
    return None if s is None else float(frac(s))


def _num(s, how):
    """the number a JSON rational stands for, as the Python type the case asks for"""
    if s is None:
        return None
    q = frac(s)
    if how == "int":
        assert q.denominator == 1
        return int(q)
    if how == "np":
        import numpy as np
        return np.float64(float(q))
    if how == "frac":
        return q
    if how == "f32":
        import numpy as np
        return np.float32(float(q))
    if how == "i64":
        import numpy as np
        assert q.denominator == 1
        return np.int64(int(q))
    return float(q)


def _public(name):
    """the function as users reach it: `soundevent.geometry.<name>` where exported, else the module's"""
    import soundevent.geometry as G
    from soundevent.geometry import operations as ops
    fn = getattr(G, name, None)
    return fn if fn is not None else getattr(ops, name)


def _twice(call, snap=None):
    """the predicates are functions of their arguments: two calls on the same objects must agree, and the
    arguments must be after the calls what they were before (`snap`: a comparable snapshot of them)"""
    s0 = snap() if snap is not None else None
    r1 = bool(call())
    r2 = bool(call())
    out = {"val": r1}
    if r1 != r2:
        out["second_call"] = r2
    if snap is not None:
        s1 = snap()
        if len(s0) != len(s1) or not all(S._same(x, y) for x, y in zip(s0, s1)):
            out["argument_mutated"] = True
    return out


def _impl_intervals(inp):
    fn = _public("intervals_overlap")
    how = inp.get("as")
    conv = how if how in ("int", "np", "frac", "f32", "i64") else "float"
    box = inp.get("box") or ("list" if how == "list" else "tuple")
    i1 = S._box([_num(x, conv) for x in inp["i1"]], box)
    i2 = S._box([_num(x, conv) for x in inp["i2"]], box)
    import copy

    def snap():
        return [copy.copy(i1), copy.copy(i2)]
    if inp.get("call") is not None:          # the optional arguments exactly as the call writes them
        pos, kw = _call_args(inp["call"], lambda v: _num(v, conv))
        return _twice(lambda: fn(i1, i2, *pos, **kw), snap)
    a, r = _num(inp["abs"], conv), _num(inp["rel"], conv)
    if inp.get("thr_as") == "bool":
        a, r = (None if a is None else bool(a)), (None if r is None else bool(r))
    if how == "pos":
        if r is None:
            return _twice(lambda: fn(i1, i2, a), snap)
        return _twice(lambda: fn(i1, i2, a, r), snap)
    kw = {}
    if a is not None or inp.get("explicit_none"):
        kw["min_absolute_overlap"] = a
    if r is not None or inp.get("explicit_none"):
        kw["min_relative_overlap"] = r
    return _twice(lambda: fn(i1, i2, **kw), snap)


def _call_args(call, conv):
    """{"pos": [v ...], "kw": [[name, v] ...]} -> (positional list, keyword dict in the order written)"""
    return [conv(v) for v in call["pos"]], {k: conv(v) for k, v in call["kw"]}


def _impl_geom(which):
    def impl(inp):
        fn = _public("have_temporal_overlap" if which == "temporal" else "have_frequency_overlap")
        g1 = S.build_geom(inp["g1"], inp.get("build1", "validate"))
        g2 = S.build_geom(inp["g2"], inp.get("build2", "validate"))
        if inp.get("same_object"):
            g2 = g1

        def snap():
            return [S._snap_geom(g1), S._snap_geom(g2)]
        if inp.get("call") is not None:
            pos, kw = _call_args(inp["call"], _f)
            return _twice(lambda: fn(g1, g2, *pos, **kw), snap)
        a, r = _f(inp["abs"]), _f(inp["rel"])
        if inp.get("as") == "pos":
            return _twice(lambda: fn(g1, g2, a, r), snap)
        kw = {}
        if a is not None:
            kw["min_absolute_overlap"] = a
        if r is not None:
            kw["min_relative_overlap"] = r
        return _twice(lambda: fn(g1, g2, **kw), snap)
    return impl


_REC = None


def _recording():
    global _REC
    if _REC is None:
        from soundevent import data
        _REC = data.Recording(path="rec.wav", duration=100.0, channels=1, samplerate=8000)
    return _REC


def _impl_in_clip(inp):
    from soundevent import data
    fn = _public("is_in_clip")
    if inp.get("clip_how") or inp.get("clip_num"):
        clip = S.build_clip({"start": inp["start"], "end": inp["end"], "how": inp.get("clip_how", "new"),
                             "num": inp.get("clip_num", "float")})
    else:
        clip = data.Clip(recording=_recording(), start_time=_f(inp["start"]), end_time=_f(inp["end"]))
    g = S.build_geom(inp["g"], inp.get("build", "validate"))

    def snap():
        return [S._snap_geom(g), S._snap_clip(clip)]
    if inp.get("call") is not None:
        pos, kw = _call_args(inp["call"], _f)
        return _twice(lambda: fn(g, clip, *pos, **kw), snap)
    if inp.get("min") is None:
        return _twice(lambda: fn(g, clip), snap)                # the default of the code
    m = _num(inp["min"], "int" if inp.get("as") == "int" else "float")
    if inp.get("as") == "pos":
        return _twice(lambda: fn(g, clip, m), snap)
    return _twice(lambda: fn(g, clip, minimum_overlap=m), snap)


# ---------------------------------------------------------------- binary64: monitor of the property on floats
_OK_CACHE = {}


def _float_ok_request(opname, inp, out):
    o = {"val": out["val"]} if isinstance(out, dict) and "val" in out and len(out) == 1 else \
        {"raise": "x"} if isinstance(out, dict) and out.get("raise") == "invalid" else None
    if o is None:
        return None          # a crash / a second call that disagrees: never what the property allows
    if opname == "is_in_clip_f64":
        return "clip_float_ok", {"u": U53, "g": inp["g"], "start": inp["start"], "end": inp["end"],
                                 "min": inp.get("min"), "out": o}
    req = {"u": U53, "abs": inp["abs"], "rel": inp["rel"], "out": o}
    if opname == "intervals_overlap_f64":
        req.update(i1=inp["i1"], i2=inp["i2"])
    else:
        req.update(g1=inp["g1"], g2=inp["g2"], axis="time" if opname.startswith("temporal") else "freq")
    return "float_ok", req


def _float_holds(opname):
    """`floatOk` / `clipFloatOk` (C12_float_band, C12_float_in_clip_band) on the implementation's own answer"""
    def holds(ctx, inp, out):
        k = opname + jkey(inp) + jkey(out)
        ok = _OK_CACHE.get(k)
        if ok is None:
            rq = _float_ok_request(opname, inp, out)
            ok = False if rq is None else bool(ctx.model(rq[0], rq[1]))
        return None if ok else ("outside the rounding band the answer must be the exact one "
                                "(intersection length vs threshold), errors exactly where the model rejects")
    return holds


def _run_float(ctx, op, inputs):
    """pre-compute the monitor in one batch, then the ordinary bit-exact run"""
    inputs = list(inputs)
    reqs = {}
    for inp in inputs:
        try:
            out = op.impl(inp)
        except InfraError:
            raise
        except Exception as e:  # noqa: BLE001
            from ..core import canon_exc
            out = canon_exc(e)
        rq = _float_ok_request(op.name, inp, out)
        if rq is not None:
            reqs.setdefault(rq[0], []).append((op.name + jkey(inp) + jkey(out), rq[1]))
    for mop, lst in reqs.items():
        outs = ctx.model_many(mop, [r for _k, r in lst])
        for (k, _r), o in zip(lst, outs):
            _OK_CACHE[k] = bool(o)
    ctx.run_cases(op, inputs)
    _OK_CACHE.clear()


OPS = {
    "intervals_overlap": Op("intervals_overlap", _impl_intervals),
    "temporal": Op("temporal", _impl_geom("temporal")),
    "frequency": Op("frequency", _impl_geom("frequency")),
    "is_in_clip": Op("is_in_clip", _impl_in_clip),
    # arbitrary floats: bit for bit against the model in binary64 (`… R rnd64`); what the *property* demands there
    # is the band statement (`holds`), so a disagreement alone is a broken tie, not yet a violation
    "intervals_overlap_f64": Op("intervals_overlap_f64", _impl_intervals, model_op="intervals_overlap64",
                                determined=False, holds=_float_holds("intervals_overlap_f64")),
    "temporal_f64": Op("temporal_f64", _impl_geom("temporal"), model_op="temporal64",
                       determined=False, holds=_float_holds("temporal_f64")),
    "frequency_f64": Op("frequency_f64", _impl_geom("frequency"), model_op="frequency64",
                        determined=False, holds=_float_holds("frequency_f64")),
    "is_in_clip_f64": Op("is_in_clip_f64", _impl_in_clip, model_op="is_in_clip64",
                         determined=False, holds=_float_holds("is_in_clip_f64")),
}

OPS["session"] = Op("session", S.run_session, compare=S.compare_session,
                    nontrivial=lambda inp, out: isinstance(out, dict) and any(
                        isinstance(o, dict) and "val" in o for o in out.get("val", [])))

THRESHOLDS = ([(None, None)] + [(a, None) for a in ["0", "1/4", "1/2", "1", "-1/4", "2"]]
              + [(None, r) for r in ["0", "1/4", "1/2", "1", "-1/4", "5/4"]]
              + [("1/4", "1/4"), ("0", "1/4"), ("1/4", "0"), ("0", "0")])


# ---------------------------------------------------------------- tie 1: signature defaults
def _signature_table(ctx):
    import inspect
    from soundevent.geometry import operations as ops
    fn = getattr(ops, "is_in_clip", None)
    try:
        d = inspect.signature(fn).parameters["minimum_overlap"].default
        if isinstance(d, bool) or not isinstance(d, (int, float)):
            raise TypeError(f"default {d!r}")
        ctx.obligation("default_minimum_overlap",
                       f"example : SE.Intervals.defaultMinimumOverlap = {st.lit(d)} := by decide +kernel",
                       {"op": "is_in_clip"})
    except InfraError:
        raise
    except Exception as e:  # noqa: BLE001
        ctx.pre_failed.append("default_minimum_overlap")
        ctx.fail("obligation", "default_minimum_overlap", detail=f"default of minimum_overlap not extractable: {e!r}",
                 extra={"op": "is_in_clip"})
    # the positional-signature table: after the two subjects, which optional parameters can be passed by position,
    # in which order, under which names (`SE.Intervals.overlapParams` / `clipParams`, the tables `bindCall` binds
    # against: C12_bind_positional, C12_bind_keyword_order, C12_call_forms).  Only what a caller can observe is
    # pinned: the names of the two subjects and additional keyword-only parameters with defaults are free.
    opname = {"intervals_overlap": "intervals_overlap", "have_temporal_overlap": "temporal",
              "have_frequency_overlap": "frequency", "is_in_clip": "is_in_clip"}
    for name, table in (("intervals_overlap", "overlapParams"), ("have_temporal_overlap", "overlapParams"),
                        ("have_frequency_overlap", "overlapParams"), ("is_in_clip", "clipParams")):
        fn = getattr(ops, name, None)
        obl = "signature_table_" + name
        try:
            ps = list(inspect.signature(fn).parameters.values())
            P = inspect.Parameter
            if any(p.kind in (P.VAR_POSITIONAL, P.VAR_KEYWORD) for p in ps):
                raise TypeError("*args / **kwargs: the binding of a call is no longer readable from the signature")
            positional = [p for p in ps if p.kind in (P.POSITIONAL_ONLY, P.POSITIONAL_OR_KEYWORD)]
            kwonly = [p for p in ps if p.kind == P.KEYWORD_ONLY]
            if len(positional) < 2 or any(p.default is not P.empty for p in positional[:2]):
                raise TypeError("the two subjects must be the first two parameters, without defaults")
            if any(p.default is P.empty for p in positional[2:] + kwonly):
                raise TypeError("a further required parameter")
            if any(p.kind == P.POSITIONAL_ONLY for p in positional[2:]):
                raise TypeError("an optional parameter that cannot be passed by keyword")
            names = [p.name for p in positional[2:]]
            for p in kwonly:
                ctx.tally(f"signature: extra keyword-only parameter {name}({p.name}=...)")
            lst = "[" + ", ".join('"' + n + '"' for n in names) + "]"
            ctx.obligation(obl, f"example : SE.Intervals.{table} = {lst} := by decide", {"op": opname[name]})
            if table == "overlapParams" and not all(p.default is None for p in positional[2:]):
                raise TypeError("both thresholds must default to None (the model's `none none`)")
        except InfraError:
            raise
        except Exception as e:  # noqa: BLE001
            ctx.pre_failed.append(obl)
            ctx.fail("obligation", obl, detail=f"signature of {name} does not fit the model's parameter table: {e!r}",
                     extra={"op": opname[name]})


# ---------------------------------------------------------------- tie 1b
# closing tactic of the ties: the shared `se_close`, then (for decision trees whose shape differs from the model's:
# conditional expressions instead of min / max, negated comparisons) a full case split with arithmetic at the leaves
_CLOSE = ("first\n    | se_close\n"
          # (`repeat'` takes a tactic *sequence*: it must be parenthesised, and every alternative but the last ends
          # in `done`, so that an alternative that leaves goals falls through to the next one)
          "    | (simp only [Rat.min_def, Rat.max_def]; (repeat' split); all_goals (try simp); all_goals (try grind); done)\n"
          "    | (simp only [Option.map]; (repeat' split); all_goals (try simp); all_goals (try grind); done)\n"
          # `min` / `max` written the other way round in the code (`b if b <= a else a`): unfold the model's likewise
          "    | (simp only [SE.Intervals.min_flip, SE.Intervals.max_flip]; (repeat' split); all_goals (try simp); "
          "all_goals (try grind))")
_UNF = "SE.Intervals.intervalsOverlap SE.Intervals.threshold SE.Intervals.thrOverlap"
_UNFR = "SE.Intervals.intervalsOverlapR SE.Intervals.thresholdR"


class SymR(Sym):
    """a number of the rounding arithmetic: every + - * / is `rnd` of the exact result, for an
    arbitrary function `rnd` (negation, min / max through comparisons, literals are exact)"""
    __slots__ = ()
    __hash__ = None

    @staticmethod
    def var(name):
        return SymR(name, lambda env, n=name: env[n])

    def _bin(self, o, sym, fn, rev=False):
        o = Sym.lift(o)
        a, b = (o, self) if rev else (self, o)
        return SymR(f"(rnd ({a.e} {sym} {b.e}))", lambda env: None)

    def __neg__(self):
        return SymR(f"(-{self.e})", lambda env: None)

    def __pos__(self):
        return self


def _sym_tie_r(ctx, name, fn, variables, ret_type, model_term, tactic, meta):
    """Tie 1b in the rounding arithmetic: `∀ rnd vars, ext rnd vars = model rnd vars`"""
    try:
        res = st.trace(fn)
        tree = st.to_tree(res)
        body = st.tree_lean(tree, indent=4)
    except InfraError:
        raise
    except Exception as e:  # noqa: BLE001
        ctx.symbolic_ties[name] = {"error": repr(e)[:300]}
        ctx.pre_failed.append(name)
        ctx.fail("obligation", name, detail=f"symbolic trace (rounding arithmetic) of the current source failed: {e!r}",
                 extra=dict(meta))
        return
    args = " ".join(variables)
    src = (f"def {name} (rnd : Rat → Rat) ({args} : Rat) : Option ({ret_type}) :=\n  {body}\n"
           # the laws of a rounding (monotone, exact at 0, sign-preserving: `IsRnd` of Proofs/C12.lean) are at
           # hand, so that a correct fast path on a sign / an order still proves
           f"theorem {name}_tie (rnd : Rat → Rat) (rnd_mono : ∀ x y, x ≤ y → rnd x ≤ rnd y) (rnd_zero : rnd 0 = 0)\n"
           f"    (rnd_neg : ∀ x, x < 0 → rnd x < 0) (rnd_pos : ∀ x, 0 < x → 0 < rnd x) ({args} : Rat) :\n"
           f"    {name} rnd {args} = {model_term} := by\n"
           f"  {tactic}\n")
    ctx.symbolic_ties[name] = {"paths": len(res), "arithmetic": "rounding"}
    ctx.obligation(name, src, meta)


class _Shape:
    """what `geometry_to_shapely` returns, as far as `compute_bounds` may look at it"""
    def __init__(self, b):
        self.bounds = b


class _Geom:      # a geometry stand-in: any attribute access beyond the bounds makes the trace fail
    def __init__(self, b):
        self._b = b


class _Clip:
    def __init__(self, cs, ce):
        self.start_time = cs
        self.end_time = ce


def _bounds_patches(ops):
    """ways of making the bounds of a stand-in geometry symbolic, most of the real code first:
    `geometry_to_shapely` stubbed (the real `compute_bounds` is traced too), else `compute_bounds` stubbed"""
    out = []
    if hasattr(ops, "geometry_to_shapely"):
        out.append(("geometry_to_shapely", lambda g: _Shape(g._b)))
    if hasattr(ops, "compute_bounds"):
        out.append(("compute_bounds", lambda g: g._b))
    return out


def _works(thunk):
    try:
        st.trace(thunk)
        return True
    except InfraError:
        raise
    except Exception:  # noqa: BLE001
        return False


def _symbolic_ties(ctx):
    import soundevent.geometry.operations as ops
    for cls, tag in ((Sym, ""), (SymR, "_r")):
        V = ["s1", "e1", "s2", "e2", "a", "r"]
        s1, e1, s2, e2, a, r = [cls.var(n) for n in V]
        modes = {"none": ({}, "none none"), "abs": ({"min_absolute_overlap": a}, "(some a) none"),
                 "rel": ({"min_relative_overlap": r}, "none (some r)"),
                 "both": ({"min_absolute_overlap": a, "min_relative_overlap": r}, "(some a) (some r)")}

        def tie(name, thunk, variables, model_exact, model_r, unf_exact, unf_r, op):
            if cls is Sym:
                ctx.sym_tie(name, thunk, variables, "Bool", model_exact,
                            tactic=f"unfold {name} {unf_exact}\n  {_CLOSE}", meta={"op": op})
            else:
                _sym_tie_r(ctx, name, thunk, variables, "Bool", model_r,
                           f"unfold {name} {unf_r}\n  {_CLOSE}", {"op": op + "_f64"})

        for m, (kw, margs) in modes.items():
            tie(f"ext_overlap_{m}{tag}", lambda kw=kw: ops.intervals_overlap((s1, e1), (s2, e2), **kw), V,
                f"SE.Intervals.intervalsOverlap s1 e1 s2 e2 {margs}",
                f"SE.Intervals.intervalsOverlapR rnd s1 e1 s2 e2 {margs}", _UNF, _UNFR, "intervals_overlap")
        # the thresholds passed by position: third = absolute, fourth = relative
        tie(f"ext_overlap_positional{tag}", lambda: ops.intervals_overlap((s1, e1), (s2, e2), a), V,
            "SE.Intervals.intervalsOverlap s1 e1 s2 e2 (some a) none",
            "SE.Intervals.intervalsOverlapR rnd s1 e1 s2 e2 (some a) none", _UNF, _UNFR, "intervals_overlap")
        tie(f"ext_overlap_positional_rel{tag}", lambda: ops.intervals_overlap((s1, e1), (s2, e2), None, r), V,
            "SE.Intervals.intervalsOverlap s1 e1 s2 e2 none (some r)",
            "SE.Intervals.intervalsOverlapR rnd s1 e1 s2 e2 none (some r)", _UNF, _UNFR, "intervals_overlap")

        # geometry level: the bounds of a stand-in geometry are a symbolic 4-tuple -> pins which components are read
        BV = ["st1", "lo1", "en1", "hi1", "st2", "lo2", "en2", "hi2", "a", "r"]
        syms = {n: cls.var(n) for n in BV}
        G1, G2 = _Geom(tuple(syms[n] for n in BV[0:4])), _Geom(tuple(syms[n] for n in BV[4:8]))
        cs, ce, mm = cls.var("cs"), cls.var("ce"), cls.var("m")
        clip = _Clip(cs, ce)
        patched = None
        for attr, stub in _bounds_patches(ops):
            orig = getattr(ops, attr)
            setattr(ops, attr, stub)
            try:
                if _works(lambda: ops.have_temporal_overlap(G1, G2)) and _works(lambda: ops.is_in_clip(G1, clip)):
                    patched = (attr, orig)
                    break
            finally:
                if patched is None:
                    setattr(ops, attr, orig)
        if patched is None:          # neither stub fits: stub compute_bounds anyway, the traces fail one by one
            patched = ("compute_bounds", getattr(ops, "compute_bounds", None))
            ops.compute_bounds = lambda g: g._b
        ctx.tally("symbolic bounds stub: " + patched[0])
        try:
            for fname, mname, comp in [("have_temporal_overlap", "temporalOverlap", "st1 en1 st2 en2"),
                                       ("have_frequency_overlap", "frequencyOverlap", "lo1 hi1 lo2 hi2")]:
                opn = "temporal" if "temporal" in fname else "frequency"
                for m, (kw, margs) in modes.items():
                    kw = {k: syms["a"] if k == "min_absolute_overlap" else syms["r"] for k in kw}
                    tie(f"ext_{fname}_{m}{tag}", lambda kw=kw, fname=fname: getattr(ops, fname)(G1, G2, **kw), BV,
                        f"SE.Intervals.{mname} ⟨st1, lo1, en1, hi1⟩ ⟨st2, lo2, en2, hi2⟩ {margs}",
                        f"SE.Intervals.intervalsOverlapR rnd {comp} {margs}",
                        f"SE.Intervals.{mname} {_UNF}", _UNFR, opn)
                tie(f"ext_{fname}_positional{tag}",
                    lambda fname=fname: getattr(ops, fname)(G1, G2, syms["a"]), BV,
                    f"SE.Intervals.{mname} ⟨st1, lo1, en1, hi1⟩ ⟨st2, lo2, en2, hi2⟩ (some a) none",
                    f"SE.Intervals.intervalsOverlapR rnd {comp} (some a) none",
                    f"SE.Intervals.{mname} {_UNF}", _UNFR, opn)
            CV = ["st1", "lo1", "en1", "hi1", "cs", "ce", "m"]
            tie(f"ext_is_in_clip{tag}", lambda: ops.is_in_clip(G1, clip, minimum_overlap=mm), CV,
                "SE.Intervals.isInClip ⟨st1, lo1, en1, hi1⟩ cs ce m",
                "SE.Intervals.isInClipR rnd ⟨st1, lo1, en1, hi1⟩ cs ce m",
                "SE.Intervals.isInClip", "SE.Intervals.isInClipR", "is_in_clip")
            tie(f"ext_is_in_clip_positional{tag}", lambda: ops.is_in_clip(G1, clip, mm), CV,
                "SE.Intervals.isInClip ⟨st1, lo1, en1, hi1⟩ cs ce m",
                "SE.Intervals.isInClipR rnd ⟨st1, lo1, en1, hi1⟩ cs ce m",
                "SE.Intervals.isInClip", "SE.Intervals.isInClipR", "is_in_clip")
            tie(f"ext_is_in_clip_default{tag}", lambda: ops.is_in_clip(G1, clip), CV[:6],
                "SE.Intervals.isInClip ⟨st1, lo1, en1, hi1⟩ cs ce SE.Intervals.defaultMinimumOverlap",
                "SE.Intervals.isInClipR rnd ⟨st1, lo1, en1, hi1⟩ cs ce SE.Intervals.defaultMinimumOverlap",
                "SE.Intervals.isInClip SE.Intervals.defaultMinimumOverlap",
                "SE.Intervals.isInClipR SE.Intervals.defaultMinimumOverlap", "is_in_clip")
        finally:
            if patched[1] is not None:
                setattr(ops, patched[0], patched[1])
            else:
                try:
                    delattr(ops, patched[0])
                except AttributeError:
                    pass


# ---------------------------------------------------------------- tie 2 generators
def _grid_interval_cases(step_den, top=2):
    vals = [rat(Fraction(i, step_den)) for i in range(0, top * step_den + 1)]
    for s1, e1, s2, e2 in itertools.product(vals, repeat=4):
        for a, r in THRESHOLDS:
            yield {"i1": [s1, e1], "i2": [s2, e2], "abs": a, "rel": r}


def _typed_interval_cases():
    """the same predicate for ints, numpy scalars, Fractions, list intervals, positional and explicit-None
    thresholds (integers 0..3, all 4-tuples; thresholds incl. the falsy 0)"""
    vals = [str(i) for i in range(4)]
    thr = [(None, None), ("0", None), ("1", None), ("2", None), (None, "0"), (None, "1"), ("-1", None),
           (None, "-1"), (None, "2"), ("0", "0"), ("1", "1"), ("0", "1"), ("1", "0")]
    for s1, e1, s2, e2 in itertools.product(vals, repeat=4):
        for a, r in thr:
            for how in ("int", "np", "frac", "list", "pos", "f32", "i64"):
                if how == "pos" and a is None and r is None:
                    continue
                yield {"i1": [s1, e1], "i2": [s2, e2], "abs": a, "rel": r, "as": how}
            if a is None or r is None:
                yield {"i1": [s1, e1], "i2": [s2, e2], "abs": a, "rel": r, "explicit_none": True}


def _bool_threshold_cases():
    """True / False where a number is expected (accepted today: they are the integers 1 / 0)"""
    vals = [str(i) for i in range(4)]
    for s1, e1, s2, e2 in itertools.product(vals, repeat=4):
        for a, r in [("0", None), ("1", None), (None, "0"), (None, "1"), ("0", "1")]:
            yield {"i1": [s1, e1], "i2": [s2, e2], "abs": a, "rel": r, "thr_as": "bool"}


def _random_interval_cases(rng, n):
    for _ in range(n):
        k = rng.choice([1, 3, 6, 10])
        q = 1 << k
        hi = rng.choice([2, 16, 1000])
        pts = [Fraction(rng.randint(0, hi * q), q) for _ in range(4)]
        if rng.random() < 0.3:
            pts[2] = pts[rng.choice([0, 1])]   # touching / equal end points
        if rng.random() < 0.2:
            pts[3] = pts[rng.choice([0, 1])]
        mode = rng.choice(["none", "abs", "rel", "rel", "both"])
        a = r = None
        if mode in ("abs", "both"):
            a = rat(Fraction(rng.randint(-q, hi * q), q))
            if rng.random() < 0.3:      # exactly the intersection length
                a = rat(min(pts[1], pts[3]) - max(pts[0], pts[2]))
        if mode in ("rel", "both"):
            r = rat(Fraction(rng.randint(-2, q + 2), q))
        c = {"i1": [rat(pts[0]), rat(pts[1])], "i2": [rat(pts[2]), rat(pts[3])], "abs": a, "rel": r}
        if rng.random() < 0.1:
            c["as"] = rng.choice(["list", "np", "pos", "frac"])
            if c["as"] == "pos" and a is None and r is None:
                del c["as"]
        yield c


def _geom_pair_cases(rng, reps):
    for t1 in gen_geom.TYPES:
        for t2 in gen_geom.TYPES:
            for _ in range(reps):
                a, r = rng.choice(THRESHOLDS)
                yield {"g1": gen_geom.gen_geometry(rng, t1, tmax=4, fmax=4, k=2),
                       "g2": gen_geom.gen_geometry(rng, t2, tmax=4, fmax=4, k=2), "abs": a, "rel": r}


def geom_with_extent(ty, s, e, lo, hi):
    """a valid geometry of type `ty` whose time extent is [s, e] and whose frequency extent is [lo, hi]
    (time-only types: the band is the whole band; point-like types: the lower corner); None if impossible"""
    s, e, lo, hi = (Fraction(x) for x in (s, e, lo, hi))
    mt, mf = (s + e) / 2, (lo + hi) / 2
    if ty == "TimeStamp":
        c = s
    elif ty == "TimeInterval":
        c = [s, e]
    elif ty == "Point":
        c = [s, lo]
    elif ty == "BoundingBox":
        c = [s, lo, e, hi]
    elif ty == "LineString":
        c = [[s, hi], [mt, lo], [e, mf]]
    elif ty == "MultiPoint":
        c = [[e, lo], [s, hi], [mt, mf]]
    elif ty == "MultiLineString":
        if s == e:
            return None
        c = [[[s, mf], [mt, hi]], [[mt, lo], [e, mf]]]
    elif ty == "Polygon":
        if s == e or lo == hi:
            return None
        c = [[[s, lo], [e, mf], [mt, hi], [s, lo]]]
    elif ty == "MultiPolygon":
        if s == e or lo == hi:
            return None
        q = (e - s) / 4
        c = [[[[s, lo], [s + q, lo], [s, mf], [s, lo]]], [[[e, hi], [e - q, hi], [e, mf], [e, hi]]]]
    else:
        return None
    return {"type": ty, "coordinates": gen_geom._enc(c)}


# relations of two extents on a line: (s1, e1, s2, e2)
_RELATIONS = [(0, 1, 2, 3), (0, 1, 1, 2), (0, 2, 1, 3), (0, 3, 1, 2), (0, 2, 0, 2), (0, 2, 0, 1), (0, 2, 1, 2),
              (1, 1, 1, 2), (1, 1, 0, 2), (1, 1, 1, 1), (0, 1, "3/2", 2), (0, "3/2", 1, 2)]


def _geom_boundary_cases(rng, thr_per_case):
    """all 81 type pairs on every relation of the extents (disjoint, touching, partial, nested, equal, sharing an
    end, degenerate): every relation on the time axis with a drawn one on the frequency axis, and - the sibling -
    every relation on the frequency axis with a drawn one on the time axis"""
    for t1 in gen_geom.TYPES:
        for t2 in gen_geom.TYPES:
            for rel_t, rel_f in ([(x, rng.choice(_RELATIONS)) for x in _RELATIONS]
                                 + [(rng.choice(_RELATIONS), x) for x in _RELATIONS]):
                g1 = geom_with_extent(t1, rel_t[0], rel_t[1], rel_f[0], rel_f[1])
                g2 = geom_with_extent(t2, rel_t[2], rel_t[3], rel_f[2], rel_f[3])
                for order in ((g1, g2), (g2, g1)):
                    if order[0] is None or order[1] is None:
                        continue
                    for a, r in rng.sample(THRESHOLDS, thr_per_case) + [(None, None)]:
                        yield {"g1": order[0], "g2": order[1], "abs": a, "rel": r}
    # the same object as both arguments, positional thresholds
    for t in gen_geom.TYPES:
        g = geom_with_extent(t, 1, 2, 1, 2)
        for a, r in [(None, None), ("1", None), (None, "1"), ("2", None)]:
            yield {"g1": g, "g2": g, "abs": a, "rel": r, "same_object": True}
        yield {"g1": g, "g2": geom_with_extent("BoundingBox", 0, "3/2", 0, "3/2"), "abs": "1/2", "rel": None, "as": "pos"}
        yield {"g1": g, "g2": geom_with_extent("BoundingBox", 0, "3/2", 0, "3/2"), "abs": None, "rel": "1/2", "as": "pos"}


def _clip_cases(rng, reps):
    mins = ["0", "0", "1/4", "1", "-1/4", None]
    for ty in gen_geom.TYPES:
        for _ in range(reps):
            g = gen_geom.gen_geometry(rng, ty, tmax=4, fmax=4, k=2)
            a = Fraction(rng.randint(0, 16), 4)
            b = Fraction(rng.randint(0, 16), 4)
            if a > b:
                a, b = b, a
            yield {"g": g, "start": rat(a), "end": rat(b), "min": rng.choice(mins)}
    # every equality case on a small grid, time stamps and intervals
    vals = [Fraction(i, 2) for i in range(0, 7)]
    for cs, ce in itertools.combinations_with_replacement(vals, 2):
        for t in vals:
            for m in ["0", "1/2", None]:
                yield {"g": {"type": "TimeStamp", "coordinates": rat(t)}, "start": rat(cs), "end": rat(ce), "min": m}
        for s, e in itertools.combinations_with_replacement(vals, 2):
            yield {"g": {"type": "TimeInterval", "coordinates": [rat(s), rat(e)]},
                   "start": rat(cs), "end": rat(ce), "min": rng.choice(["0", "1/2", "1", None])}
    # every type on every placement relative to the clip [1, 2] (and the degenerate clip [1, 1])
    ext = [(0, "1/2"), (0, 1), (0, "3/2"), (1, "3/2"), (1, 2), ("5/4", "7/4"), ("3/2", 2), ("3/2", 3), (2, 3), ("5/2", 3),
           (0, 3), (1, 1), ("3/2", "3/2"), (2, 2), (0, 0)]
    for ty in gen_geom.TYPES:
        for s, e in ext:
            g = geom_with_extent(ty, s, e, 1, 2)
            if g is None:
                continue
            for cs, ce in ((1, 2), (1, 1)):
                for m, how in ((None, None), ("0", None), ("0", "int"), ("1/4", None), ("1/2", "pos"), ("1", "int"),
                               ("-1", "int"), ("-1/4", None)):
                    c = {"g": g, "start": rat(cs), "end": rat(ce), "min": m}
                    if how:
                        c["as"] = how
                    yield c


# ---------------------------------------------------------------- construction paths and call forms (HISTORIES.md 2)
_A, _R = "min_absolute_overlap", "min_relative_overlap"


def call_forms(a, r):
    """every legitimate way of writing a call that passes the thresholds (a, r) (None = Python None):
    C12_call_forms states that the model gives all of them the same answer"""
    out = [{"pos": [a, r], "kw": []}, {"pos": [a], "kw": [[_R, r]]}, {"pos": [], "kw": [[_A, a], [_R, r]]},
           {"pos": [], "kw": [[_R, r], [_A, a]]}]
    if r is None:
        out += [{"pos": [a], "kw": []}, {"pos": [], "kw": [[_A, a]]}]
    if a is None:
        out += [{"pos": [], "kw": [[_R, r]]}]
    if a is None and r is None:
        out += [{"pos": [], "kw": []}]
    return out


def _interval_form_cases():
    """every call form x every container of the two intervals x numpy / float scalars, on every relation of two
    intervals and every threshold setting"""
    for k, rel in enumerate(_RELATIONS + [(2, 0, 0, 3), (1, 0, 1, 0)]):
        i1, i2 = [rat(Fraction(rel[0])), rat(Fraction(rel[1]))], [rat(Fraction(rel[2])), rat(Fraction(rel[3]))]
        for n, (a, r) in enumerate(THRESHOLDS):
            for m, call in enumerate(call_forms(a, r)):
                for box in S.BOXES:
                    c = {"i1": i1, "i2": i2, "abs": a, "rel": r, "call": call, "box": box}
                    if (k + n + m) % 3 == 0:
                        c["as"] = "np"
                    yield c


def _geom_form_cases():
    ref = geom_with_extent("BoundingBox", 0, "3/2", 0, "3/2")
    for t in gen_geom.TYPES:
        g = geom_with_extent(t, 1, 2, 1, 2)
        for a, r in THRESHOLDS:
            for call in call_forms(a, r):
                yield {"g1": g, "g2": ref, "abs": a, "rel": r, "call": call}
                yield {"g1": ref, "g2": g, "abs": a, "rel": r, "call": call}


def _clip_form_cases():
    for t in gen_geom.TYPES:
        for s, e in [(0, 1), (0, "3/2"), ("5/4", "7/4"), ("3/2", 3), (2, 3), ("5/4", "5/4"), (1, 1)]:
            g = geom_with_extent(t, s, e, 1, 2)
            if g is None:
                continue
            for m in ["0", "1/4", "1/2", "-1/4"]:
                for call in ({"pos": [m], "kw": []}, {"pos": [], "kw": [["minimum_overlap", m]]}):
                    yield {"g": g, "start": "1", "end": "2", "min": m, "call": call}
            yield {"g": g, "start": "1", "end": "2", "min": None, "call": {"pos": [], "kw": []}}


def _construction_pair_cases(rng):
    """every geometry type through every construction path of the data model (constructor, geometry_validate
    dict / json / attributes, model_validate(_json), ints, numpy scalars, tuples, copies, dump round trip), as first
    and as second argument, on disjoint / touching / partial / nested placements"""
    rels = [(0, 1, 2, 3), (0, 1, 1, 2), (0, 2, 1, 3), (0, 3, 1, 2)]
    for t in gen_geom.TYPES:
        for how in S.GEOM_BUILDS:
            for rel in rels:
                g = geom_with_extent(t, rel[0], rel[1], rel[0], rel[1])
                ref = geom_with_extent(rng.choice(["BoundingBox", "TimeInterval", "LineString"]), rel[2], rel[3], rel[2], rel[3])
                if g is None:
                    continue
                for a, r in [(None, None), rng.choice(THRESHOLDS), rng.choice(THRESHOLDS)]:
                    yield {"g1": g, "g2": ref, "abs": a, "rel": r, "build1": how, "build2": rng.choice(S.GEOM_BUILDS)}
                    yield {"g1": ref, "g2": g, "abs": a, "rel": r, "build2": how}


def _construction_clip_cases(rng):
    """geometry construction paths x clip construction paths (constructor, model_validate, JSON round trip, fixed
    uuid) x number types of the clip times"""
    places = [(0, 1), (0, "3/2"), ("5/4", "7/4"), (2, 3), ("3/2", "3/2")]
    for t in gen_geom.TYPES:
        for how in S.GEOM_BUILDS:
            for ch in ("new", "same_uuid", "validate", "json", "subclass"):
                s, e = rng.choice(places)
                g = geom_with_extent(t, s, e, 1, 2)
                if g is None:
                    continue
                yield {"g": g, "start": "1", "end": "2", "min": rng.choice([None, "0", "1/4", "1/2"]), "build": how,
                       "clip_how": ch, "clip_num": rng.choice(S.CLIP_NUMS)}


# ---------------------------------------------------------------- sizes (HISTORIES.md 4): many vertices / parts
BIG_TYPES = ["LineString", "MultiPoint", "MultiLineString", "Polygon", "MultiPolygon"]
BIG_SIZES = [17, 257, 1025]


def big_geometry(ty, n, where, s=1, e=3, lo=1, hi=3):
    """a geometry with >= n vertices (lines / polygons for the Multi* types) whose extent [s, e] x [lo, hi] is
    attained *only* at four vertices placed at the position `where` (0 = first .. n = last) of the vertex list;
    all other vertices lie in the inner box shrunk by 1/4.  All coordinates dyadic."""
    s, e, lo, hi = (Fraction(x) for x in (s, e, lo, hi))
    d = Fraction(1, 4)
    bulk = []
    for i in range(n):
        t = s + d + (e - s - 2 * d) * Fraction(i, 2048)
        f = (hi - d) if i % 2 else (lo + d)
        bulk.append([t, f])
    mt, mf = (s + e) / 2, (lo + hi) / 2
    ext = [[s, mf], [mt, lo], [mt, hi], [e, mf]]
    where = max(0, min(n, where))
    if ty in ("LineString", "MultiPoint", "Polygon"):
        pts = bulk[:where] + ext + bulk[where:]
        if ty == "Polygon":
            return {"type": ty, "coordinates": gen_geom._enc([pts + [pts[0]]])}
        return {"type": ty, "coordinates": gen_geom._enc(pts)}
    if ty == "MultiLineString":
        lines = [[p, [p[0] + Fraction(1, 4096), p[1]]] for p in bulk]
        special = [[[s, mf], [mt, lo]], [[mt, hi], [e, mf]]]
        return {"type": ty, "coordinates": gen_geom._enc(lines[:where] + special + lines[where:])}
    if ty == "MultiPolygon":
        def tri(p, w=Fraction(1, 4096)):
            return [[p, [p[0] + w, p[1]], [p[0], p[1] + w if p[1] < mf else p[1] - w], p]]
        polys = [tri(p) for p in bulk]
        special = [[[[s, mf], [s + d, mf], [s + d, lo], [s, mf]]], [[[e, mf], [e - d, mf], [e - d, hi], [e, mf]]]]
        return {"type": ty, "coordinates": gen_geom._enc(polys[:where] + special + polys[where:])}
    return None


def _big_cases(plan):
    """the four extremes of a large geometry are each the only thing a reference geometry / a clip reaches;
    `plan`: (number of vertices, positions of the extremes in the vertex list)"""
    d8 = Fraction(1, 8)
    for ty in BIG_TYPES:
        for n, wheres in plan:
            for k, where in enumerate(wheres):
                g = big_geometry(ty, n, where)
                early, late = geom_with_extent("TimeInterval", 0, 1 + d8, 0, 1), geom_with_extent("TimeInterval", 3 - d8, 4, 0, 1)
                low, high = geom_with_extent("BoundingBox", 0, 4, 0, 1 + d8), geom_with_extent("BoundingBox", 0, 4, 3 - d8, 4)
                if k % 2:
                    early, late, low, high = late, early, high, low
                yield "temporal", {"g1": g, "g2": early, "abs": None, "rel": None}
                yield "temporal", {"g1": late, "g2": g, "abs": "1/8", "rel": None}
                yield "frequency", {"g1": low, "g2": g, "abs": None, "rel": None}
                yield "frequency", {"g1": g, "g2": high, "abs": None, "rel": "1"}
                yield "is_in_clip", {"g": g, "start": "0", "end": rat(1 + d8), "min": None}
                yield "is_in_clip", {"g": g, "start": rat(3 - d8), "end": "4", "min": "1/16"}


# ---------------------------------------------------------------- histories (HISTORIES.md 1)
# contents an object is moved between: relative to the reference box / the clip [2, 5] (x [2, 5] Hz) A reaches in
# over the start only, B over the end only, C lies after it, D before it, E covers it - so every answer depends on
# both ends of the extent, and consecutive contents of an order have different answers
_SLOT_EXT = {"A": (1, 3, 1, 3), "B": (4, 7, 4, 7), "C": (6, 7, 6, 7), "D": (0, 1, 0, 1), "E": (0, 8, 0, 8)}
_SLOT_ORDERS = [("A", "C", "B"), ("D", "A", "C"), ("B", "D", "E")]
_FIRST_TOUCHES = ["compute_bounds", "compute_bounds_poison", "shapely", "repr", "dump", "temporal_self", "in_clip_self"]


def _session_templates():
    """seeded C12-7 and its whole class, enumerated: every geometry type x every way of changing an object
    (GEOM_CHANGES in place, GEOM_DERIVES into a second object) x every first use (each predicate, compute_bounds,
    the shapely conversion ...): use, move, ask again - in three orders of contents"""
    ref = geom_with_extent("BoundingBox", 2, 5, 2, 5)
    first_uses = [[{"do": "temporal", "a": 0, "b": 1, "abs": None, "rel": None}],
                  [{"do": "frequency", "a": 1, "b": 0, "abs": None, "rel": None}],
                  [{"do": "in_clip", "a": 0, "clip": 0, "min": None}]] + [[{"do": "touch", "slot": 0, "what": w}] for w in _FIRST_TOUCHES]
    k = 0
    for t in gen_geom.TYPES:
        for how in S.GEOM_CHANGES + ["derive:" + h for h in S.GEOM_DERIVES]:
            for fu in first_uses:
                for order in _SLOT_ORDERS:
                    k += 1
                    g = [geom_with_extent(t, *_SLOT_EXT[x]) for x in order]
                    if any(x is None for x in g):
                        continue
                    build = S.GEOM_BUILDS[k % len(S.GEOM_BUILDS)]
                    steps = [{"do": "set", "slot": 0, "g": g[0], "how": "new", "build": build},
                             {"do": "set", "slot": 1, "g": ref, "how": "new"},
                             {"do": "clip", "slot": 0, "start": "2", "end": "5", "how": "new"}] + [dict(x) for x in fu]
                    slot = 0
                    for j in (1, 2):
                        if how.startswith("derive:"):
                            steps.append({"do": "derive", "slot": slot + 2, "src": slot, "g": g[j], "how": how[7:]})
                            old, slot = slot, slot + 2
                        else:
                            steps.append({"do": "set", "slot": 0, "g": g[j], "how": how})
                            old = None
                        form = S.FORMS[(k + j) % len(S.FORMS)]
                        qs = [{"do": "temporal", "a": slot, "b": 1, "abs": None, "rel": None, "form": form},
                              {"do": "temporal", "a": 1, "b": slot, "abs": None, "rel": "1/2", "form": form},
                              {"do": "frequency", "a": slot, "b": 1, "abs": None, "rel": None},
                              {"do": "frequency", "a": 1, "b": slot, "abs": "1/2", "rel": None, "form": form},
                              {"do": "in_clip", "a": slot, "clip": 0, "min": None},
                              {"do": "in_clip", "a": slot, "clip": 0, "min": "1/2", "form": form}]
                        if old is not None:      # the object the copy was derived from still answers for its own content
                            qs += [{"do": "temporal", "a": old, "b": 1, "abs": None, "rel": None},
                                   {"do": "in_clip", "a": old, "clip": 0, "min": None},
                                   {"do": "temporal", "a": old, "b": slot, "abs": None, "rel": None}]
                        steps += qs
                    yield {"steps": steps}


def _clip_session_templates():
    """the clip side: a clip that was used is changed (assignment, model_copy(update=...) - which keeps its uuid -,
    copy + assignment) or replaced by another clip with the same uuid, then used again"""
    for t in ("TimeStamp", "TimeInterval", "BoundingBox", "LineString", "MultiPolygon"):
        for how in S.CLIP_HOWS:
            for num in S.CLIP_NUMS:
                g1, g2 = geom_with_extent(t, 6, 7, 1, 2), geom_with_extent(t, 1, 2, 1, 2)
                if g1 is None or g2 is None:
                    continue
                steps = [{"do": "set", "slot": 0, "g": g1, "how": "new"}, {"do": "set", "slot": 1, "g": g2, "how": "new"},
                         {"do": "clip", "slot": 0, "start": "0", "end": "5", "how": "same_uuid", "num": num}]
                for cs, ce in (("0", "5"), ("5", "10"), ("13/2", "10"), ("0", "3/2")):
                    steps.append({"do": "clip", "slot": 0, "start": cs, "end": ce, "how": how, "num": num, "uuid": 0})
                    for m, form in ((None, "kw"), ("1/2", "pos"), ("1", "kw")):
                        steps.append({"do": "in_clip", "a": 0, "clip": 0, "min": m, "form": form})
                        steps.append({"do": "in_clip", "a": 1, "clip": 0, "min": m, "form": form})
                yield {"steps": steps}


def _option_session_templates():
    """the same objects / the same intervals asked with one option after another, then plainly again: a cache
    keyed by the subjects alone, or an option remembered in module state, shows in the later answers"""
    for t1 in gen_geom.TYPES:
        g1, g2 = geom_with_extent(t1, 0, 2, 0, 2), geom_with_extent("BoundingBox", 1, 3, 1, 3)
        steps = [{"do": "set", "slot": 0, "g": g1, "how": "new"}, {"do": "set", "slot": 1, "g": g2, "how": "new"},
                 {"do": "clip", "slot": 0, "start": "1", "end": "3", "how": "new"}]
        for a, r in THRESHOLDS + [(None, None)] + THRESHOLDS[::-1]:
            steps.append({"do": "temporal", "a": 0, "b": 1, "abs": a, "rel": r})
            steps.append({"do": "frequency", "a": 0, "b": 1, "abs": a, "rel": r})
        for m in [None, "1", "0", None, "-1", None, "1/2", "2", None]:
            steps.append({"do": "in_clip", "a": 0, "clip": 0, "min": m})
        yield {"steps": steps}
    for box in S.BOXES:
        steps = []
        for a, r in THRESHOLDS + [(None, None)] + THRESHOLDS[::-1] + [(None, None)]:
            steps.append({"do": "intervals", "i1": ["0", "2"], "i2": ["1", "3"], "abs": a, "rel": r, "box": box})
            steps.append({"do": "intervals", "i1": ["1", "3"], "i2": ["0", "2"], "abs": a, "rel": r, "box": box,
                          "form": "pos"})
        yield {"steps": steps}


def _random_sessions(rng, n):
    """random histories on three geometry slots and two clips"""
    grid = [Fraction(i, 4) for i in range(0, 33)]

    def rgeom(t):
        for _ in range(20):
            a, b = sorted(rng.sample(grid, 2))
            lo, hi = sorted(rng.sample(grid, 2))
            if rng.random() < 0.15:
                b = a
            g = geom_with_extent(t, a, b, lo, hi)
            if g is not None:
                return g
        return geom_with_extent(t, 1, 2, 1, 2)

    for _ in range(n):
        types = {}
        steps = []
        for k in range(3):
            types[k] = rng.choice(gen_geom.TYPES)
            steps.append({"do": "set", "slot": k, "g": rgeom(types[k]), "how": "new", "build": rng.choice(S.GEOM_BUILDS)})
        for k in range(2):
            a, b = sorted(rng.sample(grid, 2))
            steps.append({"do": "clip", "slot": k, "start": rat(a), "end": rat(b), "how": rng.choice(["new", "same_uuid"]),
                          "num": rng.choice(S.CLIP_NUMS)})
        for _ in range(rng.randint(8, 18)):
            u = rng.random()
            a, r = rng.choice(THRESHOLDS)
            if u < 0.22:
                k = rng.randrange(3)
                steps.append({"do": "set", "slot": k, "g": rgeom(types[k]), "how": rng.choice(S.GEOM_CHANGES)})
            elif u < 0.30:
                src, dst = rng.sample(range(3), 2)
                types[dst] = types[src]
                steps.append({"do": "derive", "slot": dst, "src": src, "g": rgeom(types[src]), "how": rng.choice(S.GEOM_DERIVES)})
            elif u < 0.34:
                k = rng.randrange(3)
                types[k] = rng.choice(gen_geom.TYPES)
                steps.append({"do": "set", "slot": k, "g": rgeom(types[k]), "how": "new", "build": rng.choice(S.GEOM_BUILDS)})
            elif u < 0.42:
                x, y = sorted(rng.sample(grid, 2))
                steps.append({"do": "clip", "slot": rng.randrange(2), "start": rat(x), "end": rat(y),
                              "how": rng.choice(S.CLIP_HOWS), "num": rng.choice(S.CLIP_NUMS), "uuid": rng.choice([None, 0, 1])})
            elif u < 0.50:
                steps.append({"do": "touch", "slot": rng.randrange(3), "what": rng.choice(S.TOUCHES)})
            elif u < 0.56:
                p = sorted(rng.sample(grid, 2)) + sorted(rng.sample(grid, 2))
                steps.append({"do": "intervals", "i1": [rat(p[0]), rat(p[1])], "i2": [rat(p[2]), rat(p[3])], "abs": a, "rel": r,
                              "box": rng.choice(S.BOXES), "form": rng.choice(S.FORMS)})
            elif u < 0.72:
                steps.append({"do": "temporal", "a": rng.randrange(3), "b": rng.randrange(3), "abs": a, "rel": r,
                              "form": rng.choice(S.FORMS)})
            elif u < 0.86:
                steps.append({"do": "frequency", "a": rng.randrange(3), "b": rng.randrange(3), "abs": a, "rel": r,
                              "form": rng.choice(S.FORMS)})
            else:
                steps.append({"do": "in_clip", "a": rng.randrange(3), "clip": rng.randrange(2),
                              "min": rng.choice([None, "0", "1/4", "1", "-1/4"]), "form": rng.choice(["kw", "pos"])})
        yield {"steps": steps}


def _stage_histories(ctx):
    hs = list(_session_templates()) + list(_clip_session_templates()) + list(_option_session_templates())
    ctx.exhaustive["histories"] = (f"9 types x {len(S.GEOM_CHANGES)} in-place changes + {len(S.GEOM_DERIVES)} derivations x "
                                   f"{3 + len(_FIRST_TOUCHES)} first uses x {len(_SLOT_ORDERS)} orders of contents; 5 types x {len(S.CLIP_HOWS)} clip changes x "
                                   f"{len(S.CLIP_NUMS)} number types; option sequences on 9 types and 4 interval containers")
    hs += list(_random_sessions(ctx.rng, ctx.budget(150, 2500)))
    for h in hs:
        for st_ in h["steps"]:
            if st_["do"] in ("set", "derive", "clip"):
                ctx.tally(f"history:{st_['do']}:{st_.get('how', 'new')}")
            elif st_["do"] == "touch":
                ctx.tally("history:touch:" + st_.get("what", ""))
            else:
                ctx.tally("history:call:" + st_["do"])
    ctx.run_cases(OPS["session"], hs)
    for k, v in sorted(S.FALLBACKS.items()):
        ctx.tally("path refused by the data model (fresh object used instead): " + k, v)


def _stage_construction(ctx):
    ctx.run_cases(OPS["intervals_overlap"], _interval_form_cases())
    forms = list(_geom_form_cases())
    ctx.run_cases(OPS["temporal"], forms)
    ctx.run_cases(OPS["frequency"], forms)
    ctx.run_cases(OPS["is_in_clip"], _clip_form_cases())
    ctx.exhaustive["call forms"] = ("every way of writing the optional arguments (positional, mixed, keywords in both orders, "
                                    "explicit None, omitted) x 17 threshold settings x 14 interval relations x 4 containers; "
                                    "9 types x both argument positions; is_in_clip positional / keyword / default")
    pairs = list(_construction_pair_cases(ctx.rng))
    ctx.run_cases(OPS["temporal"], pairs)
    ctx.run_cases(OPS["frequency"], pairs)
    ctx.run_cases(OPS["is_in_clip"], _construction_clip_cases(ctx.rng))
    ctx.exhaustive["construction paths"] = (f"9 types x {len(S.GEOM_BUILDS)} construction paths x 4 placements x both argument "
                                            "positions; x 4 clip construction paths x 3 number types")
    by_op = {}
    plan = [(n, (1, n // 2, n // 2 + 1, n)) for n in BIG_SIZES] if ctx.thorough() else \
        [(17, (1, 8, 17)), (257, (1, 128, 257)), (1025, (512 + ctx.seed % 2, 1025))]
    for opn, c in _big_cases(plan):
        by_op.setdefault(opn, []).append(c)
    for opn, cs in by_op.items():
        ctx.run_cases(OPS[opn], cs)
    ctx.exhaustive["sizes"] = "5 multi-vertex types x {17, 257, 1025} vertices / parts x extreme at the start / middle / end"


# ---------------------------------------------------------------- tolerance-sized offsets, lattices (HISTORIES.md 4)
_MAGNITUDES = [1e-3, 1.0, 1e3, 1e6]
_EPSILONS = [1e-6, 1e-7, 1e-8, 1e-9, 1e-10, 1e-11, 1e-12]


def _tolerance_cases(rng):
    """every comparison the property pins, missed / met by a relative 1e-6 .. 1e-12 of the threshold, at small and
    large magnitudes: thousands of ulps, far outside the rounding band, so the exact answer is demanded (an
    `isclose`, an epsilon added to either side, a rounded operand all show here).  Yields (op, case)."""
    for M in _MAGNITUDES:
        for eps in _EPSILONS:
            for sign in (-1.0, 1.0):
                s1 = M * rng.uniform(0.5, 4)
                w = M * rng.uniform(0.5, 2)
                e1 = s1 + w
                x = w * rng.uniform(0.3, 0.9)               # the intersection: comparable to the widths
                s2 = e1 - x
                e2 = s2 + w * rng.choice([1.5, 3.0])
                xx = float(min(Fraction(e1), Fraction(e2)) - max(Fraction(s1), Fraction(s2)))
                i1, i2 = [rat(s1), rat(e1)], [rat(s2), rat(e2)]
                a = xx * (1 + sign * eps)
                swap = rng.random() < 0.5
                c = {"i1": i2 if swap else i1, "i2": i1 if swap else i2, "abs": rat(a), "rel": None}
                yield "intervals_overlap_f64", c
                # relative: the second interval placed so that the intersection is r * (1 -/+ eps) of the shorter width
                r = rng.choice([0.25, 0.3, 0.5, 0.7, 0.9])
                w1 = float(Fraction(e1) - Fraction(s1))
                s2r = e1 - r * w1 * (1 - sign * eps)
                c2 = {"i1": i1, "i2": [rat(s2r), rat(s2r + 2 * w1)], "abs": None, "rel": rat(r)}
                if swap:
                    c2["i1"], c2["i2"] = c2["i2"], c2["i1"]
                yield "intervals_overlap_f64", c2
                # the same through the geometry predicates (time axis: intervals; frequency axis: boxes; magnitudes
                # of the frequency axis stay below MAX_FREQUENCY)
                if M <= 1e3:
                    lo, hi = rng.uniform(100, 200), rng.uniform(300, 400)
                    g1 = {"type": "BoundingBox", "coordinates": [rat(s1), rat(lo), rat(e1), rat(hi)]}
                    g2 = {"type": rng.choice(["TimeInterval", "BoundingBox"]), "coordinates": None}
                    if g2["type"] == "TimeInterval":
                        g2["coordinates"] = [rat(s2), rat(e2)]
                    else:
                        g2["coordinates"] = [rat(s2), rat(lo), rat(e2), rat(hi)]
                    yield "temporal_f64", {"g1": g1, "g2": g2, "abs": rat(a), "rel": None}
                    yield "temporal_f64", {"g1": g2, "g2": g1, "abs": rat(a), "rel": None}
                    f1 = {"type": "BoundingBox", "coordinates": ["1", rat(s1), "2", rat(e1)]}
                    f2 = {"type": "BoundingBox", "coordinates": ["0", rat(s2), "3", rat(e2)]}
                    yield "frequency_f64", {"g1": f1, "g2": f2, "abs": rat(a), "rel": None}
                    f2r = {"type": "BoundingBox", "coordinates": ["0", rat(s2r), "3", rat(s2r + 2 * w1)]}
                    yield "frequency_f64", {"g1": f2r, "g2": f1, "abs": None, "rel": rat(r)}
                # is_in_clip: the event ends a relative eps after / before clip start + m, or starts as much
                # before / after clip end - m
                cs, m = M * rng.uniform(1, 3), M * rng.choice([0.0, 0.1, 0.5])
                ce = cs + M * rng.uniform(2, 4)
                edge1, edge2 = float(Fraction(cs) + Fraction(m)), float(Fraction(ce) - Fraction(m))
                ty = rng.choice(["TimeInterval", "BoundingBox"])

                def geom(s, e, ty=ty):
                    if ty == "TimeInterval":
                        return {"type": ty, "coordinates": [rat(s), rat(e)]}
                    return {"type": ty, "coordinates": [rat(s), "100", rat(e), "200"]}
                end = edge1 * (1 + sign * eps)
                yield "is_in_clip_f64", {"g": geom(max(0.0, end - M), end), "start": rat(cs), "end": rat(ce), "min": rat(m)}
                start = edge2 * (1 + sign * eps)
                yield "is_in_clip_f64", {"g": geom(start, start + M), "start": rat(cs), "end": rat(ce), "min": rat(m)}
                t = rng.choice([end, start])
                yield "is_in_clip_f64", {"g": {"type": "TimeStamp", "coordinates": rat(t)}, "start": rat(cs), "end": rat(ce),
                                         "min": rat(m)}


def _lattice_cases(stride, offset):
    """non-dyadic lattices: every point k/100 of the axis against every `stride`-th point j/100 (all of them in
    thorough): interval ends, thresholds that are ties in decimal arithmetic, clip edges start + m"""
    pts = [k / 100 for k in range(101)]
    for k in range(101):
        for j in range(offset % stride, 101, stride):
            # [0, 1] against [j/100, 2] with the decimal tie (100 - j)/100 as threshold, [0, k/100] against [j/100, 1]
            yield "intervals_overlap_f64", {"i1": ["0", "1"], "i2": [rat(pts[j]), "2"], "abs": rat((100 - j) / 100), "rel": None}
            yield "intervals_overlap_f64", {"i1": ["0", rat(pts[k])], "i2": [rat(pts[j]), "1"],
                                            "abs": rat(max(k - j, 0) / 100), "rel": None}
            yield "intervals_overlap_f64", {"i1": [rat(pts[j]), rat(pts[j] + pts[k])], "i2": ["0", "3"], "abs": None,
                                            "rel": rat(pts[k])}
            # clip [k/100, 3] with minimum j/100: the event ends exactly on (k + j)/100
            yield "is_in_clip_f64", {"g": {"type": "TimeInterval", "coordinates": ["0", rat((k + j) / 100)]},
                                     "start": rat(pts[k]), "end": "3", "min": rat(pts[j])}
            yield "is_in_clip_f64", {"g": {"type": "TimeStamp", "coordinates": rat(3 - (k + j) / 100)},
                                     "start": rat(pts[k]), "end": "3", "min": rat(pts[j])}


# ---------------------------------------------------------------- arbitrary binary64 inputs
def _ulp_shift(x, k):
    for _ in range(abs(k)):
        x = math.nextafter(x, math.inf if k > 0 else -math.inf)
    return x


_FRACTIONS = [0.1, 0.2, 0.25, 0.3, 1 / 3, 0.5, 0.6, 0.7, 0.9, 1.0, 0.0]


def _float_interval_cases(rng, n):
    for i in range(n):
        scale = rng.choice([1.0, 1.0, 10.0, 1e3, 1e-2])
        kind = rng.random()
        s1 = rng.uniform(0, 5) * scale
        e1 = s1 + rng.uniform(0, 3) * scale
        if kind < 0.25:
            s2, e2 = rng.uniform(0, 5) * scale, rng.uniform(0, 8) * scale
        else:
            s2 = rng.uniform(s1, e1)
            e2 = s2 + rng.uniform(0, 3) * scale
        if rng.random() < 0.1:
            s2 = e1
        x = min(e1, e2) - max(s1, s2)
        mode = rng.choice(["none", "abs", "abs", "rel", "rel", "rel", "both"])
        a = r = None
        if mode in ("abs", "both"):
            a = rng.choice([x, _ulp_shift(x, 1), _ulp_shift(x, -1), 0.1 * scale, rng.uniform(-1, 3) * scale, 0.0])
        if mode in ("rel", "both"):
            r = rng.choice(_FRACTIONS + [rng.random(), -0.1, 1.0000001, _ulp_shift(1.0, 1), _ulp_shift(0.0, -1)])
            if mode == "rel" and 0 <= r <= 1 and rng.random() < 0.6:
                # put the second interval so that the intersection is (nearly) r times the shorter width
                w = e1 - s1
                s2 = _ulp_shift(e1 - r * w, rng.choice([-2, -1, 0, 0, 1, 2]))
                e2 = s2 + w * rng.choice([1.0, 1.5, 3.0])
        c = {"i1": [rat(s1), rat(e1)], "i2": [rat(s2), rat(e2)], "abs": None if a is None else rat(a),
             "rel": None if r is None else rat(r)}
        if rng.random() < 0.5:
            c["i1"], c["i2"] = c["i2"], c["i1"]
        yield c


_FLOAT_TYPES = ["TimeStamp", "TimeInterval", "Point", "BoundingBox", "LineString", "MultiPoint", "MultiLineString",
                "Polygon", "MultiPolygon"]


def _float_geom(rng, ty, s=None, e=None):
    s = rng.uniform(0, 5) if s is None else s
    e = s + rng.uniform(0.01, 3) if e is None else e
    lo = rng.uniform(0, 4000)
    hi = lo + rng.uniform(1, 4000)
    g = geom_with_extent(ty, Fraction(s), Fraction(e), Fraction(lo), Fraction(hi))
    # the mid points of `geom_with_extent` are exact rationals: round every coordinate to binary64
    def fl(c):
        return [fl(x) for x in c] if isinstance(c, list) else rat(float(frac(c)))
    return {"type": ty, "coordinates": fl(g["coordinates"])}


def _float_geom_cases(rng, n):
    for _ in range(n):
        t1, t2 = rng.choice(_FLOAT_TYPES), rng.choice(_FLOAT_TYPES)
        s1 = rng.uniform(0, 5)
        e1 = s1 + rng.uniform(0.01, 3)
        s2 = rng.choice([rng.uniform(0, 6), rng.uniform(s1, e1)])
        e2 = s2 + rng.uniform(0.01, 3)
        g1, g2 = _float_geom(rng, t1, s=s1, e=e1), _float_geom(rng, t2, s=s2, e=e2)
        x = min(e1 if t1 not in ("TimeStamp", "Point") else s1, e2 if t2 not in ("TimeStamp", "Point") else s2) - max(s1, s2)
        mode = rng.choice(["none", "abs", "rel", "rel", "both"])
        a = r = None
        if mode in ("abs", "both"):
            a = rng.choice([0.1, 0.0, rng.uniform(0, 2), rng.uniform(0, 3000), x, _ulp_shift(x, 1), _ulp_shift(x, -1)])
        if mode in ("rel", "both"):
            r = rng.choice(_FRACTIONS + [rng.random(), -0.1, 1.1])
        yield {"g1": g1, "g2": g2, "abs": None if a is None else rat(a), "rel": None if r is None else rat(r)}


def _float_clip_cases(rng, n):
    for _ in range(n):
        ty = rng.choice(_FLOAT_TYPES)
        cs = rng.uniform(0, 5)
        ce = cs + rng.uniform(0, 5)
        m = rng.choice([0.1, 0.3, 0.7, rng.uniform(0, 2), 0.0, -0.1, None])
        mm = 0.0 if m is None else m
        # geometry edges on (or one ulp off) the rounded clip edges
        s = rng.choice([rng.uniform(0, 8), _ulp_shift(ce - mm, rng.choice([-1, 0, 1]))])
        e = rng.choice([s + rng.uniform(0.01, 3), _ulp_shift(cs + mm, rng.choice([-1, 0, 1]))])
        if s < 0 or e <= s:
            s, e = rng.uniform(0, 4), None
        yield {"g": _float_geom(rng, ty, s=s, e=e), "start": rat(cs), "end": rat(ce), "min": None if m is None else rat(m)}


def _rnd64_contract(ctx):
    """the driver's `rnd64` is binary64 round-to-nearest-even (compared with CPython's correctly rounded
    float(Fraction)) and has relative error <= 2^-53 (the hypothesis `RelErr` of C12_float_band) on the samples"""
    rng = ctx.rng
    xs = []
    for _ in range(ctx.budget(100, 1000)):
        a, b = rng.uniform(0, 10), rng.uniform(1e-3, 5000)
        xs += [Fraction(a) + Fraction(b), Fraction(a) - Fraction(b), Fraction(a) * Fraction(b),
               Fraction(rng.randint(-10 ** 6, 10 ** 6), rng.randint(1, 10 ** 6))]
    xs += [Fraction(2 ** 53 + 1, 2 ** 60), Fraction(2 ** 53 + 3, 2 ** 60), Fraction(-(2 ** 53 + 1), 2 ** 10), Fraction(1),
           Fraction(0), Fraction(1, 3), Fraction(5_000_000)]
    outs = ctx.model_many("rnd64", [{"x": rat(x)} for x in xs])
    u = frac(U53)
    for x, mo in zip(xs, outs):
        y = frac(mo["val"])
        ctx.contract("rnd64 = binary64 round-to-nearest-even, relative error <= 2^-53",
                     y == Fraction(float(x)) and abs(y - x) <= u * abs(x), None, {"x": rat(x), "rnd64": mo["val"]})


def run(ctx):
    import time
    times = []

    def stage(name, fn, *args):
        t0 = time.time()
        ctx.stage(name, fn, *args)
        times.append(f"{name} {time.time() - t0:.1f}s")
    stage("signature-table", _signature_table, ctx)
    stage("symbolic-ties", _symbolic_ties, ctx)
    stage("discharge", ctx.discharge, ["SoundeventModel.Intervals", "SoundeventModel.Tactics"])
    stage("correspondence", _correspondence, ctx)
    stage("construction-paths", _stage_construction, ctx)
    stage("histories", _stage_histories, ctx)
    stage("rnd64-contract", _rnd64_contract, ctx)
    stage("binary64", _floats, ctx)
    ctx.note("stage wall times: " + ", ".join(times))


def _correspondence(ctx):
    ctx.run_corpus(OPS)
    den = 4 if ctx.thorough() else 2
    ctx.run_cases(OPS["intervals_overlap"], _grid_interval_cases(den))
    ctx.exhaustive["intervals_overlap grid"] = f"end points i/{den}, i=0..{2 * den}, all 4-tuples x {len(THRESHOLDS)} threshold settings"
    ctx.run_cases(OPS["intervals_overlap"], _typed_interval_cases())
    ctx.run_cases(OPS["intervals_overlap"], _bool_threshold_cases())
    ctx.exhaustive["intervals_overlap argument types"] = ("end points 0..3, all 4-tuples x 13 threshold settings x "
                                                          "{int, numpy.float64 / float32 / int64, Fraction, list intervals, positional, explicit None}; "
                                                          "booleans as thresholds")
    ctx.run_cases(OPS["intervals_overlap"], _random_interval_cases(ctx.rng, ctx.budget(4000, 60000)))
    pairs = list(_geom_pair_cases(ctx.rng, ctx.budget(3, 40)))
    pairs += list(_geom_boundary_cases(ctx.rng, ctx.budget(2, 6)))
    ctx.exhaustive["geometry pairs"] = "81 type pairs x 12 extent relations x both orders, enumerated on the time axis and on the frequency axis (the other axis drawn)"
    ctx.run_cases(OPS["temporal"], pairs)
    ctx.run_cases(OPS["frequency"], pairs)
    ctx.run_cases(OPS["is_in_clip"], _clip_cases(ctx.rng, ctx.budget(40, 600)))
    ctx.exhaustive["is_in_clip grid"] = ("clip ends and time stamps / intervals on i/2, i=0..6, all placements; all 9 types "
                                         "x 15 placements x 8 minimum settings incl. the default")


def _floats(ctx):
    _run_float(ctx, OPS["intervals_overlap_f64"], _float_interval_cases(ctx.rng, ctx.budget(3000, 40000)))
    pairs = list(_float_geom_cases(ctx.rng, ctx.budget(600, 8000)))
    _run_float(ctx, OPS["temporal_f64"], pairs)
    _run_float(ctx, OPS["frequency_f64"], pairs)
    _run_float(ctx, OPS["is_in_clip_f64"], _float_clip_cases(ctx.rng, ctx.budget(1000, 12000)))
    _boundaries(ctx, ctx.budget(2, 6), 1 if ctx.thorough() else 6)


def _boundaries(ctx, reps, stride):
    by_op = {}
    for _ in range(reps):
        for opn, c in _tolerance_cases(ctx.rng):
            by_op.setdefault(opn, []).append(c)
    ctx.tally("tolerance-sized offsets (1e-6 .. 1e-12 relative, magnitudes 1e-3 .. 1e6)", sum(len(v) for v in by_op.values()))
    n0 = sum(len(v) for v in by_op.values())
    for opn, c in _lattice_cases(stride, ctx.seed):
        by_op.setdefault(opn, []).append(c)
    ctx.tally("lattice points k/100", sum(len(v) for v in by_op.values()) - n0)
    ctx.exhaustive["non-dyadic lattice"] = (f"end points / thresholds / clip edges k/100, k = 0..100, against j/100 for every "
                                            f"{stride}-th j (offset = seed)")
    for opn, cs in by_op.items():
        _run_float(ctx, OPS[opn], cs)


def search(ctx, failures):
    """a tie or correspondence broke: run the widest grids on the affected operations, exact and binary64"""
    ops = {f.extra.get("op") or f.op for f in failures}
    if "intervals_overlap" in ops or not ops & set(OPS):
        ctx.run_cases(OPS["intervals_overlap"], _grid_interval_cases(4))
    ctx.run_cases(OPS["intervals_overlap"], _typed_interval_cases())
    pairs = list(_geom_pair_cases(ctx.rng, 30)) + list(_geom_boundary_cases(ctx.rng, 6))
    ctx.run_cases(OPS["temporal"], pairs)
    ctx.run_cases(OPS["frequency"], pairs)
    ctx.run_cases(OPS["is_in_clip"], _clip_cases(ctx.rng, 300))
    _run_float(ctx, OPS["intervals_overlap_f64"], _float_interval_cases(ctx.rng, 20000))
    fp = list(_float_geom_cases(ctx.rng, 3000))
    _run_float(ctx, OPS["temporal_f64"], fp)
    _run_float(ctx, OPS["frequency_f64"], fp)
    _run_float(ctx, OPS["is_in_clip_f64"], _float_clip_cases(ctx.rng, 6000))
    # construction paths, sizes, histories, tolerance-sized offsets and lattices, wider than in `run`
    ctx.run_cases(OPS["session"], _random_sessions(ctx.rng, 1500))
    by_op = {}
    for opn, c in _big_cases([(n, (1, n // 2, n // 2 + 1, n)) for n in BIG_SIZES]):
        by_op.setdefault(opn, []).append(c)
    for opn, cs in by_op.items():
        ctx.run_cases(OPS[opn], cs)
    _boundaries(ctx, 6, 2)
