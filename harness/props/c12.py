"""C12 — Overlap predicates agree with exact interval arithmetic."""
import itertools
from fractions import Fraction

from ..core import Op
from ..rat import rat, frac
from .. import symtrace as st
from ..symtrace import Sym
from .. import gen_geom

PROPERTY = "C12"
LEAN_MODULE = "Proofs.C12"
_T = "SE.Proofs.C12."
THEOREMS = [_T + n for n in [
    "C12_symm", "C12_iff", "C12_default_iff_common_point", "C12_abs_iff_common_subinterval",
    "C12_monotone_abs", "C12_monotone_rel", "C12_rejects", "C12_geometry_delegation",
    "C12_in_clip_iff", "C12_negative_minimum_rejected", "C12_inside_is_in",
    "C12_timestamp_inside_is_in", "C12_touching_is_out"]]
LEVEL_TEXT = ("Lean theorems (symmetry, iff with intersection length >= threshold, set-theoretic readings, monotonicity, "
              "rejection, is_in_clip iff and corollaries) hold for all rational inputs of the model; every modelled function "
              "is re-derived from the source on each run by path-exhaustive symbolic tracing and proved equal to the model "
              "for all inputs, and additionally run differentially on exhaustive dyadic grids.")
LEVEL_NOTE = ("Trusted: Lean kernel, symbolic tracer (ordered-field semantics, stubs for compute_bounds/Clip), shapely bounds. "
              "Unmodelled: binary64 rounding of `stop - start` and `r * width` off the dyadic grid.")
TECHNIQUE = "Lean 4 proof over model; symbolic-trace equality obligations regenerated from source; exhaustive-grid correspondence"
RULE = ("exhaustive grids of interval end points x threshold settings, random dyadic intervals, geometry pairs of "
        "all 81 type combinations, clip/geometry placements; non-trivial = the implementation returned a boolean "
        "(not an error); distinct = distinct (operation, input)")
TRUSTED = ["shapely `bounds` (min/max over the converted coordinates) inside compute_bounds",
           "symbolic tracer stubs: compute_bounds replaced by a symbolic 4-tuple, Clip by a record of two symbols"]
ASSUMPTIONS = ["binary64 arithmetic is exact on the dyadic grids used (sums/products of <= 20-bit dyadics)",
               "ordered-field semantics for the symbolic tie (no rounding)"]
NOT_COMPARED = ["error messages (only the error class)", "arbitrary (non-dyadic) floats: `stop - start >= thr` rounds, "
                "the rational model cannot exhibit that"]


def _f(s):
    return None if s is None else float(frac(s))


def _impl_intervals(inp):
    from soundevent.geometry import intervals_overlap
    r = intervals_overlap(tuple(_f(x) for x in inp["i1"]), tuple(_f(x) for x in inp["i2"]),
                          min_absolute_overlap=_f(inp["abs"]), min_relative_overlap=_f(inp["rel"]))
    return {"val": bool(r)}


def _impl_geom(which):
    def impl(inp):
        from soundevent.geometry import operations as geometry
        fn = geometry.have_temporal_overlap if which == "temporal" else geometry.have_frequency_overlap
        r = fn(gen_geom.to_data(inp["g1"]), gen_geom.to_data(inp["g2"]),
               min_absolute_overlap=_f(inp["abs"]), min_relative_overlap=_f(inp["rel"]))
        return {"val": bool(r)}
    return impl


_REC = None


def _recording():
    global _REC
    if _REC is None:
        from soundevent import data
        _REC = data.Recording(path="rec.wav", duration=100.0, channels=1, samplerate=8000)
    return _REC


def _impl_in_clip(inp):
    from soundevent import data, geometry
    clip = data.Clip(recording=_recording(), start_time=_f(inp["start"]), end_time=_f(inp["end"]))
    r = geometry.is_in_clip(gen_geom.to_data(inp["g"]), clip, minimum_overlap=_f(inp["min"]))
    return {"val": bool(r)}


OPS = {
    "intervals_overlap": Op("intervals_overlap", _impl_intervals),
    "temporal": Op("temporal", _impl_geom("temporal")),
    "frequency": Op("frequency", _impl_geom("frequency")),
    "is_in_clip": Op("is_in_clip", _impl_in_clip),
}

THRESHOLDS = ([(None, None)] + [(a, None) for a in ["0", "1/4", "1/2", "1", "-1/4"]]
              + [(None, r) for r in ["0", "1/4", "1/2", "1", "-1/4", "5/4"]] + [("1/4", "1/4")])


# ---------------------------------------------------------------- tie 1b
_UNF = "SE.Intervals.intervalsOverlap SE.Intervals.threshold SE.Intervals.thrOverlap"


def _symbolic_ties(ctx):
    import soundevent.geometry.operations as ops
    V = ["s1", "e1", "s2", "e2", "a", "r"]
    s1, e1, s2, e2, a, r = [Sym.var(n) for n in V]
    modes = {"none": ({}, "none none"), "abs": ({"min_absolute_overlap": a}, "(some a) none"),
             "rel": ({"min_relative_overlap": r}, "none (some r)"),
             "both": ({"min_absolute_overlap": a, "min_relative_overlap": r}, "(some a) (some r)")}
    for m, (kw, margs) in modes.items():
        name = f"ext_overlap_{m}"
        ctx.sym_tie(name, lambda kw=kw: ops.intervals_overlap((s1, e1), (s2, e2), **kw), V, "Bool",
                    f"SE.Intervals.intervalsOverlap s1 e1 s2 e2 {margs}",
                    tactic=f"unfold {name} {_UNF}\n  se_close", meta={"op": "intervals_overlap"})
    # geometry delegation: compute_bounds stubbed by a symbolic 4-tuple -> pins which components are read
    BV = ["st1", "lo1", "en1", "hi1", "st2", "lo2", "en2", "hi2", "a", "r"]
    syms = {n: Sym.var(n) for n in BV}

    class _Geom:      # a geometry stand-in: any attribute access beyond compute_bounds makes the trace fail
        def __init__(self, b):
            self._b = b
    G1, G2 = _Geom(tuple(syms[n] for n in BV[0:4])), _Geom(tuple(syms[n] for n in BV[4:8]))
    orig = ops.compute_bounds
    ops.compute_bounds = lambda g: g._b
    try:
        for fname, mname in [("have_temporal_overlap", "temporalOverlap"), ("have_frequency_overlap", "frequencyOverlap")]:
            for m, (kw, margs) in modes.items():
                kw = {k: syms["a"] if k == "min_absolute_overlap" else syms["r"] for k in kw}
                name = f"ext_{fname}_{m}"
                ctx.sym_tie(name, lambda kw=kw, fname=fname: getattr(ops, fname)(G1, G2, **kw), BV, "Bool",
                            f"SE.Intervals.{mname} ⟨st1, lo1, en1, hi1⟩ ⟨st2, lo2, en2, hi2⟩ {margs}",
                            tactic=f"unfold {name} SE.Intervals.{mname} {_UNF}\n  se_close",
                            meta={"op": "temporal" if "temporal" in fname else "frequency"})
        # is_in_clip
        CV = ["st1", "lo1", "en1", "hi1", "cs", "ce", "m"]
        cs, ce, mm = Sym.var("cs"), Sym.var("ce"), Sym.var("m")

        class _Clip:
            start_time = cs
            end_time = ce
        name = "ext_is_in_clip"
        ctx.sym_tie(name, lambda: ops.is_in_clip(G1, _Clip(), minimum_overlap=mm), CV, "Bool",
                    "SE.Intervals.isInClip ⟨st1, lo1, en1, hi1⟩ cs ce m",
                    tactic=f"unfold {name} SE.Intervals.isInClip\n  se_close", meta={"op": "is_in_clip"})
    finally:
        ops.compute_bounds = orig


# ---------------------------------------------------------------- tie 2 generators
def _grid_interval_cases(step_den, top=2):
    vals = [rat(Fraction(i, step_den)) for i in range(0, top * step_den + 1)]
    for s1, e1, s2, e2 in itertools.product(vals, repeat=4):
        for a, r in THRESHOLDS:
            yield {"i1": [s1, e1], "i2": [s2, e2], "abs": a, "rel": r}


def _random_interval_cases(rng, n):
    for _ in range(n):
        k = rng.choice([1, 3, 6, 10])
        q = 1 << k
        hi = rng.choice([2, 16, 1000])
        pts = [Fraction(rng.randint(0, hi * q), q) for _ in range(4)]
        if rng.random() < 0.3:
            pts[2] = pts[rng.choice([0, 1])]   # touching / equal end points
        if rng.random() < 0.2:
            pts[3] = pts[rng.choice([0, 1])]
        mode = rng.choice(["none", "abs", "rel", "rel", "both"])
        a = r = None
        if mode in ("abs", "both"):
            a = rat(Fraction(rng.randint(-q, hi * q), q))
        if mode in ("rel", "both"):
            r = rat(Fraction(rng.randint(-2, q + 2), q))
        yield {"i1": [rat(pts[0]), rat(pts[1])], "i2": [rat(pts[2]), rat(pts[3])], "abs": a, "rel": r}


def _geom_pair_cases(rng, reps):
    for t1 in gen_geom.TYPES:
        for t2 in gen_geom.TYPES:
            for _ in range(reps):
                a, r = rng.choice(THRESHOLDS)
                yield {"g1": gen_geom.gen_geometry(rng, t1, tmax=4, fmax=4, k=2),
                       "g2": gen_geom.gen_geometry(rng, t2, tmax=4, fmax=4, k=2), "abs": a, "rel": r}


def _clip_cases(rng, reps):
    mins = ["0", "0", "1/4", "1", "-1/4"]
    for ty in gen_geom.TYPES:
        for _ in range(reps):
            g = gen_geom.gen_geometry(rng, ty, tmax=4, fmax=4, k=2)
            a = Fraction(rng.randint(0, 16), 4)
            b = Fraction(rng.randint(0, 16), 4)
            if a > b:
                a, b = b, a
            yield {"g": g, "start": rat(a), "end": rat(b), "min": rng.choice(mins)}
    # every equality case on a small grid, time stamps and intervals
    vals = [Fraction(i, 2) for i in range(0, 7)]
    for cs, ce in itertools.combinations_with_replacement(vals, 2):
        for t in vals:
            for m in ["0", "1/2"]:
                yield {"g": {"type": "TimeStamp", "coordinates": rat(t)}, "start": rat(cs), "end": rat(ce), "min": m}
        for s, e in itertools.combinations_with_replacement(vals, 2):
            yield {"g": {"type": "TimeInterval", "coordinates": [rat(s), rat(e)]},
                   "start": rat(cs), "end": rat(ce), "min": rng.choice(["0", "1/2", "1"])}


def run(ctx):
    ctx.stage("symbolic-ties", _symbolic_ties, ctx)
    ctx.stage("discharge", ctx.discharge, ["SoundeventModel.Intervals", "SoundeventModel.Tactics"])
    ctx.stage("correspondence", _correspondence, ctx)


def _correspondence(ctx):
    ctx.run_corpus(OPS)
    den = 4 if ctx.thorough() else 2
    ctx.run_cases(OPS["intervals_overlap"], _grid_interval_cases(den))
    ctx.exhaustive["intervals_overlap grid"] = f"end points i/{den}, i=0..{2 * den}, all 4-tuples x {len(THRESHOLDS)} threshold settings"
    ctx.run_cases(OPS["intervals_overlap"], _random_interval_cases(ctx.rng, ctx.budget(4000, 60000)))
    pairs = list(_geom_pair_cases(ctx.rng, ctx.budget(4, 40)))
    ctx.run_cases(OPS["temporal"], pairs)
    ctx.run_cases(OPS["frequency"], pairs)
    ctx.run_cases(OPS["is_in_clip"], _clip_cases(ctx.rng, ctx.budget(40, 600)))
    ctx.exhaustive["is_in_clip grid"] = "clip ends and time stamps / intervals on i/2, i=0..6, all placements"


def search(ctx, failures):
    """a tie or correspondence broke: run the widest grids on the affected operations"""
    ops = {f.extra.get("op") or f.op for f in failures}
    if "intervals_overlap" in ops or not ops & set(OPS):
        ctx.run_cases(OPS["intervals_overlap"], _grid_interval_cases(4))
    pairs = list(_geom_pair_cases(ctx.rng, 30))
    ctx.run_cases(OPS["temporal"], pairs)
    ctx.run_cases(OPS["frequency"], pairs)
    ctx.run_cases(OPS["is_in_clip"], _clip_cases(ctx.rng, 300))
