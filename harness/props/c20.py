"""C20 — Rasterisation marks exactly the bins a geometry covers, on the template's axes."""
import copy
import itertools
import json
from fractions import Fraction

from ..core import Op, jkey
from ..rat import rat, frac
from ..axis_common import guarded, fl, is_err, rats, ulp_up, ulp_down
from .. import gen_geom
from .. import c20_build as B
from .. import history

PROPERTY = "C20"
LEAN_MODULE = "Proofs.C20"
_T = "SE.Proofs.C20."
THEOREMS = [_T + n for n in [
    "C20_box_bins", "C20_bin_of_start", "C20_bins_by_coordinates", "C20_cell_value", "C20_last_wins",
    "C20_untouched_fill", "C20_axes", "C20_values_length_rejected", "C20_scalar_value", "C20_box_centre_rule",
    "C20_general_cell", "C20_general_axes", "C20_general_values", "C20_general_box", "C20_point_cell",
    "C20_polygon_centre_rule", "C20_all_touched_adds", "C20_defaults", "C20_clamp_index",
    "C20_box_cells_by_coordinates", "C20_lattice_bin", "C20_lattice_point_bin", "C20_lattice_floor",
    "C20_positional_call", "C20_bound_arguments", "C20_history_independent", "C20_poison_local"]]
LEVEL_TEXT = ("Lean theorems over the index-space model of rasterize. Box model: a bounding box / time interval covers exactly "
              "the bins from the one containing its start (inclusive) to the one containing its end (exclusive) on each "
              "axis, in bin indices and end to end in terms of the template's coordinates (through C16's lookup with "
              "clamping); every cell holds the value of the last geometry covering it or the fill value; the result is "
              "labelled (time, frequency) with the template's coordinates and has nt x nf cells for either dimension "
              "order; a value list of the wrong length is rejected. General model (all nine geometry types): the "
              "index-space image handed to rasterio is modelled per type and rasterio is a parameter; for any rasteriser "
              "the same cell / axes / values theorems hold, under the box rule it coincides with the box model, under the "
              "point rule a Point marks exactly its bin, under the centre rule a polygon's cell holds its value iff the "
              "centre is inside the polygon mapped to bin indices, under the superset contract all_touched only adds "
              "cells. Regular (range) axes: every lattice point start + k*step and every bin centre lies in bin k, and "
              "inside the axis the bin is floor((v - start) / step) over the rationals. The call: passing the first k "
              "optional arguments positionally in the documented order binds like the all-keyword call (Python's binding "
              "modelled, parameter order tied to the signature). Histories: in a session of calls and of rasters edited "
              "by the caller every call returns the answer to its own request and leaves the rasters already held as "
              "they are. Ties: signature defaults, parameter order and MAX_FREQUENCY re-extracted as obligations, the "
              "clamped lookup of get_coord_index proved equal to the model for all inputs by symbolic trace, exact "
              "differential runs of both models (templates 1-8 x 1-8 and up to 1025 bins, both orders, extra dimensions, "
              "regular, irregular, integer-index and range-built axes, all geometry types and ways of building them, "
              "integer and fractional values, fills, dtypes, defaults, positional and keyword calls, all_touched both "
              "ways, every pair of option classes) with rasterio's answers for the model's images as the rasteriser; "
              "every lattice point of non-dyadic range axes as a box corner; sessions of calls on shared, re-used and "
              "changed objects judged step by step; box and point rules monitored exhaustively on the library every run, "
              "centre rule and all_touched superset on every generated shape.")
LEVEL_NOTE = ("Unmodelled: rasterio / GDAL scan conversion (a parameter of the general model; its answers for the model's "
              "index-space images are observed on the library in every differential case). For integer-cornered boxes and "
              "points its rule is a run-time-monitored contract evaluated exhaustively on a small raster; for general "
              "polygons the centre rule (cells whose centre is off the boundary) and for all non-line shapes the "
              "all_touched superset are monitored on every generated shape; line burning is not characterised (known "
              "finding C20-K1). shapely.transform / geometry_to_shapely and xarray are tied by correspondence only; the "
              "straight-line part of get_coord_index by symbolic trace with pandas' slice bound as a symbol. Binary64 "
              "rounding is outside the rational model: an implementation that locates bins by arithmetic is right over "
              "the rationals (C20_lattice_floor) and can only be told apart on the real code, which the sweep of every "
              "lattice point of non-dyadic axes and the ulp / 1e-12..1e-6 offsets do. State carried between calls is "
              "outside the (pure) model: C20_history_independent states what a session must return, the history runs "
              "(generator-bounded) observe it on the real code.")
TECHNIQUE = ("Lean 4 proof over index-space model with the rasteriser as a parameter; table and symbolic-trace "
             "obligations; exact differential correspondence over construction paths, option pairs, lattice points and "
             "call histories; library contracts and polygon monitors")
RULE = ("templates of 1-8 x 1-8 bins in both dimension orders (optionally with a third dimension; built directly, "
        "transposed, cut out of a larger template, with coordinates registered in the other order, with extra "
        "coordinates, with integer contents), dyadic, decimal, irregular and integer-index spacings and axes built by "
        "create_time_range / create_frequency_range (non-dyadic step stored in the 'step' attribute), lists of 0-4 "
        "geometries (box-like for the box model, all nine types for the general model; built by geometry_validate, "
        "constructor, tuples, ints, numpy scalars, JSON, model_copy, re-validation) with ends on, between, below and "
        "beyond coordinates; optional arguments by keyword, all by keyword in reverse order, or the first 1-6 "
        "positionally; every pair of option classes at least once (covering array); every lattice point and bin centre "
        "of seven non-dyadic range axes as a box corner (stored coordinate, decimal literal, k/(1/step), one ulp either "
        "side); offsets of one ulp and 1e-12..1e-6 relative around every coordinate at magnitudes 0..1e6; more than 16 / "
        "256 / 1024 geometries, vertices and bins; histories of 3-5 calls in one process (x, a neighbour differing in "
        "exactly one part, x again) on fresh, shared, re-assigned, in-place edited and model_copy'd templates / "
        "geometries / lists, with answer-determining arguments snapshotted around every call, results edited by the "
        "caller and every result re-read after the later calls; non-trivial = the implementation returned a raster "
        "with at least one burnt cell; distinct = distinct (operation, input)")
TRUSTED = ["rasterio.features.rasterize (box rule monitored as a contract on every run), shapely.transform, "
           "xarray DataArray construction"]
ASSUMPTIONS = ["rasterio burns an integer-cornered box into exactly the cells whose centre it contains, with or without "
               "all_touched (contract `rasterio-box-rule`, evaluated exhaustively on a 4 x 5 raster in this run)",
               "rasterio burns a point with integer coordinates into exactly the cell of that index (contract "
               "`rasterio-point-rule`, evaluated exhaustively on a 4 x 3 raster in this run)",
               "GDAL fills polygons by the even-odd rule on cell centres (contracts `rasterio-centre-rule` and the polygon "
               "monitor, evaluated on every generated polygon)",
               "burning a list of shapes equals burning them one at a time in list order (implied by the exact comparison "
               "of the general model, which folds rasterio's single-shape answers)"]
NOT_COMPARED = ["error messages (only the error class)", "attributes and name of the result",
                "which cells GDAL burns for a given index-space shape (observed on rasterio, not modelled; contracts only)",
                "cells whose centre lies exactly on the boundary of the index-space polygon (centre-rule contract)",
                "the template's contents and attributes after a call (only what determines a later answer is "
                "snapshotted around a call: geometry coordinates, value lists, the template's dimensions and its time / "
                "frequency coordinates)",
                "xdim / ydim other than the documented defaults (given explicitly as 'time' / 'frequency', as str or as "
                "arrays.Dimensions members)",
                "float32 coordinate axes (pandas casts the query to float32: known finding C16-2)"]

LINE_TYPES = ("LineString", "MultiLineString")
DTYPES = ["float32", "float64", "int32", "int16", "uint8"]


# ------------------------------------------------------------------ implementation
# live objects (template, geometries, the call and the ways of building / passing them): harness/c20_build.py
_num = B.num


def _canon(r, inp):
    import numpy as np
    dt = inp.get("dtype") or "float32"
    if str(r.dtype) != dt:
        return {"raise": f"crash:dtype-{r.dtype}"}
    v = np.asarray(r.values)
    if v.ndim != 2 or not np.all(np.isfinite(v)):
        return {"raise": "crash:not-a-finite-2d-raster"}
    memo = {}

    def cell(x):                      # a raster holds few distinct numbers
        x = float(x)
        if x not in memo:
            memo[x] = rat(x)
        return memo[x]
    return {"val": {"dims": [str(getattr(d, "value", d)) for d in r.dims],
                    "time": [rat(float(c)) for c in r.coords["time"].values],
                    "freq": [rat(float(c)) for c in r.coords["frequency"].values],
                    "grid": [[cell(x) for x in row] for row in v.tolist()]}}


def _call(inp, geoms=None, all_touched=None, values=None):
    """the real call; keys that are absent / None in the request are left to the signature's defaults"""
    return B.call(inp, B.geometries(inp, geoms), B.template(inp), all_touched=all_touched, values=values)


@guarded
def _impl_rasterize(inp):
    return _canon(_call(inp), inp)


def _holds_valid_request(ctx, inp, out):
    """a request whose value list fits must yield a raster, whatever the template's dimension order"""
    vals = inp.get("values")
    if isinstance(vals, list) and len(vals) != len(inp["geoms"]):
        return None if is_err(out) and out["raise"] == "invalid" else "a value list of the wrong length was accepted"
    if is_err(out):
        return "rasterize raised on a valid request: %s" % out["raise"]
    return None


def _nontrivial(inp, out):
    fill = rat(frac(inp["fill"])) if inp.get("fill") is not None else "0"
    return (not is_err(out)) and any(x != fill for row in out["val"]["grid"] for x in row)


# ---- monitor for general geometries: the real code only
@guarded
def _impl_monitor(inp):
    full = {}
    singles = {}
    for at in (False, True):
        o = _canon(_call(inp, all_touched=at), inp)
        if is_err(o):
            return o
        full[at] = _igrid(o["val"]["grid"])
        singles[at] = []
        for g, v in zip(inp["geoms"], inp["values"]):
            o = _canon(_call(inp, geoms=[g], values=[v], all_touched=at), inp)
            if is_err(o):
                return o
            singles[at].append(_igrid(o["val"]["grid"]))
    return {"val": {"full": {"plain": full[False], "touched": full[True]},
                    "singles": {"plain": singles[False], "touched": singles[True]}}}


def _igrid(g):
    return [[int(frac(x)) if frac(x).denominator == 1 else x for x in row] for row in g]


def _overlay(singles, fill, nx, ny):
    g = [[fill] * ny for _ in range(nx)]
    for s in singles:
        for i in range(nx):
            for j in range(ny):
                if s[i][j] != fill:
                    g[i][j] = s[i][j]
    return g


def _holds_monitor(ctx, inp, out):
    if is_err(out):
        return "rasterize raised: %s" % out["raise"]
    v = out["val"]
    nx, ny, fill = len(inp["time"]), len(inp["freq"]), inp["fill"]
    for mode in ("plain", "touched"):
        g = v["full"][mode]
        if len(g) != nx or any(len(r) != ny for r in g):
            return f"raster is not {nx} x {ny}"
        if g != _overlay(v["singles"][mode], fill, nx, ny):
            return f"[{mode}] a later geometry does not overwrite an earlier one / an untouched cell is not the fill value"
    # all_touched only ever adds cells, geometry by geometry; line geometries last, so that the known
    # finding about GDAL's line burning never hides a violation on another geometry
    line_msg = None
    for k, g in enumerate(inp["geoms"]):
        plain, touched = v["singles"]["plain"][k], v["singles"]["touched"][k]
        lost = [(i, j) for i in range(nx) for j in range(ny) if plain[i][j] != fill and touched[i][j] == fill]
        if lost:
            msg = f"all_touched removed cell {lost[0]} of geometry {k} ({g['type']})"
            if g["type"] in LINE_TYPES:
                line_msg = line_msg or msg
            else:
                return msg
    # index-space rings of the polygonal geometries: the model's image (what rasterize hands to rasterio)
    img = ctx.model("index_image", {"time": inp["time"], "freq": inp["freq"], "time_first": inp["time_first"],
                                    "geoms": inp["geoms"], "all_touched": False})
    for k, sh in enumerate(img["shapes"]):
        if sh["type"] not in POLY_SHAPES:
            continue
        rr = _shape_rings(sh)
        # all_touched=True burns every cell through whose interior the boundary passes
        touched = v["singles"]["touched"][k]
        for ring in rr:
            for (px, py), (qx, qy) in zip(ring, ring[1:]):
                for m in range(16):
                    t = Fraction(2 * m + 1, 32)
                    x, y = px + t * (qx - px), py + t * (qy - py)
                    if x.denominator == 1 or y.denominator == 1:
                        continue
                    cx, cy = x.numerator // x.denominator, y.numerator // y.denominator
                    if 0 <= cx < nx and 0 <= cy < ny and touched[cx][cy] == fill:
                        return (f"geometry {k} ({inp['geoms'][k]['type']}): with all_touched the boundary passes through "
                                f"cell ({cx}, {cy}) which is not burnt")
        burnt = [[x != fill for x in row] for row in v["singles"]["plain"][k]]
        bad = ctx.model("centre_rule", {"nx": nx, "ny": ny, "rings": [[[str(x), str(y)] for x, y in r] for r in rr],
                                        "burnt": burnt})
        if bad:
            return (f"geometry {k} ({inp['geoms'][k]['type']}): cell {tuple(bad[0])} is "
                    f"{'burnt' if burnt[bad[0][0]][bad[0][1]] else 'not burnt'} but its centre is "
                    f"{'outside' if burnt[bad[0][0]][bad[0][1]] else 'inside'} the index-space polygon")
    return line_msg


# ---- the general model: every geometry type, rasterio as the rasteriser parameter
POLY_SHAPES = ("Polygon", "MultiPolygon")
LINE_SHAPES = ("LineString", "MultiLineString")
_ORACLE = {}
_CONTRACTED = set()


def _oracle(shape, all_touched, nx, ny):
    """rasterio's answer for one index-space shape of the model on an nx x ny raster: mask[i][j]"""
    import numpy as np
    from rasterio import features
    key = (jkey(shape), all_touched, nx, ny)
    if key not in _ORACLE:
        if len(_ORACLE) > 20000:
            _ORACLE.clear()
        r = features.rasterize([(shape, 1)], (ny, nx), fill=0, all_touched=all_touched, dtype="uint8")
        _ORACLE[key] = [[bool(x) for x in row] for row in np.asarray(r).T]
    return _ORACLE[key]


def _shape_rings(shape):
    if shape["type"] == "Polygon":
        return shape["coordinates"]
    return [r for poly in shape["coordinates"] for r in poly]


@guarded
def _impl_general(inp):
    out = _canon(_call(inp), inp)
    if inp.get("twice") and not is_err(out):
        again = _canon(_call(inp), inp)         # the result is a function of the request (no carried state)
        if again != out:
            return {"raise": "crash:second-call-differs"}
    return out


def _general_model(ctx, inp):
    """model side: the model's images -> rasterio's cells for them -> the model's raster"""
    nx, ny = len(inp["time"]), len(inp["freq"])
    img = ctx.model("index_image", {"time": inp["time"], "freq": inp["freq"], "time_first": inp["time_first"],
                                    "geoms": inp["geoms"], "all_touched": inp.get("all_touched")})
    at = img["all_touched"]
    masks = [_oracle(sh, at, nx, ny) for sh in img["shapes"]]
    req = {"time": inp["time"], "freq": inp["freq"], "time_first": inp["time_first"], "n": len(inp["geoms"]),
           "masks": masks, "values": inp.get("values"), "fill": inp.get("fill")}
    return img, masks, ctx.model("rasterize_masks", req)


def _holds_general(ctx, inp, out):
    msg = _holds_valid_request(ctx, inp, out)
    if msg:
        return msg
    nx, ny = len(inp["time"]), len(inp["freq"])
    img, masks, mo = _general_model(ctx, inp)
    # contracts of the rasteriser the theorems assume, on the shapes of this case
    for k, (g, sh) in enumerate(zip(inp["geoms"], img["shapes"])):
        if sh["type"] in LINE_SHAPES:
            continue
        seen = (jkey(sh), nx, ny)
        if seen in _CONTRACTED:                 # the contracts of this shape were evaluated earlier in this run
            continue
        if len(_CONTRACTED) > 50000:
            _CONTRACTED.clear()
        _CONTRACTED.add(seen)
        plain, touched = _oracle(sh, False, nx, ny), _oracle(sh, True, nx, ny)
        ok = all(touched[i][j] or not plain[i][j] for i in range(nx) for j in range(ny))
        ctx.contract("rasterio-touched-superset", ok, {"shape": sh, "raster": [nx, ny]}, plain,
                     "rasterio's all_touched cells do not include its plain cells for a non-line shape")
        if sh["type"] in POLY_SHAPES:
            rings = [[[str(x), str(y)] for x, y in r] for r in _shape_rings(sh)]
            bad = ctx.model("centre_rule", {"nx": nx, "ny": ny, "rings": rings, "burnt": plain})
            ctx.contract("rasterio-centre-rule", not bad, {"shape": sh, "raster": [nx, ny]}, plain,
                         "rasterio does not burn exactly the cells whose centre lies inside the polygon")
    a = dict(out)
    a.pop("trace", None)
    if a == mo:
        return None
    if is_err(a) or is_err(mo):
        return "rasterize %s but the model %s" % ("raised " + a["raise"] if is_err(a) else "returned a raster",
                                                   "raises " + mo["raise"] if is_err(mo) else "returns a raster")
    av, mv = a["val"], mo["val"]
    for key, what in (("dims", "dimension order"), ("time", "time coordinates"), ("freq", "frequency coordinates")):
        if av[key] != mv[key]:
            return f"the {what} of the result are not the template's"
    for i in range(max(len(av["grid"]), len(mv["grid"]))):
        ra = av["grid"][i] if i < len(av["grid"]) else None
        rm = mv["grid"][i] if i < len(mv["grid"]) else None
        if ra != rm:
            if ra is None or rm is None or len(ra) != len(rm):
                return f"the raster is not {nx} x {ny}"
            j = next(j for j in range(len(ra)) if ra[j] != rm[j])
            owners = [k for k, m in enumerate(masks) if m[i][j]]
            return (f"cell ({i}, {j}) holds {ra[j]}; the geometries whose index-space image covers it are {owners}, "
                    f"so it must hold {rm[j]}")
    return "implementation and model disagree"


def _nontrivial_general(inp, out):
    return _nontrivial(inp, out)


def _match_line_all_touched(failure, m):
    """known finding: only the superset statement, only for a LineString / MultiLineString geometry"""
    import re
    mt = re.match(r"all_touched removed cell \(\d+, \d+\) of geometry (\d+) \((\w+)\)$", failure.detail or "")
    if not mt or failure.op != "raster_monitor":
        return False
    k = int(mt.group(1))
    geoms = (failure.inp or {}).get("geoms", [])
    return k < len(geoms) and geoms[k]["type"] == mt.group(2) and mt.group(2) in m.get("types", [])


FINDING_MATCHERS = {"line_all_touched_subset": _match_line_all_touched}


def _to_model(inp):
    return {k: inp[k] for k in ("time", "freq", "time_first", "geoms", "values", "fill", "all_touched")}


OPS = {
    "rasterize": Op("rasterize", _impl_rasterize, to_model=_to_model, nontrivial=_nontrivial, holds=_holds_valid_request),
    "rasterize_all": Op("rasterize_all", _impl_general, holds=_holds_general, model_op="noop", to_model=lambda inp: {},
                        compare=lambda inp, io, mo: None, nontrivial=_nontrivial_general),
    "raster_monitor": Op("raster_monitor", _impl_monitor, holds=_holds_monitor, model_op="noop",
                         to_model=lambda inp: {}, compare=lambda inp, io, mo: None, mode="tolerance"),
}


# ------------------------------------------------------------------ the library contracts
def _rasterio_contract(ctx):
    import numpy as np
    from rasterio import features
    from shapely import geometry
    nx, ny = 5, 4
    boxes = [(x0, y0, x1, y1) for x0, x1 in itertools.combinations_with_replacement(range(nx + 1), 2)
             for y0, y1 in itertools.combinations_with_replacement(range(ny + 1), 2)]
    expected = ctx.model_many("box_rule", [{"nx": nx, "ny": ny, "box": list(b)} for b in boxes])
    for b, exp in zip(boxes, expected):
        exp = [[int(frac(x)) for x in row] for row in exp]
        x0, y0, x1, y1 = b
        # the ring shapely's `box` makes, as the mapping the general model hands to the rasteriser
        ring = {"type": "Polygon", "coordinates": [[[x1, y0], [x1, y1], [x0, y1], [x0, y0], [x1, y0]]]}
        for at in (False, True):
            r = features.rasterize([(geometry.box(*b), 1)], (ny, nx), fill=0, all_touched=at, dtype="int32")
            got = [[int(x) for x in row] for row in np.asarray(r).T]
            got2 = [[int(x) for x in row] for row in _oracle(ring, at, nx, ny)]
            ctx.contract("rasterio-box-rule", got == exp and got2 == exp, {"box": list(b), "all_touched": at, "raster": [nx, ny]},
                         got, "rasterio does not burn an integer-cornered box into exactly the cells whose centre it contains")
    ctx.exhaustive["rasterio-box-rule"] = f"all {len(boxes)} integer-cornered boxes of a {nx} x {ny} raster, all_touched both ways"


def _point_contract(ctx):
    """PointRule of the general model: a point with integer coordinates burns exactly the cell of that index"""
    nx, ny = 4, 3
    n = 0
    for x in range(nx + 2):
        for y in range(ny + 2):
            exp = [[(i == x and j == y) for j in range(ny)] for i in range(nx)]
            for at in (False, True):
                got = _oracle({"type": "Point", "coordinates": [x, y]}, at, nx, ny)
                got2 = _oracle({"type": "MultiPoint", "coordinates": [[x, y]]}, at, nx, ny)
                n += 1
                ctx.contract("rasterio-point-rule", got == exp and got2 == exp,
                             {"point": [x, y], "all_touched": at, "raster": [nx, ny]}, got,
                             "rasterio does not burn an integer point into exactly the cell of that index")
    ctx.exhaustive["rasterio-point-rule"] = f"all {n // 2} integer points in and just outside a {nx} x {ny} raster, all_touched both ways"


# ------------------------------------------------------------------ ties 1 and 1b
def _tables(ctx):
    """Tie 1: the constants the model states are re-extracted from the imported modules"""
    import inspect
    import numpy as np
    from .. import symtrace as st
    from soundevent import data
    import soundevent.geometry as geo
    fn = getattr(geo, "rasterize", None)
    try:
        P = inspect.signature(fn).parameters
        d = {k: P[k].default for k in ("values", "fill", "dtype", "xdim", "ydim", "all_touched")}
        ok = (not isinstance(d["values"], (list, tuple, bool)) and isinstance(d["all_touched"], bool)
              and np.dtype(d["dtype"]) == np.dtype("float32"))
        src = (f"theorem extracted_rasterize_defaults : SE.Raster.defaultValue = {st.lit(d['values'])} ∧ "
               f"SE.Raster.defaultFill = {st.lit(d['fill'])} ∧ "
               f"SE.Raster.defaultAllTouched = {'true' if d['all_touched'] else 'false'} ∧ "
               f"SE.Raster.defaultXDim = {json.dumps(str(d['xdim']))} ∧ SE.Raster.defaultYDim = {json.dumps(str(d['ydim']))} := by\n"
               "  decide +kernel\n")
        if not ok:
            raise ValueError(f"defaults not of the modelled kind: {d!r}")
        ctx.obligation("rasterize_defaults", src, {"table": "rasterize signature defaults", "value": repr(d)[:200]})
    except Exception as e:  # noqa: BLE001 - the signature changed shape: the tie is not re-established
        ctx.pre_failed.append("rasterize_defaults")
        ctx.fail("obligation", "rasterize_defaults", detail=f"defaults of rasterize could not be extracted: {e!r}")
    # the positional order of the parameters (C20_positional_call is about this order): the model's table must be
    # the leading parameters of the signature, all positional-or-keyword; further parameters need defaults
    try:
        names = list(P)
        kinds_ok = all(P[k].kind is inspect.Parameter.POSITIONAL_OR_KEYWORD for k in names[:8])
        rest_ok = all(P[k].default is not inspect.Parameter.empty or P[k].kind in
                      (inspect.Parameter.VAR_KEYWORD, inspect.Parameter.VAR_POSITIONAL) for k in names[8:])
        model_order = ctx.model("param_order", {})
        if not (kinds_ok and rest_ok):
            raise ValueError(f"parameters are not all positional-or-keyword / optional: {names!r}")
        if tuple(model_order[2:]) != tuple(B.OPTIONAL_ORDER):
            raise ValueError("the harness passes positional arguments in another order than the model's table")
        lst = "[" + ", ".join(json.dumps(str(n)) for n in names) + "]"
        ctx.obligation("rasterize_params",
                       f"theorem extracted_rasterize_params : SE.Raster.paramOrder = "
                       f"List.take SE.Raster.paramOrder.length {lst} := by decide\n",
                       {"table": "rasterize signature: parameter order", "value": repr(names)[:200]})
    except Exception as e:  # noqa: BLE001 - the signature changed shape: the tie is not re-established
        ctx.pre_failed.append("rasterize_params")
        ctx.fail("obligation", "rasterize_params", detail=f"parameter order of rasterize could not be tied: {e!r}")
    m = getattr(data, "MAX_FREQUENCY", None)
    if isinstance(m, bool) or not isinstance(m, (int, float)) or m != m or m in (float("inf"), float("-inf")):
        ctx.pre_failed.append("MAX_FREQUENCY")
        ctx.fail("obligation", "MAX_FREQUENCY", detail="soundevent.data.MAX_FREQUENCY is missing or not a finite number")
    else:
        ctx.obligation("MAX_FREQUENCY", f"theorem extracted_max_frequency : {st.lit(m)} = SE.MAXF := by decide +kernel\n",
                       {"table": "MAX_FREQUENCY", "value": str(m)})


def _symbolic(ctx):
    """Tie 1b: get_coord_index executed on symbols (axis range, axis size, pandas' right slice bound)"""
    from ..symtrace import Sym, Untraceable
    from soundevent import arrays
    V = ["lo", "hi", "v", "n", "sb"]
    lo, hi, v, n, sb = (Sym.var(x) for x in V)

    class _Values:                      # `.values` / numpy view of the coordinates: only the extremes are known
        def min(self, *a, **k): return lo
        def max(self, *a, **k): return hi
        def __getitem__(self, k):
            if k == 0: return lo
            if k == -1: return hi
            raise Untraceable("coordinate values read one by one")
        def __len__(self): raise Untraceable("length of a symbolic axis")

    class _Index(_Values):              # pandas index of the dimension
        values = _Values()
        size = n
        def get_slice_bound(self, label, side, *a, **k):
            if side != "right" or label is not v: raise Untraceable("unexpected slice bound request")
            return sb
        def searchsorted(self, value, side="left", *a, **k):
            if side != "right" or value is not v: raise Untraceable("unexpected searchsorted request")
            return sb
        def to_numpy(self): return _Values()

    class _Map:                          # mapping dimension name -> thing, for any name
        def __init__(self, x): self.x = x
        def __getitem__(self, k): return self.x
        def get(self, k, d=None): return self.x
        def __contains__(self, k): return True

    class _Arr:                          # the template: any attribute beyond these makes the trace fail
        indexes = _Map(_Index())
        sizes = _Map(n)
        coords = _Map(_Index())
        dims = ("time",)
        def __getitem__(self, k): return _Index()
        def get_index(self, k): return _Index()

    fn = getattr(arrays, "get_coord_index", None)
    # the range of an axis is (min, max): `lo ≤ hi` is a hypothesis of the tie
    _sym_tie_hyp(ctx, "ext_get_coord_index_clamp", lambda: fn(_Arr(), "time", v, raise_error=False), V, "Rat",
                 "(hr : lo ≤ hi)", "some (SE.Raster.clampIndexR lo hi v n sb)",
                 "unfold ext_get_coord_index_clamp SE.Raster.clampIndexR\n  se_close")
    _sym_tie_hyp(ctx, "ext_get_coord_index_raise", lambda: fn(_Arr(), "time", v), V, "Rat",
                 "(hr : lo ≤ hi)", "SE.Raster.clampIndexRaise lo hi v sb",
                 "unfold ext_get_coord_index_raise SE.Raster.clampIndexRaise\n  se_close")


def _sym_tie_hyp(ctx, name, fn, variables, ret_type, hyps, model_term, tactic):
    """ctx.sym_tie with hypotheses on the variables: trace, emit `def name`, register
    `∀ vars, hyps → name vars = model_term`; a failing trace is a broken obligation, not a crash"""
    from .. import symtrace as st
    from ..leanio import InfraError
    meta = {"op": "rasterize"}
    try:
        src, _tree, n = st.extract(name, fn, variables, ret_type, catch=(KeyError,))
    except InfraError:
        raise
    except Exception as e:  # noqa: BLE001
        ctx.symbolic_ties[name] = {"error": repr(e)[:300]}
        ctx.pre_failed.append(name)
        ctx.fail("obligation", name, detail=f"symbolic trace of the current source failed: {e!r}", extra=meta)
        return
    ctx.symbolic_ties[name] = {"paths": n}
    args = " ".join(variables)
    ctx.obligation(name, f"{src}\ntheorem {name}_tie ({args} : Rat) {hyps} : {name} {args} = {model_term} := by\n  {tactic}\n", meta)


# ------------------------------------------------------------------ generators
def _axis(rng, n, kind, spacing):
    if kind == "time":
        a0 = rng.choice([Fraction(0), Fraction(1, 2), Fraction(3)])
        if spacing == "dyadic":
            st = rng.choice([Fraction(1, 4), Fraction(1, 2), Fraction(1)])
            return [float(a0 + i * st) for i in range(n)]
        st = rng.choice([0.1, 0.01, 1 / 3])
        return [float(a0) + i * st for i in range(n)]
    a0 = rng.choice([0, 100, 1000])
    if spacing == "dyadic":
        st = rng.choice([125, 250, 31.25])
        return [float(a0 + i * st) for i in range(n)]
    st = rng.choice([100.1, 1000 / 3, 43.066])
    return [a0 + i * st for i in range(n)]


def _positions(rng, ax):
    """box ends: on coordinates, between them, below and beyond the axis (times / frequencies stay >= 0)"""
    step = (ax[1] - ax[0]) if len(ax) > 1 else 1.0
    pts = list(ax) + [c + step / 2 for c in ax] + [c + step / 4 for c in ax]
    pts += [ax[-1] + step, ax[-1] + 2.5 * step, ax[0] - step / 2, ax[0] - 2 * step, 0.0]
    return sorted({p for p in pts if p >= 0})


def _box(rng, tpts, fpts):
    a, b = sorted(rng.sample(tpts, 2)) if len(tpts) > 1 and rng.random() < 0.9 else (tpts[0],) * 2
    c, d = sorted(rng.sample(fpts, 2)) if len(fpts) > 1 and rng.random() < 0.9 else (fpts[0],) * 2
    if rng.random() < 0.2:
        return {"type": "TimeInterval", "coordinates": [rat(a), rat(b)]}
    return {"type": "BoundingBox", "coordinates": [rat(a), rat(c), rat(b), rat(d)]}


def _irregular(rng, n, kind):
    """an increasing axis with unequal spacing (log-like frequency axes, resampled time axes)"""
    x = rng.choice([0.0, 0.5, 3.0]) if kind == "time" else rng.choice([0.0, 100.0, 1000.0])
    out = []
    for _ in range(n):
        out.append(x)
        x += rng.choice([0.25, 0.5, 0.75, 1.0, 0.1, 1 / 3]) * (1 if kind == "time" else rng.choice([100, 250, 1000 / 3]))
    return out


def _value_pool(dtype, fill):
    """values exactly representable in the dtype: integers, and quarters for the float dtypes"""
    ints = [v for v in range(0, 9) if v != fill]
    if dtype in ("float32", "float64"):
        return ints + [rat(Fraction(k, 4)) for k in (1, 2, 3, 5, 10, -3) if Fraction(k, 4) != fill] + [-2]
    return ints


def _values_variant(rng, vals, inp):
    """how the values travel: list / tuple / numpy scalars / one value / wrong length"""
    mode = rng.random()
    values = vals
    if mode < 0.2:
        values = vals[0] if vals else 1          # one value for all
    elif mode < 0.3:
        values = vals + [3] if rng.random() < 0.5 or not vals else vals[:-1]   # wrong length
    inp["values"] = values
    inp["values_tuple"] = rng.random() < 0.3
    inp["values_np"] = rng.random() < 0.2


def _raster_cases(ctx, per_shape):
    rng = ctx.rng
    for nt in range(1, 9):
        for nf in range(1, 9):
            for _ in range(per_shape):
                spacing = rng.choice(["dyadic", "decimal", "irregular"])
                if spacing == "irregular":
                    t, fr = _irregular(rng, nt, "time"), _irregular(rng, nf, "frequency")
                else:
                    t, fr = _axis(rng, nt, "time", spacing), _axis(rng, nf, "frequency", spacing)
                ctx.tally("axis:" + spacing)
                tp, fp = _positions(rng, t), _positions(rng, fr)
                for time_first in (False, True):
                    k = rng.choice([0, 1, 1, 2, 3, 4])
                    geoms = [_box(rng, tp, fp) for _ in range(k)]
                    fill = rng.choice([0, 0, -1, 7])
                    dtype = rng.choice(DTYPES)
                    if dtype == "uint8":
                        fill = abs(fill)
                    if dtype in ("float32", "float64") and rng.random() < 0.2:
                        fill = rat(rng.choice([Fraction(-1, 2), Fraction(1, 4), Fraction(5, 2)]))
                    pool = _value_pool(dtype, fill)
                    vals = [rng.choice(pool) for _ in range(k)]
                    inp = {"time": rats(t), "freq": rats(fr), "time_first": time_first, "geoms": geoms,
                           "fill": fill, "dtype": dtype, "dtype_as": rng.choice(["str", "str", "np", "type"]),
                           "all_touched": rng.random() < 0.5, "contents": rng.choice([0, 1, 2])}
                    _values_variant(rng, vals, inp)
                    yield inp


ALL_TYPES = ["Polygon", "Polygon", "MultiPolygon", "BoundingBox", "BoundingBox", "TimeInterval", "LineString", "Point",
             "Point", "TimeStamp", "MultiPoint", "MultiLineString"]


def _snap(rng, g, tp, fp):
    """move the vertices of a point / line geometry onto, next to and beyond the template's coordinates"""
    ty = g["type"]
    P = lambda: [rat(rng.choice(tp)), rat(rng.choice(fp))]
    if ty == "Point":
        return {"type": ty, "coordinates": P()}
    if ty == "TimeStamp":
        return {"type": ty, "coordinates": rat(rng.choice(tp))}
    if ty == "MultiPoint":
        return {"type": ty, "coordinates": [P() for _ in g["coordinates"]]}
    if ty == "LineString":
        pts = [P() for _ in g["coordinates"]]
        if frac(pts[0][0]) > frac(pts[-1][0]):        # the validated form is ordered by time (LineString validator)
            pts.reverse()
        return {"type": ty, "coordinates": pts}
    return g


def _unclose(g):
    cut = lambda ring: ring[:-1] if len(ring) >= 4 and ring[0] == ring[-1] else ring
    if g["type"] == "Polygon":
        return {"type": "Polygon", "coordinates": [cut(r) for r in g["coordinates"]]}
    return {"type": "MultiPolygon", "coordinates": [[cut(r) for r in poly] for poly in g["coordinates"]]}


# ---- one request over all nine geometry types, every option class either fixed (`fix`) or drawn
PAIR_DIMS = {
    "gtype": list(gen_geom.TYPES),
    "shape": ["square", "wide", "tall", "row", "col"],      # wide: more time bins, tall: more frequency bins
    "time_first": [False, True],
    "extra_dim": [None, 0, 1, 2],
    "all_touched": [None, False, True],
    "fill": ["absent", "zero", "int", "frac"],
    "dtype": [None] + DTYPES,
    "values_kind": ["absent", "scalar", "list", "tuple", "np", "wrong"],
    "reach": ["inside", "above", "below", "on-last"],       # where the first geometry lies relative to the axes
    "axis": ["half", "decimal", "irregular", "range"],      # range: built by create_*_range, 'step' attribute
    "call_as": ["kw", "kw_all", "pos1", "pos3", "pos6"],
    "geom_build": list(B.GEOM_BUILDS),
    "tpl_how": list(B.TPL_HOWS),
}
INT_DTYPES = ("int32", "int16", "uint8")


def _pair_ok(d1, v1, d2, v2):
    """option values that cannot go together inside the property's domain"""
    c = {d1: v1, d2: v2}
    return not (c.get("fill") == "frac" and c.get("dtype") in INT_DTYPES)


def _shape_of(rng, shape):
    if shape == "square":
        n = rng.randint(2, 6)
        return n, n
    if shape == "wide":
        nf = rng.randint(1, 6)
        return rng.randint(nf + 1, 8), nf
    if shape == "tall":
        nt = rng.randint(1, 6)
        return nt, rng.randint(nt + 1, 8)
    if shape == "row":
        return 1, rng.randint(2, 8)
    return rng.randint(2, 8), 1


def _range_axis(rng, n, which, positive=False):
    """an axis as create_time_range / create_frequency_range makes it (numpy.arange, non-dyadic step, 'step' attribute)"""
    if which == "time":
        a, s = rng.choice([0.5, 3.0] if positive else [0.0, 0.0, 0.5, 3.0]), rng.choice([0.01, 0.1, 0.004, 0.05])
        if a == 0.0 and rng.random() < 0.3:
            spec = {"start": rat(a), "stop": rat(n * s), "samplerate": int(round(1 / s))}
        else:
            spec = [rat(a), rat(a + n * s), rat(s)]
    else:
        a, s = rng.choice([100.0, 1000.0] if positive else [0.0, 0.0, 100.0, 1000.0]), rng.choice([0.3, 100.1, 43.066, 0.1, 1000 / 3])
        spec = [rat(a), rat(a + n * s), rat(s)]
    vals, _step = _built_axis(which, spec)
    if not vals:
        vals, spec = [a], None
    return vals, spec


def _region(ax, reach):
    """the interval of one axis in which a geometry of the given reach is drawn (never below 0)"""
    lo, hi = ax[0], ax[-1]
    step = (ax[1] - ax[0]) if len(ax) > 1 else 1.0
    if reach == "above":
        return (lo + hi) / 2, hi + 2.5 * step + 1
    if reach == "below":
        return max(0.0, lo - 2 * step - 1), (lo + hi) / 2 + step / 2
    return max(0.0, lo - step / 2), hi + step


def _on_last(rng, g, t, fr):
    """a vertex exactly on the last coordinate of each axis"""
    ty, lt, lf = g["type"], rat(t[-1]), rat(fr[-1])
    if ty == "TimeStamp":
        return {"type": ty, "coordinates": lt}
    if ty == "TimeInterval":
        return {"type": ty, "coordinates": [rat(t[0]), lt] if rng.random() < 0.5 else [lt, rat(t[-1] + 1)]}
    if ty == "Point":
        return {"type": ty, "coordinates": [lt, lf]}
    if ty == "BoundingBox":
        return {"type": ty, "coordinates": [rat(t[0]), rat(fr[0]), lt, lf] if rng.random() < 0.5
                else [lt, lf, rat(t[-1] + 1), rat(fr[-1] + 1)]}
    if ty == "MultiPoint":
        return {"type": ty, "coordinates": [[lt, lf]] + g["coordinates"][1:]}
    if ty == "LineString":
        return {"type": ty, "coordinates": g["coordinates"][:-1] + [[rat(max(t[-1], float(frac(g["coordinates"][0][0])))), lf]]}
    return g          # polygons: their reach is given by the region they are drawn in


def _typed_geometry(rng, ty, t0, t1, f0, f1):
    """a valid geometry of exactly the type `ty` in the region (gen_valid falls back to a box for unlucky polygons)"""
    g = gen_geom.gen_valid(rng, ty, tmin=t0, tmax=t1, fmin=f0, fmax=f1, k=3)
    if g["type"] == ty:
        return g
    tri = [[rat(t0), rat(f0)], [rat(t1), rat(f0)], [rat(t1), rat(f1)], [rat(t0), rat(f0)]]
    return {"type": ty, "coordinates": [tri] if ty == "Polygon" else [[tri]]}


def _general_case(ctx, rng, fix=None, prev_geoms=None):
    fix = fix or {}
    pick = lambda dim, options=None: fix[dim] if dim in fix else rng.choice(options or PAIR_DIMS[dim])
    shape = fix.get("shape")
    nt, nf = _shape_of(rng, shape) if shape else (rng.randint(1, 8), rng.randint(1, 8))
    spacing = pick("axis", ["half", "decimal", "irregular", "irregular", "range"])
    reach = pick("reach", ["inside", "inside", "above", "below", "on-last"])
    inp = {}
    off_t, off_f = (1.5, 2.0) if reach == "below" else (0.0, 0.0)     # room below the first coordinate
    if spacing == "half":
        t, fr = [i * 0.5 for i in range(nt)], [i * 1.0 for i in range(nf)]
    elif spacing == "decimal":
        t, fr = [0.25 + i * 0.1 for i in range(nt)], [0.5 + i * 0.3 for i in range(nf)]
    elif spacing == "irregular":
        t = _irregular(rng, nt, "time")
        fr = [x / 250 for x in _irregular(rng, nf, "frequency")]
    else:
        t, inp["time_range"] = _range_axis(rng, nt, "time", reach == "below")
        fr, inp["freq_range"] = _range_axis(rng, nf, "freq", reach == "below")
        inp["time_via"] = "range" if inp["time_range"] else "array"
        inp["freq_via"] = "range" if inp["freq_range"] else "array"
    if spacing != "range" and reach == "below":
        t, fr = [c + off_t for c in t], [c + off_f for c in fr]
    if spacing in ("half", "decimal"):
        inp["time_via"] = rng.choice(["array", "array", "array_step", "plain"])
        inp["freq_via"] = rng.choice(["array", "array", "array_step", "plain"])
    if spacing == "half" and rng.random() < 0.3:
        inp["freq_dtype"] = rng.choice(["int64", "int32"])      # frequency bins 0, 1, 2, ... as an integer index
        if rng.random() < 0.5:
            t = [float(2 * i) + (2.0 if reach == "below" else 0.0) for i in range(nt)]
            inp["time_dtype"] = "int64"
        ctx.tally("general-axis:integer-index")
    ctx.tally("general-axis:" + spacing)
    gtype = fix.get("gtype")
    k = rng.choice([0, 1, 1, 2, 2, 3, 4]) if gtype is None else rng.choice([1, 1, 2, 3])
    if prev_geoms is not None and not fix and rng.random() < 0.15:
        geoms = prev_geoms                    # the same geometries on another template (no state is carried over)
        ctx.tally("general:geometries-reused")
    else:
        tp, fp = _positions(rng, t), _positions(rng, fr)
        geoms = []
        for gi in range(k):
            ty = gtype if (gi == 0 and gtype) else rng.choice(ALL_TYPES)
            (t0, t1), (f0, f1) = _region(t, reach if gi == 0 else "inside"), _region(fr, reach if gi == 0 else "inside")
            g = _typed_geometry(rng, ty, t0, max(t1, t0 + 1.5), f0, max(f1, f0 + 1.5))
            if gi == 0 and reach == "on-last":
                g = _on_last(rng, g, t, fr)
            elif gi == 0 and reach != "inside":
                pass
            elif rng.random() < 0.4:
                g = _snap(rng, g, tp, fp)
            elif g["type"] == "BoundingBox" and rng.random() < 0.5:
                g = _box(rng, tp, fp)
                if gtype == "BoundingBox" and gi == 0 and g["type"] != "BoundingBox":
                    g = {"type": "BoundingBox", "coordinates": [g["coordinates"][0], rat(fp[0]), g["coordinates"][1], rat(fp[-1])]}
            elif g["type"] in POLY_SHAPES and rng.random() < 0.3:
                g = _unclose(g)               # rings given without the closing vertex (shapely closes them)
                ctx.tally("general:unclosed-rings")
            geoms.append(g)
    for g in geoms:
        ctx.tally("general-geom:" + g["type"])
    dtype = pick("dtype", [None, None] + DTYPES)
    fk = pick("fill", ["absent", "absent", "zero", "int", "int", "frac"] if dtype in (None, "float32", "float64")
              else ["absent", "absent", "zero", "int", "int"])
    if fk == "frac" and dtype in INT_DTYPES:
        dtype = "float32"
    fill = {"absent": None, "zero": 0, "int": rng.choice([7, 1] if dtype == "uint8" else [-1, 7, 1]),
            "frac": rat(rng.choice([Fraction(-1, 2), Fraction(1, 4), Fraction(5, 2)]))}[fk]
    pool = _value_pool(dtype or "float32", 0 if fill is None else fill)
    vals = [rng.choice(pool) for _ in geoms]
    inp.update({"time": rats(t), "freq": rats(fr), "time_first": pick("time_first"), "geoms": geoms, "fill": fill,
                "dtype": dtype, "dtype_as": rng.choice(["str", "str", "np", "type"]),
                "all_touched": pick("all_touched", [None, False, True, True]), "contents": rng.choice([0, 1, 2]),
                "extra_dim": pick("extra_dim", [None, None, None, 0, 1, 2]), "twice": rng.random() < 0.1})
    vk = pick("values_kind", ["absent", "scalar", "list", "list", "list", "tuple", "np", "wrong"])
    inp["values_tuple"], inp["values_np"] = vk == "tuple" or (vk != "list" and rng.random() < 0.2), vk == "np"
    inp["values"] = {"absent": None, "scalar": vals[0] if vals else 1,
                     "wrong": (vals + [3]) if (rng.random() < 0.5 or not vals) else vals[:-1]}.get(vk, vals)
    ca = pick("call_as", ["kw", "kw", "kw", "kw_all", "pos1", "pos2", "pos3", "pos4", "pos5", "pos6"])
    inp["call_as"] = ["pos", int(ca[3:])] if ca.startswith("pos") else ca
    inp["geom_build"] = pick("geom_build", ["validate", "validate", "validate"] + list(B.GEOM_BUILDS))
    inp["tpl_how"] = pick("tpl_how", [None, None, None, None] + list(B.TPL_HOWS))
    inp["geoms_seq"] = rng.choice(["list", "list", "list", "tuple"])
    inp["fill_np"], inp["at_np"] = rng.random() < 0.15, rng.random() < 0.15
    inp["dims_as"] = rng.choice([None, None, None, "str", "enum"])
    for key in ("values", "fill", "dtype", "all_touched"):
        if inp[key] is None:
            ctx.tally("general-default:" + key)
    ctx.tally("general-call:" + ca)
    ctx.tally("general-build:" + inp["geom_build"])
    ctx.tally("general-template:" + str(inp["tpl_how"]))
    ctx.tally("general-reach:" + reach)
    return inp


def _general_cases(ctx, n):
    """requests over all nine geometry types; keys left out of the request are left to rasterize's defaults"""
    prev = None
    for _ in range(n):
        inp = _general_case(ctx, ctx.rng, None, prev)
        prev = inp["geoms"]
        yield inp


def _pairwise_cases(ctx, rounds=1):
    """HISTORIES.md 3: every pair of option values (geometry type x template shape x dimension order x extra dimension
    x all_touched x fill x dtype x kind of value list x reach of the geometry x axis kind x way of calling x way of
    building geometries x way of building the template) occurs in at least `rounds` requests: greedy covering array"""
    rng = ctx.rng
    dims = sorted(PAIR_DIMS)
    need = {(a, i, b, j) for x, a in enumerate(dims) for b in dims[x + 1:]
            for i in range(len(PAIR_DIMS[a])) for j in range(len(PAIR_DIMS[b]))
            if _pair_ok(a, PAIR_DIMS[a][i], b, PAIR_DIMS[b][j])}
    total = len(need)
    order = sorted(need)
    out = []
    for _ in range(rounds):
        todo = set(need)
        ptr = 0
        while todo:
            while order[ptr] not in todo:
                ptr += 1
            seedp = order[ptr]                       # the first pair (in a fixed order) not covered yet
            best, gain = None, -1
            for _try in range(30):
                cand = {d: rng.randrange(len(PAIR_DIMS[d])) for d in dims}
                cand[seedp[0]], cand[seedp[2]] = seedp[1], seedp[3]
                if cand["fill"] == PAIR_DIMS["fill"].index("frac") and PAIR_DIMS["dtype"][cand["dtype"]] in INT_DTYPES:
                    if seedp[0] == "dtype" or seedp[2] == "dtype":
                        cand["fill"] = 0
                    else:
                        cand["dtype"] = 0
                cov = sum(1 for x, a in enumerate(dims) for b in dims[x + 1:] if (a, cand[a], b, cand[b]) in todo)
                if cov > gain:
                    best, gain = cand, cov
            for x, a in enumerate(dims):
                for b in dims[x + 1:]:
                    todo.discard((a, best[a], b, best[b]))
            out.append(_general_case(ctx, rng, {d: PAIR_DIMS[d][best[d]] for d in dims}))
    ctx.exhaustive["rasterize_all-pairwise"] = (f"all {total} admissible pairs of option values over {len(dims)} option classes "
                                                f"({', '.join(dims)}) in {len(out)} requests")
    for inp in out:
        inp["twice"] = False
    return out


def _monitor_cases(ctx, n):
    rng = ctx.rng
    types = ["Polygon", "Polygon", "MultiPolygon", "BoundingBox", "TimeInterval", "LineString", "Point", "TimeStamp",
             "MultiPoint", "MultiLineString"]
    for _ in range(n):
        nt, nf = rng.randint(1, 8), rng.randint(1, 8)
        t = [i * 0.5 for i in range(nt)] if rng.random() < 0.5 else [0.25 + i * 0.1 for i in range(nt)]
        fr = [i * 1.0 for i in range(nf)] if rng.random() < 0.5 else [0.5 + i * 0.3 for i in range(nf)]
        k = rng.randint(1, 3)
        geoms = [gen_geom.gen_valid(rng, rng.choice(types), tmax=max(t[-1] + 1, 1.5), fmax=max(fr[-1] + 1, 1.5), k=3)
                 for _ in range(k)]
        yield {"time": rats(t), "freq": rats(fr), "time_first": rng.random() < 0.5, "geoms": geoms,
               "values": rng.sample(range(1, 9), k), "fill": rng.choice([0, -1]), "dtype": "float32", "all_touched": False}


# ---- HISTORIES.md 4: every lattice point of non-dyadic axes, tolerance-sized offsets, size thresholds
LATTICE_AXES = [
    # (which, constructor spec, number of bins of the other axis)
    ("time", {"start": "0", "stop": "1", "samplerate": 100}),            # create_time_range(0, 1, samplerate=100)
    ("time", ["1/2", "11/10", "1/100"]),                                  # create_time_range(0.5, 1.1, step=0.01)
    ("time", {"start": "0", "stop": "1", "samplerate": 10}),
    ("time", ["0", "3/10", "1/250"]),                                     # step 0.004
    ("freq", ["0", "10", "1/10"]),                                        # create_frequency_range(0, 10, step=0.1)
    ("freq", ["0", "2002", "1001/10"]),                                   # step 100.1
    ("freq", ["1000", "2033584/1000", "43066/1000"]),                     # step 43.066 from 1000 Hz
]
LATTICE_AXES_THOROUGH = [("time", {"start": "0", "stop": "1", "samplerate": 1000}), ("freq", ["0", "50", "1/20"]),
                         ("time", ["3", "4", "1/300"]), ("freq", ["0", "12000", "1000/3"])]


def _built_axis(which, spec):
    """the coordinates a range constructor of the library gives for `spec` (the request then records these numbers);
    should the constructor fail (it is C16's subject, not C20's) the same lattice comes from numpy directly"""
    import numpy as np
    from soundevent import arrays
    if isinstance(spec, dict):
        a, b, s = float(frac(spec["start"])), float(frac(spec["stop"])), 1.0 / spec["samplerate"]
    else:
        a, b, s = (float(frac(x)) for x in spec)
    try:
        if isinstance(spec, dict):
            var = arrays.create_time_range(a, b, samplerate=spec["samplerate"])
        else:
            var = arrays.create_time_range(a, b, step=s) if which == "time" else arrays.create_frequency_range(a, b, step=s)
        vals = [float(x) for x in var.values]
    except Exception:  # noqa: BLE001
        vals = []
    if not vals or any(y <= x for x, y in zip(vals, vals[1:])):
        vals = [float(x) for x in np.arange(a, b - s / 2, s)]
    return vals, s


def _lattice_variants(coords, k, start, step):
    """positions that all belong to lattice point k: the coordinate the template carries, the decimal number a
    user writes for it (start + k * step rounded to 12 decimals, k / samplerate), one ulp either side"""
    c = coords[k]
    lit = round(start + k * step, 12)
    out = [("coord", c), ("decimal", lit), ("quot", start + k / (1 / step)), ("ulp-up", ulp_up(c)), ("ulp-down", ulp_down(c))]
    if k + 1 < len(coords):
        out.append(("centre", (c + coords[k + 1]) / 2))
    seen, uniq = set(), []
    for n, p in out:                  # the decimal literal / quotient usually *are* the stored coordinate
        if p >= 0 and p not in seen:
            seen.add(p)
            uniq.append((n, p))
    return uniq


def _lattice_cases(ctx, axes):
    """boxes (and a few points / stamps / intervals) whose corners sweep every lattice point and every bin centre of
    axes built by create_time_range / create_frequency_range with a non-dyadic step stored in the 'step' attribute"""
    rng = ctx.rng
    boxes, others = [], []
    for which, spec in axes:
        coords, step = _built_axis(which, spec)
        n = len(coords)
        other = [0.0, 0.5, 1.0] if which == "freq" else [0.0, 100.0, 200.0, 300.0]
        w = max(n // 5, 1)
        for k in range(n):
            for name, p in _lattice_variants(coords, k, coords[0], step):
                k2 = (k + w) if k + w < n else None
                q = rng.choice(_lattice_variants(coords, k2, coords[0], step))[1] if k2 is not None else coords[-1] + 3 * step
                lo, hi = (p, q) if p <= q else (q, p)
                if k2 is None and rng.random() < 0.5 and k >= 1:          # the lattice point as the *end* of a box
                    lo, hi = coords[rng.randrange(0, k)], p
                a, b = sorted(rng.sample([0.0] + [c + (other[1] - other[0]) / 2 for c in other] + [other[-1] * 2 + 1], 2))
                if which == "time":
                    geom = {"type": "BoundingBox", "coordinates": [rat(lo), rat(a), rat(hi), rat(b)]}
                    t, fr = coords, other
                else:
                    geom = {"type": "BoundingBox", "coordinates": [rat(a), rat(lo), rat(b), rat(hi)]}
                    t, fr = other, coords
                inp = {"time": rats(t), "freq": rats(fr), "time_first": rng.random() < 0.5, "geoms": [geom],
                       "values": [rng.choice([1, 2, 5])], "fill": rng.choice([0, 0, -1]), "dtype": "float32",
                       "all_touched": rng.random() < 0.3, "contents": 0,
                       which + "_via": "range", which + "_range": spec}
                ctx.tally(f"lattice:{which}:{name}")
                boxes.append(inp)
                if name in ("coord", "decimal", "quot") and rng.random() < 0.25:
                    if which == "time":
                        g2 = rng.choice([{"type": "TimeStamp", "coordinates": rat(p)},
                                         {"type": "Point", "coordinates": [rat(p), rat(rng.choice(other))]},
                                         {"type": "TimeInterval", "coordinates": [rat(lo), rat(hi)]}])
                    else:
                        g2 = {"type": "Point", "coordinates": [rat(rng.choice(other)), rat(p)]}
                    others.append({**inp, "geoms": [g2], "all_touched": None, "twice": False})
        ctx.exhaustive[f"lattice:{which}:{json.dumps(spec)}"] = (
            f"every one of the {n} lattice points (as the stored coordinate, the decimal literal, the quotient k/(1/step), "
            f"one ulp above and below) and every bin centre, as a box corner")
    return boxes, others


def _near(c, scale):
    """tolerance-sized offsets around a comparison point: one ulp, 1e-12 ... 1e-6 relative to the magnitude"""
    out = [c, ulp_up(c), ulp_down(c)]
    for e in (1e-12, 1e-10, 1e-9, 1e-8, 1e-6):
        out += [c + e * scale, c - e * scale]
    return [p for p in out if p >= 0]


def _edge_cases(ctx, n):
    """HISTORIES.md 4: every comparison the property pins (value < first coordinate, value > last coordinate, the
    bin edges) with the value an ulp / 1e-12 ... 1e-6 relative either side and exactly on it, at small and large
    magnitudes (time axes at 0 s and at 1e6 s, frequency axes at 0 Hz and at 1e5 Hz, steps 1e-3 ... 1e3)"""
    rng = ctx.rng
    for _ in range(n):
        nt, nf = rng.randint(2, 6), rng.randint(2, 6)
        t0, ts = rng.choice([0.0, 0.5, 1e6, 86400.0]), rng.choice([0.5, 0.01, 1e-3, 0.1, 64.0])
        f0, fs = rng.choice([0.0, 1e5, 22050.0, 0.25]), rng.choice([125.0, 43.066, 1000.0, 1e-2])
        t, fr = [t0 + i * ts for i in range(nt)], [f0 + i * fs for i in range(nf)]
        tp = [p for c in t for p in _near(c, max(abs(c), ts))]
        fp = [p for c in fr for p in _near(c, max(abs(c), fs))]
        geoms = []
        for _g in range(rng.choice([1, 1, 2])):
            ty = rng.choice(["BoundingBox", "BoundingBox", "TimeInterval", "Point", "TimeStamp", "LineString"])
            a, b = sorted(rng.sample(tp, 2))
            c, d = sorted(rng.sample(fp, 2))
            coords = {"BoundingBox": [rat(a), rat(c), rat(b), rat(d)], "TimeInterval": [rat(a), rat(b)],
                      "Point": [rat(a), rat(c)], "TimeStamp": rat(a), "LineString": [[rat(a), rat(c)], [rat(b), rat(d)]]}[ty]
            geoms.append({"type": ty, "coordinates": coords})
        ctx.tally("edges:magnitude:" + ("large" if t0 >= 1e4 or f0 >= 1e4 else "small"))
        via = rng.choice(["array", "array_step", "plain"])
        yield {"time": rats(t), "freq": rats(fr), "time_first": rng.random() < 0.5, "geoms": geoms,
               "values": [rng.choice([1, 2, 3, 5]) for _ in geoms], "fill": rng.choice([None, 0, -1]), "dtype": None,
               "all_touched": rng.choice([None, False, True]), "contents": 0, "time_via": via, "freq_via": via}


def _ring(n, ct, cf, rt, rf, q=64, rng=None):
    """a simple closed polygon ring with n vertices around (ct, cf): star-shaped, vertices on a 1/q grid, the radius
    alternating between the full one and a (random) smaller one"""
    import math
    pts = []
    for i in range(n):
        a = 2 * math.pi * i / n
        r = 1.0 if i % 2 == 0 else (0.93 if rng is None else rng.uniform(0.55, 0.95))
        p = [Fraction(round((ct + rt * r * math.cos(a)) * q), q), Fraction(round((cf + rf * r * math.sin(a)) * q), q)]
        if not pts or p != pts[-1]:
            pts.append(p)
    if pts[-1] == pts[0]:
        pts.pop()
    return [[rat(max(x, 0)), rat(max(y, 0))] for x, y in pts + [pts[0]]]


def _size_cases(ctx):
    """HISTORIES.md 4: sizes at which an implementation could switch strategy - more than 16 geometries / values,
    more than 256 and 1024 vertices in one geometry, 1024 and more geometries, axes of 1024 and more bins"""
    rng = ctx.rng
    out = []
    t, fr = [i * 0.5 for i in range(8)], [i * 1.0 for i in range(6)]
    tp, fp = _positions(rng, t), _positions(rng, fr)
    base = {"time": rats(t), "freq": rats(fr), "fill": 0, "dtype": "float32", "all_touched": False, "contents": 0}
    for ngeo in (16, 17, 33, 257) + ((1024, 1025) if ctx.thorough() else (1025,)):
        geoms = [_box(rng, tp, fp) if rng.random() < 0.7 else _snap(rng, {"type": "Point"}, tp, fp) for _ in range(ngeo)]
        vals = [rng.choice([1, 2, 3, 4, 5, 6, 7, 8]) for _ in geoms]
        out.append({**base, "time_first": rng.random() < 0.5, "geoms": geoms, "values": vals})
        if ngeo < 100:
            out.append({**base, "time_first": rng.random() < 0.5, "geoms": geoms, "values": 3, "values_tuple": False})
        ctx.tally(f"sizes:geometries:{ngeo}")
    wt, wf = [i * 0.5 for i in range(16)], [i * 1.0 for i in range(12)]
    wide = {**base, "time": rats(wt), "freq": rats(wf)}
    for nv in (16, 17, 256, 257, 1024, 1025) + ((1023,) if ctx.thorough() else ()):
        geoms = []
        for _p in range(3 if nv < 1000 or ctx.thorough() else 1):   # polygons with nv vertices, jagged outline, with a hole
            ct, cf = rng.uniform(2.5, 5.0), rng.uniform(3.5, 7.5)
            ring = _ring(nv, ct, cf, rng.uniform(1.5, 2.4), rng.uniform(2.0, 3.4), q=4096, rng=rng)
            hole = _ring(max(nv // 8, 3), ct, cf, 0.4, 0.5, q=4096)
            g = {"type": "Polygon", "coordinates": [ring, hole]}
            if gen_geom.is_simple(g):
                geoms.append(g)
        line = [[rat(Fraction(i * 7, nv)), rat(Fraction(11 * ((i * 5) % 7), 7))] for i in range(nv)]
        mpts = [[rat(Fraction((i * 37) % 750, 100)), rat(Fraction((i * 11) % 1150, 100))] for i in range(nv)]
        geoms += [{"type": "LineString", "coordinates": line}, {"type": "MultiPoint", "coordinates": mpts}]
        for g in geoms:
            out.append({**wide, "time_first": rng.random() < 0.5, "geoms": [g], "values": [2],
                        "all_touched": rng.random() < 0.5})
        ctx.tally(f"sizes:vertices:{nv}", len(geoms))
    for nbins in (1023, 1024, 1025) if ctx.thorough() else (1024, 1025):
        for kind in ("dyadic", "decimal", "irregular"):
            if kind == "dyadic":
                big = [i * 0.25 for i in range(nbins)]
            elif kind == "decimal":
                big = [0.5 + i * 0.01 for i in range(nbins)]
            else:
                big = [i * 0.25 + (0.125 if i % 3 == 1 else 0.0) + i * i * 1e-4 for i in range(nbins)]
            small = [0.0, 1.0, 2.0]
            for which in ("time", "freq"):
                tt, ff = (big, small) if which == "time" else (small, big)
                btp, bfp = _positions(rng, tt), _positions(rng, ff)
                geoms = [_box(rng, btp, bfp) for _ in range(3)]
                out.append({**base, "time": rats(tt), "freq": rats(ff), "time_first": rng.random() < 0.5, "geoms": geoms,
                            "values": [1, 2, 3], which + "_via": "array_step" if kind == "decimal" else "array"})
        ctx.tally(f"sizes:bins:{nbins}")
    return out

# ------------------------------------------------------------------ histories (harness/history.py, HISTORIES.md 1)
# Consecutive rasterize calls in one process on shared identities.  Every step is judged like a case of
# `rasterize_all` (the Lean model is pure: the session theorem C20_history_independent says the k-th answer of a
# session is the answer to the k-th request alone); arguments are snapshotted around every call; results are
# poisoned by the caller and re-read after later calls.
TPL_KEYS = ("time", "freq", "time_first", "extra_dim", "contents", "time_via", "freq_via", "time_range", "freq_range",
            "time_step", "freq_step", "tpl_how", "time_dtype", "freq_dtype")
H_REUSE = ("same_template", "same_geoms", "tpl_coords_assign", "tpl_data_inplace", "geom_assign", "geom_inplace",
           "geom_copy_update", "geom_deep_copy_update", "list_inplace")


def _same(a, b, keys):
    return all(a.get(k) == b.get(k) for k in keys)


def _tpl_assignable(inp):
    return inp.get("tpl_how") in (None, "int_data", "coords_rev")


def _h_applicable(prev, inp):
    """the ways in which the live objects of the previous step can be turned into the arguments of this step"""
    hows = []
    same_tpl = _same(prev, inp, TPL_KEYS)
    same_geoms = prev["geoms"] == inp["geoms"] and _same(prev, inp, ("geom_build", "geoms_seq"))
    if same_tpl:
        hows += ["same_template", "tpl_data_inplace"]
    elif (_same(prev, inp, ("time_first", "extra_dim", "tpl_how")) and _tpl_assignable(inp)
          and len(prev["time"]) == len(inp["time"]) and len(prev["freq"]) == len(inp["freq"])):
        hows += ["tpl_coords_assign", "tpl_coords_assign"]
    if same_geoms:
        hows.append("same_geoms")
    elif any(a["type"] == b["type"] for a, b in zip(prev["geoms"], inp["geoms"])):
        hows += ["geom_assign", "geom_inplace", "geom_copy_update", "geom_deep_copy_update"]
    if prev.get("geoms_seq") != "tuple" and inp.get("geoms_seq") != "tuple" and not same_geoms:
        hows.append("list_inplace")
    return hows


def _h_sequences(ctx, rng, cases, n, length=(3, 5)):
    """n histories: x, a neighbour of x, x again, ...; a step reuses the live objects of the step before in a way
    that applies to the pair (every object whose content is unchanged stays the same Python object)"""
    out = []
    for i in range(n):
        x = cases[i % len(cases)]
        try:
            neigh = _h_variants(x, rng)
        except Exception:  # noqa: BLE001 - a case without neighbours still has other cases
            neigh = []
        seq, prev = [{"inp": copy.deepcopy(x)}], x
        L = rng.randint(*length)
        while len(seq) < L:
            y = rng.choice(neigh) if neigh and rng.random() < 0.85 else rng.choice(cases)
            for z in ([y, x] if rng.random() < 0.7 else [y]):
                if len(seq) >= L:
                    break
                st = {"inp": copy.deepcopy(z)}
                hows = _h_applicable(prev, z)
                changing = [h for h in hows if h not in ("same_template", "same_geoms", "tpl_data_inplace")]
                if changing and rng.random() < 0.7:          # an object that was used, is changed and is used again
                    st["reuse"] = rng.choice(changing)
                elif hows and rng.random() < 0.7:
                    st["reuse"] = rng.choice(hows)
                seq.append(st)
                prev = z
        for st in seq[:-1]:
            if rng.random() < 0.35:
                st["poison"] = True
        for st in seq:
            ctx.tally("history:" + (st.get("reuse") or "fresh") + ("+poison" if st.get("poison") else ""))
        out.append({"seq": seq})
    return out


def _h_build(inp):
    return {"inp": inp, "geoms": B.geometries(inp), "tpl": B.template(inp), "kw": B.optional_args(inp)}


def _h_call(args):
    return B.call(args["inp"], args["geoms"], args["tpl"], kw=args["kw"])


def _h_canon(inp, args, res):
    return _canon(res, inp)


def _h_snapshot(args):
    return {"tpl": B.template_snapshot(args["tpl"]), "geoms": B.geometries_snapshot(args["geoms"]),
            "kw": sorted((k, repr(v)) for k, v in args["kw"].items())}


def _set_in_place(old, new):
    """overwrite the numbers of a nested coordinate list in place; False when the nesting differs"""
    if isinstance(old, list) and isinstance(new, list) and len(old) == len(new):
        if all(not isinstance(x, list) for x in new) and all(not isinstance(x, list) for x in old):
            old[:] = new
            return True
        if all(isinstance(x, list) for x in new) and all(isinstance(x, list) for x in old):
            return all(_set_in_place(o, n) for o, n in zip(old, new))
    return False


def _h_modify(args, inp, how):
    """the live objects of the previous step turned into the arguments of this step: nothing a template, a geometry
    or a list remembered from its earlier use may survive the change.  Whatever is unchanged between the two steps
    stays the same Python object (the template when only geometries change, the geometries when only the template
    changes), so that anything keyed by identity meets changed content"""
    try:
        return _h_modified(args, inp, how)
    except Exception:  # noqa: BLE001 - objects that can no longer be edited this way are simply built afresh
        return None


def _h_modified(args, inp, how):
    import numpy as np
    prev = args["inp"]
    if how not in _h_applicable(prev, inp):
        return None
    same_tpl = _same(prev, inp, TPL_KEYS)
    same_geoms = prev["geoms"] == inp["geoms"] and _same(prev, inp, ("geom_build", "geoms_seq"))
    tpl = args["tpl"] if same_tpl else None
    geoms = args["geoms"] if same_geoms else None
    if how == "tpl_data_inplace":                # the template's contents are not part of the request
        tpl.values[...] = np.random.RandomState(len(inp["geoms"]) + 7).uniform(-9, 9, size=tpl.shape).astype(tpl.dtype)
    elif how == "tpl_coords_assign":
        tpl = args["tpl"]                        # the same DataArray object with its coordinates replaced
        tpl.coords["time"] = B.axis_variable(inp, "time")
        tpl.coords["frequency"] = B.axis_variable(inp, "freq")
    elif how in ("geom_assign", "geom_inplace", "geom_copy_update", "geom_deep_copy_update", "list_inplace"):
        fresh = B.geometries(inp)                # the validated form of the new content
        old = list(args["geoms"])
        out = []
        for k, g in enumerate(fresh):
            o = old[k] if k < len(old) and old[k].type == g.type else None
            if o is None or how == "list_inplace":
                out.append(g)
            elif how == "geom_assign":
                o.coordinates = g.coordinates
                out.append(o)
            elif how == "geom_inplace":
                if not _set_in_place(o.coordinates, g.coordinates):
                    o.coordinates = g.coordinates
                out.append(o)
            else:
                out.append(o.model_copy(update={"coordinates": g.coordinates}, deep=(how == "geom_deep_copy_update")))
        if how == "list_inplace" and isinstance(args["geoms"], list):
            geoms = args["geoms"]
            geoms[:] = out                       # the caller's list object, refilled
        else:
            geoms = tuple(out) if inp.get("geoms_seq") == "tuple" else out
    kw = B.optional_args(inp)
    if how == "list_inplace" and isinstance(args["kw"].get("values"), list) and isinstance(kw.get("values"), list):
        vals = args["kw"]["values"]
        vals[:] = kw["values"]
        kw["values"] = vals
    return {"inp": inp, "geoms": geoms if geoms is not None else B.geometries(inp),
            "tpl": tpl if tpl is not None else B.template(inp), "kw": kw}


def _h_poison(res):
    """the caller edits the raster it got back (it is the caller's): nothing may be shared with later calls"""
    try:
        res.values[...] = 99
        res.attrs["edited"] = True
    except Exception:  # noqa: BLE001 - a read-only result cannot be poisoned
        return False
    return True


def _h_variants(x, rng):
    """neighbours of a request: exactly one part changed, everything else (identities included) the same"""
    out = []
    pool = _value_pool(x.get("dtype") or "float32", 0 if x.get("fill") is None else x["fill"])
    # same template (same shape and dtype): other geometries / values / fill
    tp, fp = _positions(rng, fl(x["time"])), _positions(rng, fl(x["freq"]))
    k = rng.choice([1, 1, 2, 3])
    geoms = [_box(rng, tp, fp) if rng.random() < 0.6 else
             gen_geom.gen_valid(rng, rng.choice(ALL_TYPES), tmax=max(tp[-1], 1.5), fmax=max(fp[-1], 1.5), k=3)
             for _ in range(k)]
    out.append({**x, "geoms": geoms, "values": [rng.choice(pool) for _ in geoms]})
    if isinstance(x.get("values"), list) and len(x["values"]) == len(x["geoms"]) and x["geoms"]:
        out.append({**x, "values": [rng.choice(pool) for _ in x["geoms"]]})
        out.append({**x, "values": list(reversed(x["values"]))})
    # the same geometry types with every vertex moved by one time / frequency step (in-place edits keep the nesting)
    ts = (fl(x["time"])[1] - fl(x["time"])[0]) if len(x["time"]) > 1 else 0.5
    fs = (fl(x["freq"])[1] - fl(x["freq"])[0]) if len(x["freq"]) > 1 else 0.5
    if x["geoms"]:
        for _w in range(2):                      # (twice: these are the neighbours in-place edits apply to)
            out.append({**x, "geoms": [_shifted(g, ts, fs) for g in x["geoms"]]})
            out.append({**x, "geoms": [_shifted(g, 2 * ts, 0.0) for g in x["geoms"]]})
    unsigned = x.get("dtype") == "uint8"
    out.append({**x, "fill": rng.choice([5, 7] if unsigned else [-1, 7, 5])})
    out.append({**x, "all_touched": not x.get("all_touched")})
    other = [d for d in DTYPES if d != x.get("dtype") and _fits(x, d)]
    if other:
        out.append({**x, "dtype": rng.choice(other)})
    # a plain call after a call with options (options must not leak into module state)
    out.append({**x, "values": None, "fill": None, "dtype": None, "all_touched": None, "call_as": "kw"})
    # the same geometries on another template of the same shape / on the transposed template
    out.append({**x, "time_first": not x["time_first"]})
    scaled = {"time": rats([2 * c + 0.5 for c in fl(x["time"])]), "freq": rats([c / 2 + 1 for c in fl(x["freq"])]),
              "time_via": "array", "freq_via": "array", "time_dtype": None, "freq_dtype": None}
    out.append({**x, **scaled, "tpl_how": None})
    for _w in range(2):                          # same kind of template object: its coordinates can be re-assigned
        out.append({**x, **scaled})
    if len(x["time"]) != len(x["freq"]):
        out.append({**x, "time": x["freq"], "freq": x["time"], "time_via": "array", "freq_via": "array", "tpl_how": None,
                    "time_dtype": None, "freq_dtype": None})
    return out


def _shifted(g, dt, df):
    """the geometry translated by (dt, df): same type, same nesting, still valid"""
    ty, c = g["type"], g["coordinates"]
    mv = lambda p: [rat(float(frac(p[0])) + dt), rat(float(frac(p[1])) + df)]
    if ty == "TimeStamp":
        cc = rat(float(frac(c)) + dt)
    elif ty == "TimeInterval":
        cc = [rat(float(frac(v)) + dt) for v in c]
    elif ty == "Point":
        cc = mv(c)
    elif ty == "BoundingBox":
        cc = mv(c[:2]) + mv(c[2:])
    elif ty in ("LineString", "MultiPoint"):
        cc = [mv(p) for p in c]
    elif ty in ("MultiLineString", "Polygon"):
        cc = [[mv(p) for p in r] for r in c]
    else:
        cc = [[[mv(p) for p in r] for r in poly] for poly in c]
    return {"type": ty, "coordinates": cc}


def _fits(x, dtype):
    """the request's fill and values are representable in the dtype (the property's domain)"""
    nums = [x.get("fill")] + (x["values"] if isinstance(x.get("values"), list) else [x.get("values")])
    nums = [frac(v) for v in nums if v is not None]
    if dtype in ("float32", "float64"):
        return True
    return all(v.denominator == 1 for v in nums) and (dtype != "uint8" or all(v >= 0 for v in nums))


OPS["raster_history"] = history.history_op("raster_history", OPS["rasterize_all"], _h_build, _h_call, _h_canon,
                                           snapshot=_h_snapshot, modify=_h_modify, poison=_h_poison)


def _stage_pairwise(ctx):
    ctx.run_cases(OPS["rasterize_all"], _pairwise_cases(ctx, ctx.budget(1, 4)))


def _stage_lattice(ctx):
    boxes, others = _lattice_cases(ctx, LATTICE_AXES + (LATTICE_AXES_THOROUGH if ctx.thorough() else []))
    ctx.run_cases(OPS["rasterize"], boxes)
    ctx.run_cases(OPS["rasterize_all"], others)


def _stage_edges(ctx):
    ctx.run_cases(OPS["rasterize_all"], _edge_cases(ctx, ctx.budget(300, 4000)))


def _stage_sizes(ctx):
    ctx.run_cases(OPS["rasterize_all"], _size_cases(ctx))


def _history_base(ctx, n):
    """small requests for the histories: explicit per-geometry value lists so that neighbours can permute them"""
    out = []
    for _ in range(n):
        inp = _general_case(ctx, ctx.rng, {"values_kind": ctx.rng.choice(["list", "list", "tuple", "scalar"])})
        inp["twice"] = False
        out.append(inp)
    return out


def _stage_histories(ctx):
    """consecutive calls in one process: the same template with other geometries / values / fill / dtype /
    all_touched, the same geometries on other templates, template / geometry / list objects that were used, changed
    (assignment, in place, model_copy) and used again, results edited by the caller, results re-read after later calls"""
    rng = ctx.rng
    base = _history_base(ctx, ctx.budget(60, 600))
    ctx.run_cases(OPS["raster_history"], _h_sequences(ctx, rng, base, ctx.budget(150, 1000)))


def run(ctx):
    import time
    walls = []

    def stage(name, fn, *args):
        t0 = time.time()
        ctx.stage(name, fn, *args)
        walls.append(f"{name} {time.time() - t0:.1f}")

    stage("corpus", ctx.run_corpus, OPS)
    stage("tables", _tables, ctx)
    stage("symbolic", _symbolic, ctx)
    stage("discharge", ctx.discharge, ["SoundeventModel.Raster", "SoundeventModel.Tactics", "Proofs.C20"])
    stage("rasterio-box-rule", _rasterio_contract, ctx)
    stage("rasterio-point-rule", _point_contract, ctx)
    stage("rasterize-exact", lambda: ctx.run_cases(OPS["rasterize"], _raster_cases(ctx, ctx.budget(6, 60))))
    ctx.exhaustive["rasterize"] = "every template shape 1-8 x 1-8, both dimension orders"
    stage("lattice-sweep", _stage_lattice, ctx)
    stage("option-pairs", _stage_pairwise, ctx)
    stage("rasterize-all-types", lambda: ctx.run_cases(OPS["rasterize_all"], _general_cases(ctx, ctx.budget(700, 9000))))
    stage("edge-offsets", _stage_edges, ctx)
    stage("size-thresholds", _stage_sizes, ctx)
    stage("histories", _stage_histories, ctx)
    stage("polygon-monitor", lambda: ctx.run_cases(OPS["raster_monitor"], _monitor_cases(ctx, ctx.budget(150, 3000))))
    ctx.note("stage wall times (s): " + ", ".join(walls))


def search(ctx, failures):
    ctx.run_cases(OPS["rasterize"], _raster_cases(ctx, 10))
    boxes, others = _lattice_cases(ctx, LATTICE_AXES)
    ctx.run_cases(OPS["rasterize"], boxes)
    ctx.run_cases(OPS["rasterize_all"], others)
    ctx.run_cases(OPS["rasterize_all"], _general_cases(ctx, 1500))
    ctx.run_cases(OPS["rasterize_all"], _edge_cases(ctx, 300))
    ctx.run_cases(OPS["raster_history"], _h_sequences(ctx, ctx.rng, _history_base(ctx, 80), 200))
    ctx.run_cases(OPS["raster_monitor"], _monitor_cases(ctx, 300))
