"""C20 — Rasterisation marks exactly the bins a geometry covers, on the template's axes."""
import itertools
from fractions import Fraction

from ..core import Op
from ..rat import rat, frac
from ..axis_common import guarded, fl, is_err, rats
from .. import gen_geom

PROPERTY = "C20"
LEAN_MODULE = "Proofs.C20"
_T = "SE.Proofs.C20."
THEOREMS = [_T + n for n in [
    "C20_box_bins", "C20_bin_of_start", "C20_bins_by_coordinates", "C20_cell_value", "C20_last_wins",
    "C20_untouched_fill", "C20_axes", "C20_values_length_rejected", "C20_scalar_value", "C20_box_centre_rule"]]
LEVEL_TEXT = ("Lean theorems over the index-space model of rasterize: a bounding box covers exactly the bins from the one "
              "containing its start (inclusive) to the one containing its end (exclusive) on each axis (in bin indices and "
              "in terms of the axis coordinates, through C16's lookup with clamping), every cell holds the value of the "
              "last geometry covering it or the fill value, the result is labelled (time, frequency) with the template's "
              "coordinates and has nt x nf cells for either dimension order, a value list of the wrong length is rejected. "
              "The model is tied to the code by exact differential runs (templates 1-8 x 1-8, both orders, dyadic and "
              "decimal spacings, 0-4 boxes, values, fills, dtypes, all_touched both ways) and rasterio's box rule is "
              "monitored on the library on every run.")
LEVEL_NOTE = ("Unmodelled: rasterio / GDAL scan conversion. For integer-cornered boxes its rule (cell burnt iff its centre "
              "lies in the box, all_touched adds nothing) is a run-time-monitored contract; for general polygons, lines and "
              "points only the property's monitors run on the real output (all_touched is a superset, later geometries "
              "overwrite, untouched = fill, centre-in-polygon for cells whose centre is off the boundary, evaluated in Lean "
              "over exact rationals). Model tied to the code by generator-bounded correspondence only.")
TECHNIQUE = "Lean 4 proof over index-space model; exact differential correspondence; library contract and polygon monitors"
RULE = ("templates of 1-8 x 1-8 bins in both dimension orders, dyadic and decimal spacings, lists of 0-4 box-like "
        "geometries with ends on, between and beyond coordinates; non-trivial = the implementation returned a raster "
        "with at least one burnt cell; distinct = distinct (operation, input)")
TRUSTED = ["rasterio.features.rasterize (box rule monitored as a contract on every run), shapely.transform, "
           "xarray DataArray construction"]
ASSUMPTIONS = ["rasterio burns an integer-cornered box into exactly the cells whose centre it contains, with or without "
               "all_touched (contract `rasterio-box-rule`, evaluated exhaustively on a 4 x 5 raster in this run)",
               "GDAL fills polygons by the even-odd rule on cell centres (contract of the polygon monitor)"]
NOT_COMPARED = ["error messages (only the error class)", "attributes of the result",
                "cells of non-box geometries (monitors only)",
                "cells whose centre lies exactly on the boundary of the index-space polygon"]

LINE_TYPES = ("LineString", "MultiLineString")
DTYPES = ["float32", "float64", "int32", "int16", "uint8"]


# ------------------------------------------------------------------ implementation
def _template(inp):
    import numpy as np
    import xarray as xr
    from soundevent import arrays
    t = np.array(fl(inp["time"]), dtype=float)
    fr = np.array(fl(inp["freq"]), dtype=float)
    tv = arrays.create_time_dim_from_array(t)
    fv = arrays.create_frequency_dim_from_array(fr)
    rs = np.random.RandomState(inp.get("contents", 0))
    if inp["time_first"]:
        data = rs.uniform(-5, 5, size=(len(t), len(fr)))
        dims = ("time", "frequency")
    else:
        data = rs.uniform(-5, 5, size=(len(fr), len(t)))
        dims = ("frequency", "time")
    if inp.get("contents", 0) == 0:
        data = np.zeros_like(data)
    return xr.DataArray(data, dims=dims, coords={"time": tv, "frequency": fv})


def _canon(r, inp):
    import numpy as np
    dt = inp.get("dtype", "float32")
    if str(r.dtype) != dt:
        return {"raise": f"crash:dtype-{r.dtype}"}
    v = np.asarray(r.values)
    if v.ndim != 2 or not np.all(np.equal(np.mod(v, 1), 0)):
        return {"raise": "crash:not-a-2d-integer-raster"}
    return {"val": {"dims": list(r.dims), "time": [rat(float(c)) for c in r.coords["time"].values],
                    "freq": [rat(float(c)) for c in r.coords["frequency"].values],
                    "grid": [[int(x) for x in row] for row in v]}}


def _call(inp, geoms=None, all_touched=None, values=None):
    from soundevent.geometry import rasterize
    gs = [gen_geom.to_data(g) for g in (inp["geoms"] if geoms is None else geoms)]
    vals = inp["values"] if values is None else values
    if inp.get("values_tuple") and isinstance(vals, list):
        vals = tuple(vals)
    return rasterize(gs, _template(inp), values=vals, fill=inp["fill"], dtype=inp.get("dtype", "float32"),
                     all_touched=inp["all_touched"] if all_touched is None else all_touched)


@guarded
def _impl_rasterize(inp):
    return _canon(_call(inp), inp)


def _holds_valid_request(ctx, inp, out):
    """a request whose value list fits must yield a raster, whatever the template's dimension order"""
    vals = inp["values"]
    if isinstance(vals, list) and len(vals) != len(inp["geoms"]):
        return None if is_err(out) and out["raise"] == "invalid" else "a value list of the wrong length was accepted"
    if is_err(out):
        return "rasterize raised on a valid request: %s" % out["raise"]
    return None


def _nontrivial(inp, out):
    return (not is_err(out)) and any(x != inp["fill"] for row in out["val"]["grid"] for x in row)


# ---- monitor for general geometries: the real code only
@guarded
def _impl_monitor(inp):
    from soundevent.arrays import get_coord_index
    from soundevent.geometry import geometry_to_shapely
    import shapely
    full = {}
    singles = {}
    for at in (False, True):
        o = _canon(_call(inp, all_touched=at), inp)
        if is_err(o):
            return o
        full[at] = o["val"]["grid"]
        singles[at] = []
        for g, v in zip(inp["geoms"], inp["values"]):
            o = _canon(_call(inp, geoms=[g], values=[v], all_touched=at), inp)
            if is_err(o):
                return o
            singles[at].append(o["val"]["grid"])
    # index-space rings of the polygonal geometries (what rasterize hands to rasterio)
    tmpl = _template(inp)
    rings = []
    for g in inp["geoms"]:
        if g["type"] not in ("Polygon", "MultiPolygon", "BoundingBox", "TimeInterval"):
            rings.append(None)
            continue
        sh = geometry_to_shapely(gen_geom.to_data(g))
        polys = list(sh.geoms) if sh.geom_type == "MultiPolygon" else [sh]
        rr = []
        for p in polys:
            for ring in [p.exterior] + list(p.interiors):
                rr.append([[int(get_coord_index(tmpl, "time", x, raise_error=False)),
                            int(get_coord_index(tmpl, "frequency", y, raise_error=False))]
                           for x, y in ring.coords])
        rings.append(rr)
    return {"val": {"full": {"plain": full[False], "touched": full[True]},
                    "singles": {"plain": singles[False], "touched": singles[True]}, "rings": rings}}


def _overlay(singles, fill, nx, ny):
    g = [[fill] * ny for _ in range(nx)]
    for s in singles:
        for i in range(nx):
            for j in range(ny):
                if s[i][j] != fill:
                    g[i][j] = s[i][j]
    return g


def _holds_monitor(ctx, inp, out):
    if is_err(out):
        return "rasterize raised: %s" % out["raise"]
    v = out["val"]
    nx, ny, fill = len(inp["time"]), len(inp["freq"]), inp["fill"]
    for mode in ("plain", "touched"):
        g = v["full"][mode]
        if len(g) != nx or any(len(r) != ny for r in g):
            return f"raster is not {nx} x {ny}"
        if g != _overlay(v["singles"][mode], fill, nx, ny):
            return f"[{mode}] a later geometry does not overwrite an earlier one / an untouched cell is not the fill value"
    # all_touched only ever adds cells, geometry by geometry; line geometries last, so that the known
    # finding about GDAL's line burning never hides a violation on another geometry
    line_msg = None
    for k, g in enumerate(inp["geoms"]):
        plain, touched = v["singles"]["plain"][k], v["singles"]["touched"][k]
        lost = [(i, j) for i in range(nx) for j in range(ny) if plain[i][j] != fill and touched[i][j] == fill]
        if lost:
            msg = f"all_touched removed cell {lost[0]} of geometry {k} ({g['type']})"
            if g["type"] in LINE_TYPES:
                line_msg = line_msg or msg
            else:
                return msg
    for k, rr in enumerate(v["rings"]):
        if rr is None:
            continue
        # all_touched=True burns every cell through whose interior the boundary passes
        touched = v["singles"]["touched"][k]
        for ring in rr:
            for (px, py), (qx, qy) in zip(ring, ring[1:]):
                for m in range(16):
                    t = Fraction(2 * m + 1, 32)
                    x, y = px + t * (qx - px), py + t * (qy - py)
                    if x.denominator == 1 or y.denominator == 1:
                        continue
                    cx, cy = x.numerator // x.denominator, y.numerator // y.denominator
                    if 0 <= cx < nx and 0 <= cy < ny and touched[cx][cy] == fill:
                        return (f"geometry {k} ({inp['geoms'][k]['type']}): with all_touched the boundary passes through "
                                f"cell ({cx}, {cy}) which is not burnt")
        burnt = [[x != fill for x in row] for row in v["singles"]["plain"][k]]
        bad = ctx.model("centre_rule", {"nx": nx, "ny": ny, "rings": [[[str(x), str(y)] for x, y in r] for r in rr],
                                        "burnt": burnt})
        if bad:
            return (f"geometry {k} ({inp['geoms'][k]['type']}): cell {tuple(bad[0])} is "
                    f"{'burnt' if burnt[bad[0][0]][bad[0][1]] else 'not burnt'} but its centre is "
                    f"{'outside' if burnt[bad[0][0]][bad[0][1]] else 'inside'} the index-space polygon")
    return line_msg


def _match_line_all_touched(failure, m):
    """known finding: only the superset statement, only for a LineString / MultiLineString geometry"""
    import re
    mt = re.match(r"all_touched removed cell \(\d+, \d+\) of geometry (\d+) \((\w+)\)$", failure.detail or "")
    if not mt or failure.op != "raster_monitor":
        return False
    k = int(mt.group(1))
    geoms = (failure.inp or {}).get("geoms", [])
    return k < len(geoms) and geoms[k]["type"] == mt.group(2) and mt.group(2) in m.get("types", [])


FINDING_MATCHERS = {"line_all_touched_subset": _match_line_all_touched}


def _to_model(inp):
    return {k: inp[k] for k in ("time", "freq", "time_first", "geoms", "values", "fill", "all_touched")}


OPS = {
    "rasterize": Op("rasterize", _impl_rasterize, to_model=_to_model, nontrivial=_nontrivial, holds=_holds_valid_request),
    "raster_monitor": Op("raster_monitor", _impl_monitor, holds=_holds_monitor, model_op="noop",
                         to_model=lambda inp: {}, compare=lambda inp, io, mo: None, mode="tolerance"),
}


# ------------------------------------------------------------------ the library contract
def _rasterio_contract(ctx):
    import numpy as np
    from rasterio import features
    from shapely import geometry
    nx, ny = 5, 4
    boxes = [(x0, y0, x1, y1) for x0, x1 in itertools.combinations_with_replacement(range(nx + 1), 2)
             for y0, y1 in itertools.combinations_with_replacement(range(ny + 1), 2)]
    expected = ctx.model_many("box_rule", [{"nx": nx, "ny": ny, "box": list(b)} for b in boxes])
    for b, exp in zip(boxes, expected):
        for at in (False, True):
            r = features.rasterize([(geometry.box(*b), 1)], (ny, nx), fill=0, all_touched=at, dtype="int32")
            got = [[int(x) for x in row] for row in np.asarray(r).T]
            ctx.contract("rasterio-box-rule", got == exp, {"box": list(b), "all_touched": at, "raster": [nx, ny]}, got,
                         "rasterio does not burn an integer-cornered box into exactly the cells whose centre it contains")
    ctx.exhaustive["rasterio-box-rule"] = f"all {len(boxes)} integer-cornered boxes of a {nx} x {ny} raster, all_touched both ways"


# ------------------------------------------------------------------ generators
def _axis(rng, n, kind, spacing):
    if kind == "time":
        a0 = rng.choice([Fraction(0), Fraction(1, 2), Fraction(3)])
        if spacing == "dyadic":
            st = rng.choice([Fraction(1, 4), Fraction(1, 2), Fraction(1)])
            return [float(a0 + i * st) for i in range(n)]
        st = rng.choice([0.1, 0.01, 1 / 3])
        return [float(a0) + i * st for i in range(n)]
    a0 = rng.choice([0, 100, 1000])
    if spacing == "dyadic":
        st = rng.choice([125, 250, 31.25])
        return [float(a0 + i * st) for i in range(n)]
    st = rng.choice([100.1, 1000 / 3, 43.066])
    return [a0 + i * st for i in range(n)]


def _positions(rng, ax):
    """box ends: on coordinates, between them, below and beyond the axis (times / frequencies stay >= 0)"""
    step = (ax[1] - ax[0]) if len(ax) > 1 else 1.0
    pts = list(ax) + [c + step / 2 for c in ax] + [c + step / 4 for c in ax]
    pts += [ax[-1] + step, ax[-1] + 2.5 * step, ax[0] - step / 2, ax[0] - 2 * step, 0.0]
    return sorted({p for p in pts if p >= 0})


def _box(rng, tpts, fpts):
    a, b = sorted(rng.sample(tpts, 2)) if len(tpts) > 1 and rng.random() < 0.9 else (tpts[0],) * 2
    c, d = sorted(rng.sample(fpts, 2)) if len(fpts) > 1 and rng.random() < 0.9 else (fpts[0],) * 2
    if rng.random() < 0.2:
        return {"type": "TimeInterval", "coordinates": [rat(a), rat(b)]}
    return {"type": "BoundingBox", "coordinates": [rat(a), rat(c), rat(b), rat(d)]}


def _raster_cases(ctx, per_shape):
    rng = ctx.rng
    for nt in range(1, 9):
        for nf in range(1, 9):
            for _ in range(per_shape):
                spacing = rng.choice(["dyadic", "decimal"])
                t, fr = _axis(rng, nt, "time", spacing), _axis(rng, nf, "frequency", spacing)
                tp, fp = _positions(rng, t), _positions(rng, fr)
                for time_first in (False, True):
                    k = rng.choice([0, 1, 1, 2, 3, 4])
                    geoms = [_box(rng, tp, fp) for _ in range(k)]
                    fill = rng.choice([0, 0, -1, 7])
                    dtype = rng.choice(DTYPES)
                    if dtype == "uint8":
                        fill = abs(fill)
                    vals = [rng.choice([v for v in range(1, 9) if v != fill]) for _ in range(k)]
                    mode = rng.random()
                    values = vals
                    if mode < 0.2:
                        values = vals[0] if vals else 1          # one value for all
                    elif mode < 0.3:
                        values = vals + [3] if rng.random() < 0.5 or not vals else vals[:-1]   # wrong length
                    yield {"time": rats(t), "freq": rats(fr), "time_first": time_first, "geoms": geoms, "values": values,
                           "values_tuple": rng.random() < 0.3, "fill": fill, "dtype": dtype,
                           "all_touched": rng.random() < 0.5, "contents": rng.choice([0, 1, 2])}


def _monitor_cases(ctx, n):
    rng = ctx.rng
    types = ["Polygon", "Polygon", "MultiPolygon", "BoundingBox", "TimeInterval", "LineString", "Point", "TimeStamp",
             "MultiPoint", "MultiLineString"]
    for _ in range(n):
        nt, nf = rng.randint(1, 8), rng.randint(1, 8)
        t = [i * 0.5 for i in range(nt)] if rng.random() < 0.5 else [0.25 + i * 0.1 for i in range(nt)]
        fr = [i * 1.0 for i in range(nf)] if rng.random() < 0.5 else [0.5 + i * 0.3 for i in range(nf)]
        k = rng.randint(1, 3)
        geoms = [gen_geom.gen_valid(rng, rng.choice(types), tmax=max(t[-1] + 1, 1.5), fmax=max(fr[-1] + 1, 1.5), k=3)
                 for _ in range(k)]
        yield {"time": rats(t), "freq": rats(fr), "time_first": rng.random() < 0.5, "geoms": geoms,
               "values": rng.sample(range(1, 9), k), "fill": rng.choice([0, -1]), "dtype": "float32", "all_touched": False}


def run(ctx):
    ctx.stage("corpus", ctx.run_corpus, OPS)
    ctx.stage("rasterio-box-rule", _rasterio_contract, ctx)
    ctx.stage("rasterize-exact", lambda: ctx.run_cases(OPS["rasterize"], _raster_cases(ctx, ctx.budget(6, 60))))
    ctx.exhaustive["rasterize"] = "every template shape 1-8 x 1-8, both dimension orders"
    ctx.stage("polygon-monitor", lambda: ctx.run_cases(OPS["raster_monitor"], _monitor_cases(ctx, ctx.budget(250, 4000))))


def search(ctx, failures):
    ctx.run_cases(OPS["rasterize"], _raster_cases(ctx, 10))
    ctx.run_cases(OPS["raster_monitor"], _monitor_cases(ctx, 300))
