"""C20 — Rasterisation marks exactly the bins a geometry covers, on the template's axes."""
import itertools
import json
from fractions import Fraction

from ..core import Op, jkey
from ..rat import rat, frac
from ..axis_common import guarded, fl, is_err, rats
from .. import gen_geom

PROPERTY = "C20"
LEAN_MODULE = "Proofs.C20"
_T = "SE.Proofs.C20."
THEOREMS = [_T + n for n in [
    "C20_box_bins", "C20_bin_of_start", "C20_bins_by_coordinates", "C20_cell_value", "C20_last_wins",
    "C20_untouched_fill", "C20_axes", "C20_values_length_rejected", "C20_scalar_value", "C20_box_centre_rule",
    "C20_general_cell", "C20_general_axes", "C20_general_values", "C20_general_box", "C20_point_cell",
    "C20_polygon_centre_rule", "C20_all_touched_adds", "C20_defaults", "C20_clamp_index",
    "C20_box_cells_by_coordinates"]]
LEVEL_TEXT = ("Lean theorems over the index-space model of rasterize. Box model: a bounding box / time interval covers exactly "
              "the bins from the one containing its start (inclusive) to the one containing its end (exclusive) on each "
              "axis, in bin indices and end to end in terms of the template's coordinates (through C16's lookup with "
              "clamping); every cell holds the value of the last geometry covering it or the fill value; the result is "
              "labelled (time, frequency) with the template's coordinates and has nt x nf cells for either dimension "
              "order; a value list of the wrong length is rejected. General model (all nine geometry types): the "
              "index-space image handed to rasterio is modelled per type and rasterio is a parameter; for any rasteriser "
              "the same cell / axes / values theorems hold, under the box rule it coincides with the box model, under the "
              "point rule a Point marks exactly its bin, under the centre rule a polygon's cell holds its value iff the "
              "centre is inside the polygon mapped to bin indices, under the superset contract all_touched only adds "
              "cells. Ties: signature defaults and MAX_FREQUENCY re-extracted as obligations, the clamped lookup of "
              "get_coord_index proved equal to the model for all inputs by symbolic trace, exact differential runs of "
              "both models (templates 1-8 x 1-8, both orders, extra dimensions, regular and irregular axes, all "
              "geometry types, integer and fractional values, fills, dtypes, defaults, all_touched both ways) with "
              "rasterio's answers for the model's images as the rasteriser; box and point rules monitored exhaustively "
              "on the library every run, centre rule and all_touched superset on every generated shape.")
LEVEL_NOTE = ("Unmodelled: rasterio / GDAL scan conversion (a parameter of the general model; its answers for the model's "
              "index-space images are observed on the library in every differential case). For integer-cornered boxes and "
              "points its rule is a run-time-monitored contract evaluated exhaustively on a small raster; for general "
              "polygons the centre rule (cells whose centre is off the boundary) and for all non-line shapes the "
              "all_touched superset are monitored on every generated shape; line burning is not characterised (known "
              "finding C20-K1). shapely.transform / geometry_to_shapely and xarray are tied by correspondence only; the "
              "straight-line part of get_coord_index by symbolic trace with pandas' slice bound as a symbol.")
TECHNIQUE = ("Lean 4 proof over index-space model with the rasteriser as a parameter; table and symbolic-trace "
             "obligations; exact differential correspondence; library contracts and polygon monitors")
RULE = ("templates of 1-8 x 1-8 bins in both dimension orders (optionally with a third dimension), dyadic, decimal and "
        "irregular spacings, lists of 0-4 geometries (box-like for the box model, all nine types for the general model) "
        "with ends on, between and beyond coordinates; non-trivial = the implementation returned a raster "
        "with at least one burnt cell; distinct = distinct (operation, input)")
TRUSTED = ["rasterio.features.rasterize (box rule monitored as a contract on every run), shapely.transform, "
           "xarray DataArray construction"]
ASSUMPTIONS = ["rasterio burns an integer-cornered box into exactly the cells whose centre it contains, with or without "
               "all_touched (contract `rasterio-box-rule`, evaluated exhaustively on a 4 x 5 raster in this run)",
               "rasterio burns a point with integer coordinates into exactly the cell of that index (contract "
               "`rasterio-point-rule`, evaluated exhaustively on a 4 x 3 raster in this run)",
               "GDAL fills polygons by the even-odd rule on cell centres (contracts `rasterio-centre-rule` and the polygon "
               "monitor, evaluated on every generated polygon)",
               "burning a list of shapes equals burning them one at a time in list order (implied by the exact comparison "
               "of the general model, which folds rasterio's single-shape answers)"]
NOT_COMPARED = ["error messages (only the error class)", "attributes and name of the result",
                "which cells GDAL burns for a given index-space shape (observed on rasterio, not modelled; contracts only)",
                "cells whose centre lies exactly on the boundary of the index-space polygon (centre-rule contract)"]

LINE_TYPES = ("LineString", "MultiLineString")
DTYPES = ["float32", "float64", "int32", "int16", "uint8"]


# ------------------------------------------------------------------ implementation
def _template(inp):
    import numpy as np
    import xarray as xr
    from soundevent import arrays
    t = np.array(fl(inp["time"]), dtype=float)
    fr = np.array(fl(inp["freq"]), dtype=float)
    tv = arrays.create_time_dim_from_array(t)
    fv = arrays.create_frequency_dim_from_array(fr)
    rs = np.random.RandomState(inp.get("contents", 0))
    dims = ["time", "frequency"] if inp["time_first"] else ["frequency", "time"]
    extra = inp.get("extra_dim")          # position of a third dimension ("channel", 2 entries), or None
    if extra is not None:
        dims.insert(extra, "channel")
    size = {"time": len(t), "frequency": len(fr), "channel": 2}
    data = rs.uniform(-5, 5, size=tuple(size[d] for d in dims))
    if inp.get("contents", 0) == 0:
        data = np.zeros_like(data)
    return xr.DataArray(data, dims=tuple(dims), coords={"time": tv, "frequency": fv})


def _num(x):
    """a value / fill of the request: ints stay ints, rational strings become floats"""
    return x if isinstance(x, int) else float(frac(x))


def _canon(r, inp):
    import numpy as np
    dt = inp.get("dtype") or "float32"
    if str(r.dtype) != dt:
        return {"raise": f"crash:dtype-{r.dtype}"}
    v = np.asarray(r.values)
    if v.ndim != 2 or not np.all(np.isfinite(v)):
        return {"raise": "crash:not-a-finite-2d-raster"}
    return {"val": {"dims": list(r.dims), "time": [rat(float(c)) for c in r.coords["time"].values],
                    "freq": [rat(float(c)) for c in r.coords["frequency"].values],
                    "grid": [[rat(float(x)) for x in row] for row in v]}}


def _dtype_arg(inp):
    import numpy as np
    dt = inp.get("dtype") or "float32"
    how = inp.get("dtype_as", "str")
    return {"str": dt, "np": np.dtype(dt), "type": np.dtype(dt).type}[how]


def _values_arg(inp, vals):
    import numpy as np
    if isinstance(vals, list):
        vs = [_num(v) for v in vals]
        if inp.get("values_np"):
            vs = [np.float64(v) if isinstance(v, float) else np.int64(v) for v in vs]
        return tuple(vs) if inp.get("values_tuple") else vs
    v = _num(vals)
    if inp.get("values_np"):
        v = np.float64(v) if isinstance(v, float) else np.int64(v)
    return v


def _call(inp, geoms=None, all_touched=None, values=None):
    """the real call; keys that are absent / None in the request are left to the signature's defaults"""
    from soundevent.geometry import rasterize
    gs = [gen_geom.to_data(g) for g in (inp["geoms"] if geoms is None else geoms)]
    kw = {}
    vals = inp.get("values") if values is None else values
    if vals is not None:
        kw["values"] = _values_arg(inp, vals)
    if inp.get("fill") is not None:
        kw["fill"] = _num(inp["fill"])
    if inp.get("dtype") is not None:
        kw["dtype"] = _dtype_arg(inp)
    at = inp.get("all_touched") if all_touched is None else all_touched
    if at is not None:
        kw["all_touched"] = at
    return rasterize(gs, _template(inp), **kw)


@guarded
def _impl_rasterize(inp):
    return _canon(_call(inp), inp)


def _holds_valid_request(ctx, inp, out):
    """a request whose value list fits must yield a raster, whatever the template's dimension order"""
    vals = inp.get("values")
    if isinstance(vals, list) and len(vals) != len(inp["geoms"]):
        return None if is_err(out) and out["raise"] == "invalid" else "a value list of the wrong length was accepted"
    if is_err(out):
        return "rasterize raised on a valid request: %s" % out["raise"]
    return None


def _nontrivial(inp, out):
    fill = frac(inp["fill"]) if inp.get("fill") is not None else 0
    return (not is_err(out)) and any(frac(x) != fill for row in out["val"]["grid"] for x in row)


# ---- monitor for general geometries: the real code only
@guarded
def _impl_monitor(inp):
    full = {}
    singles = {}
    for at in (False, True):
        o = _canon(_call(inp, all_touched=at), inp)
        if is_err(o):
            return o
        full[at] = _igrid(o["val"]["grid"])
        singles[at] = []
        for g, v in zip(inp["geoms"], inp["values"]):
            o = _canon(_call(inp, geoms=[g], values=[v], all_touched=at), inp)
            if is_err(o):
                return o
            singles[at].append(_igrid(o["val"]["grid"]))
    return {"val": {"full": {"plain": full[False], "touched": full[True]},
                    "singles": {"plain": singles[False], "touched": singles[True]}}}


def _igrid(g):
    return [[int(frac(x)) if frac(x).denominator == 1 else x for x in row] for row in g]


def _overlay(singles, fill, nx, ny):
    g = [[fill] * ny for _ in range(nx)]
    for s in singles:
        for i in range(nx):
            for j in range(ny):
                if s[i][j] != fill:
                    g[i][j] = s[i][j]
    return g


def _holds_monitor(ctx, inp, out):
    if is_err(out):
        return "rasterize raised: %s" % out["raise"]
    v = out["val"]
    nx, ny, fill = len(inp["time"]), len(inp["freq"]), inp["fill"]
    for mode in ("plain", "touched"):
        g = v["full"][mode]
        if len(g) != nx or any(len(r) != ny for r in g):
            return f"raster is not {nx} x {ny}"
        if g != _overlay(v["singles"][mode], fill, nx, ny):
            return f"[{mode}] a later geometry does not overwrite an earlier one / an untouched cell is not the fill value"
    # all_touched only ever adds cells, geometry by geometry; line geometries last, so that the known
    # finding about GDAL's line burning never hides a violation on another geometry
    line_msg = None
    for k, g in enumerate(inp["geoms"]):
        plain, touched = v["singles"]["plain"][k], v["singles"]["touched"][k]
        lost = [(i, j) for i in range(nx) for j in range(ny) if plain[i][j] != fill and touched[i][j] == fill]
        if lost:
            msg = f"all_touched removed cell {lost[0]} of geometry {k} ({g['type']})"
            if g["type"] in LINE_TYPES:
                line_msg = line_msg or msg
            else:
                return msg
    # index-space rings of the polygonal geometries: the model's image (what rasterize hands to rasterio)
    img = ctx.model("index_image", {"time": inp["time"], "freq": inp["freq"], "time_first": inp["time_first"],
                                    "geoms": inp["geoms"], "all_touched": False})
    for k, sh in enumerate(img["shapes"]):
        if sh["type"] not in POLY_SHAPES:
            continue
        rr = _shape_rings(sh)
        # all_touched=True burns every cell through whose interior the boundary passes
        touched = v["singles"]["touched"][k]
        for ring in rr:
            for (px, py), (qx, qy) in zip(ring, ring[1:]):
                for m in range(16):
                    t = Fraction(2 * m + 1, 32)
                    x, y = px + t * (qx - px), py + t * (qy - py)
                    if x.denominator == 1 or y.denominator == 1:
                        continue
                    cx, cy = x.numerator // x.denominator, y.numerator // y.denominator
                    if 0 <= cx < nx and 0 <= cy < ny and touched[cx][cy] == fill:
                        return (f"geometry {k} ({inp['geoms'][k]['type']}): with all_touched the boundary passes through "
                                f"cell ({cx}, {cy}) which is not burnt")
        burnt = [[x != fill for x in row] for row in v["singles"]["plain"][k]]
        bad = ctx.model("centre_rule", {"nx": nx, "ny": ny, "rings": [[[str(x), str(y)] for x, y in r] for r in rr],
                                        "burnt": burnt})
        if bad:
            return (f"geometry {k} ({inp['geoms'][k]['type']}): cell {tuple(bad[0])} is "
                    f"{'burnt' if burnt[bad[0][0]][bad[0][1]] else 'not burnt'} but its centre is "
                    f"{'outside' if burnt[bad[0][0]][bad[0][1]] else 'inside'} the index-space polygon")
    return line_msg


# ---- the general model: every geometry type, rasterio as the rasteriser parameter
POLY_SHAPES = ("Polygon", "MultiPolygon")
LINE_SHAPES = ("LineString", "MultiLineString")
_ORACLE = {}


def _oracle(shape, all_touched, nx, ny):
    """rasterio's answer for one index-space shape of the model on an nx x ny raster: mask[i][j]"""
    import numpy as np
    from rasterio import features
    key = (jkey(shape), all_touched, nx, ny)
    if key not in _ORACLE:
        if len(_ORACLE) > 20000:
            _ORACLE.clear()
        r = features.rasterize([(shape, 1)], (ny, nx), fill=0, all_touched=all_touched, dtype="uint8")
        _ORACLE[key] = [[bool(x) for x in row] for row in np.asarray(r).T]
    return _ORACLE[key]


def _shape_rings(shape):
    if shape["type"] == "Polygon":
        return shape["coordinates"]
    return [r for poly in shape["coordinates"] for r in poly]


@guarded
def _impl_general(inp):
    out = _canon(_call(inp), inp)
    if inp.get("twice") and not is_err(out):
        again = _canon(_call(inp), inp)         # the result is a function of the request (no carried state)
        if again != out:
            return {"raise": "crash:second-call-differs"}
    return out


def _general_model(ctx, inp):
    """model side: the model's images -> rasterio's cells for them -> the model's raster"""
    nx, ny = len(inp["time"]), len(inp["freq"])
    img = ctx.model("index_image", {"time": inp["time"], "freq": inp["freq"], "time_first": inp["time_first"],
                                    "geoms": inp["geoms"], "all_touched": inp.get("all_touched")})
    at = img["all_touched"]
    masks = [_oracle(sh, at, nx, ny) for sh in img["shapes"]]
    req = {"time": inp["time"], "freq": inp["freq"], "time_first": inp["time_first"], "n": len(inp["geoms"]),
           "masks": masks, "values": inp.get("values"), "fill": inp.get("fill")}
    return img, masks, ctx.model("rasterize_masks", req)


def _holds_general(ctx, inp, out):
    msg = _holds_valid_request(ctx, inp, out)
    if msg:
        return msg
    nx, ny = len(inp["time"]), len(inp["freq"])
    img, masks, mo = _general_model(ctx, inp)
    # contracts of the rasteriser the theorems assume, on the shapes of this case
    for k, (g, sh) in enumerate(zip(inp["geoms"], img["shapes"])):
        if sh["type"] in LINE_SHAPES:
            continue
        plain, touched = _oracle(sh, False, nx, ny), _oracle(sh, True, nx, ny)
        ok = all(touched[i][j] or not plain[i][j] for i in range(nx) for j in range(ny))
        ctx.contract("rasterio-touched-superset", ok, {"shape": sh, "raster": [nx, ny]}, plain,
                     "rasterio's all_touched cells do not include its plain cells for a non-line shape")
        if sh["type"] in POLY_SHAPES:
            rings = [[[str(x), str(y)] for x, y in r] for r in _shape_rings(sh)]
            bad = ctx.model("centre_rule", {"nx": nx, "ny": ny, "rings": rings, "burnt": plain})
            ctx.contract("rasterio-centre-rule", not bad, {"shape": sh, "raster": [nx, ny]}, plain,
                         "rasterio does not burn exactly the cells whose centre lies inside the polygon")
    a = dict(out)
    a.pop("trace", None)
    if a == mo:
        return None
    if is_err(a) or is_err(mo):
        return "rasterize %s but the model %s" % ("raised " + a["raise"] if is_err(a) else "returned a raster",
                                                   "raises " + mo["raise"] if is_err(mo) else "returns a raster")
    av, mv = a["val"], mo["val"]
    for key, what in (("dims", "dimension order"), ("time", "time coordinates"), ("freq", "frequency coordinates")):
        if av[key] != mv[key]:
            return f"the {what} of the result are not the template's"
    for i in range(max(len(av["grid"]), len(mv["grid"]))):
        ra = av["grid"][i] if i < len(av["grid"]) else None
        rm = mv["grid"][i] if i < len(mv["grid"]) else None
        if ra != rm:
            if ra is None or rm is None or len(ra) != len(rm):
                return f"the raster is not {nx} x {ny}"
            j = next(j for j in range(len(ra)) if ra[j] != rm[j])
            owners = [k for k, m in enumerate(masks) if m[i][j]]
            return (f"cell ({i}, {j}) holds {ra[j]}; the geometries whose index-space image covers it are {owners}, "
                    f"so it must hold {rm[j]}")
    return "implementation and model disagree"


def _nontrivial_general(inp, out):
    return _nontrivial(inp, out)


def _match_line_all_touched(failure, m):
    """known finding: only the superset statement, only for a LineString / MultiLineString geometry"""
    import re
    mt = re.match(r"all_touched removed cell \(\d+, \d+\) of geometry (\d+) \((\w+)\)$", failure.detail or "")
    if not mt or failure.op != "raster_monitor":
        return False
    k = int(mt.group(1))
    geoms = (failure.inp or {}).get("geoms", [])
    return k < len(geoms) and geoms[k]["type"] == mt.group(2) and mt.group(2) in m.get("types", [])


FINDING_MATCHERS = {"line_all_touched_subset": _match_line_all_touched}


def _to_model(inp):
    return {k: inp[k] for k in ("time", "freq", "time_first", "geoms", "values", "fill", "all_touched")}


OPS = {
    "rasterize": Op("rasterize", _impl_rasterize, to_model=_to_model, nontrivial=_nontrivial, holds=_holds_valid_request),
    "rasterize_all": Op("rasterize_all", _impl_general, holds=_holds_general, model_op="noop", to_model=lambda inp: {},
                        compare=lambda inp, io, mo: None, nontrivial=_nontrivial_general),
    "raster_monitor": Op("raster_monitor", _impl_monitor, holds=_holds_monitor, model_op="noop",
                         to_model=lambda inp: {}, compare=lambda inp, io, mo: None, mode="tolerance"),
}


# ------------------------------------------------------------------ the library contracts
def _rasterio_contract(ctx):
    import numpy as np
    from rasterio import features
    from shapely import geometry
    nx, ny = 5, 4
    boxes = [(x0, y0, x1, y1) for x0, x1 in itertools.combinations_with_replacement(range(nx + 1), 2)
             for y0, y1 in itertools.combinations_with_replacement(range(ny + 1), 2)]
    expected = ctx.model_many("box_rule", [{"nx": nx, "ny": ny, "box": list(b)} for b in boxes])
    for b, exp in zip(boxes, expected):
        exp = [[int(frac(x)) for x in row] for row in exp]
        x0, y0, x1, y1 = b
        # the ring shapely's `box` makes, as the mapping the general model hands to the rasteriser
        ring = {"type": "Polygon", "coordinates": [[[x1, y0], [x1, y1], [x0, y1], [x0, y0], [x1, y0]]]}
        for at in (False, True):
            r = features.rasterize([(geometry.box(*b), 1)], (ny, nx), fill=0, all_touched=at, dtype="int32")
            got = [[int(x) for x in row] for row in np.asarray(r).T]
            got2 = [[int(x) for x in row] for row in _oracle(ring, at, nx, ny)]
            ctx.contract("rasterio-box-rule", got == exp and got2 == exp, {"box": list(b), "all_touched": at, "raster": [nx, ny]},
                         got, "rasterio does not burn an integer-cornered box into exactly the cells whose centre it contains")
    ctx.exhaustive["rasterio-box-rule"] = f"all {len(boxes)} integer-cornered boxes of a {nx} x {ny} raster, all_touched both ways"


def _point_contract(ctx):
    """PointRule of the general model: a point with integer coordinates burns exactly the cell of that index"""
    nx, ny = 4, 3
    n = 0
    for x in range(nx + 2):
        for y in range(ny + 2):
            exp = [[(i == x and j == y) for j in range(ny)] for i in range(nx)]
            for at in (False, True):
                got = _oracle({"type": "Point", "coordinates": [x, y]}, at, nx, ny)
                got2 = _oracle({"type": "MultiPoint", "coordinates": [[x, y]]}, at, nx, ny)
                n += 1
                ctx.contract("rasterio-point-rule", got == exp and got2 == exp,
                             {"point": [x, y], "all_touched": at, "raster": [nx, ny]}, got,
                             "rasterio does not burn an integer point into exactly the cell of that index")
    ctx.exhaustive["rasterio-point-rule"] = f"all {n // 2} integer points in and just outside a {nx} x {ny} raster, all_touched both ways"


# ------------------------------------------------------------------ ties 1 and 1b
def _tables(ctx):
    """Tie 1: the constants the model states are re-extracted from the imported modules"""
    import inspect
    import numpy as np
    from .. import symtrace as st
    from soundevent import data
    import soundevent.geometry as geo
    fn = getattr(geo, "rasterize", None)
    try:
        P = inspect.signature(fn).parameters
        d = {k: P[k].default for k in ("values", "fill", "dtype", "xdim", "ydim", "all_touched")}
        ok = (not isinstance(d["values"], (list, tuple, bool)) and isinstance(d["all_touched"], bool)
              and np.dtype(d["dtype"]) == np.dtype("float32"))
        src = (f"theorem extracted_rasterize_defaults : SE.Raster.defaultValue = {st.lit(d['values'])} ∧ "
               f"SE.Raster.defaultFill = {st.lit(d['fill'])} ∧ "
               f"SE.Raster.defaultAllTouched = {'true' if d['all_touched'] else 'false'} ∧ "
               f"SE.Raster.defaultXDim = {json.dumps(str(d['xdim']))} ∧ SE.Raster.defaultYDim = {json.dumps(str(d['ydim']))} := by\n"
               "  decide +kernel\n")
        if not ok:
            raise ValueError(f"defaults not of the modelled kind: {d!r}")
        ctx.obligation("rasterize_defaults", src, {"table": "rasterize signature defaults", "value": repr(d)[:200]})
    except Exception as e:  # noqa: BLE001 - the signature changed shape: the tie is not re-established
        ctx.pre_failed.append("rasterize_defaults")
        ctx.fail("obligation", "rasterize_defaults", detail=f"defaults of rasterize could not be extracted: {e!r}")
    m = getattr(data, "MAX_FREQUENCY", None)
    if isinstance(m, bool) or not isinstance(m, (int, float)) or m != m or m in (float("inf"), float("-inf")):
        ctx.pre_failed.append("MAX_FREQUENCY")
        ctx.fail("obligation", "MAX_FREQUENCY", detail="soundevent.data.MAX_FREQUENCY is missing or not a finite number")
    else:
        ctx.obligation("MAX_FREQUENCY", f"theorem extracted_max_frequency : {st.lit(m)} = SE.MAXF := by decide +kernel\n",
                       {"table": "MAX_FREQUENCY", "value": str(m)})


def _symbolic(ctx):
    """Tie 1b: get_coord_index executed on symbols (axis range, axis size, pandas' right slice bound)"""
    from ..symtrace import Sym, Untraceable
    from soundevent import arrays
    V = ["lo", "hi", "v", "n", "sb"]
    lo, hi, v, n, sb = (Sym.var(x) for x in V)

    class _Values:                      # `.values` / numpy view of the coordinates: only the extremes are known
        def min(self, *a, **k): return lo
        def max(self, *a, **k): return hi
        def __getitem__(self, k):
            if k == 0: return lo
            if k == -1: return hi
            raise Untraceable("coordinate values read one by one")
        def __len__(self): raise Untraceable("length of a symbolic axis")

    class _Index(_Values):              # pandas index of the dimension
        values = _Values()
        size = n
        def get_slice_bound(self, label, side, *a, **k):
            if side != "right" or label is not v: raise Untraceable("unexpected slice bound request")
            return sb
        def searchsorted(self, value, side="left", *a, **k):
            if side != "right" or value is not v: raise Untraceable("unexpected searchsorted request")
            return sb
        def to_numpy(self): return _Values()

    class _Map:                          # mapping dimension name -> thing, for any name
        def __init__(self, x): self.x = x
        def __getitem__(self, k): return self.x
        def get(self, k, d=None): return self.x
        def __contains__(self, k): return True

    class _Arr:                          # the template: any attribute beyond these makes the trace fail
        indexes = _Map(_Index())
        sizes = _Map(n)
        coords = _Map(_Index())
        dims = ("time",)
        def __getitem__(self, k): return _Index()
        def get_index(self, k): return _Index()

    fn = getattr(arrays, "get_coord_index", None)
    # the range of an axis is (min, max): `lo ≤ hi` is a hypothesis of the tie
    _sym_tie_hyp(ctx, "ext_get_coord_index_clamp", lambda: fn(_Arr(), "time", v, raise_error=False), V, "Rat",
                 "(hr : lo ≤ hi)", "some (SE.Raster.clampIndexR lo hi v n sb)",
                 "unfold ext_get_coord_index_clamp SE.Raster.clampIndexR\n  se_close")
    _sym_tie_hyp(ctx, "ext_get_coord_index_raise", lambda: fn(_Arr(), "time", v), V, "Rat",
                 "(hr : lo ≤ hi)", "SE.Raster.clampIndexRaise lo hi v sb",
                 "unfold ext_get_coord_index_raise SE.Raster.clampIndexRaise\n  se_close")


def _sym_tie_hyp(ctx, name, fn, variables, ret_type, hyps, model_term, tactic):
    """ctx.sym_tie with hypotheses on the variables: trace, emit `def name`, register
    `∀ vars, hyps → name vars = model_term`; a failing trace is a broken obligation, not a crash"""
    from .. import symtrace as st
    from ..leanio import InfraError
    meta = {"op": "rasterize"}
    try:
        src, _tree, n = st.extract(name, fn, variables, ret_type, catch=(KeyError,))
    except InfraError:
        raise
    except Exception as e:  # noqa: BLE001
        ctx.symbolic_ties[name] = {"error": repr(e)[:300]}
        ctx.pre_failed.append(name)
        ctx.fail("obligation", name, detail=f"symbolic trace of the current source failed: {e!r}", extra=meta)
        return
    ctx.symbolic_ties[name] = {"paths": n}
    args = " ".join(variables)
    ctx.obligation(name, f"{src}\ntheorem {name}_tie ({args} : Rat) {hyps} : {name} {args} = {model_term} := by\n  {tactic}\n", meta)


# ------------------------------------------------------------------ generators
def _axis(rng, n, kind, spacing):
    if kind == "time":
        a0 = rng.choice([Fraction(0), Fraction(1, 2), Fraction(3)])
        if spacing == "dyadic":
            st = rng.choice([Fraction(1, 4), Fraction(1, 2), Fraction(1)])
            return [float(a0 + i * st) for i in range(n)]
        st = rng.choice([0.1, 0.01, 1 / 3])
        return [float(a0) + i * st for i in range(n)]
    a0 = rng.choice([0, 100, 1000])
    if spacing == "dyadic":
        st = rng.choice([125, 250, 31.25])
        return [float(a0 + i * st) for i in range(n)]
    st = rng.choice([100.1, 1000 / 3, 43.066])
    return [a0 + i * st for i in range(n)]


def _positions(rng, ax):
    """box ends: on coordinates, between them, below and beyond the axis (times / frequencies stay >= 0)"""
    step = (ax[1] - ax[0]) if len(ax) > 1 else 1.0
    pts = list(ax) + [c + step / 2 for c in ax] + [c + step / 4 for c in ax]
    pts += [ax[-1] + step, ax[-1] + 2.5 * step, ax[0] - step / 2, ax[0] - 2 * step, 0.0]
    return sorted({p for p in pts if p >= 0})


def _box(rng, tpts, fpts):
    a, b = sorted(rng.sample(tpts, 2)) if len(tpts) > 1 and rng.random() < 0.9 else (tpts[0],) * 2
    c, d = sorted(rng.sample(fpts, 2)) if len(fpts) > 1 and rng.random() < 0.9 else (fpts[0],) * 2
    if rng.random() < 0.2:
        return {"type": "TimeInterval", "coordinates": [rat(a), rat(b)]}
    return {"type": "BoundingBox", "coordinates": [rat(a), rat(c), rat(b), rat(d)]}


def _irregular(rng, n, kind):
    """an increasing axis with unequal spacing (log-like frequency axes, resampled time axes)"""
    x = rng.choice([0.0, 0.5, 3.0]) if kind == "time" else rng.choice([0.0, 100.0, 1000.0])
    out = []
    for _ in range(n):
        out.append(x)
        x += rng.choice([0.25, 0.5, 0.75, 1.0, 0.1, 1 / 3]) * (1 if kind == "time" else rng.choice([100, 250, 1000 / 3]))
    return out


def _value_pool(dtype, fill):
    """values exactly representable in the dtype: integers, and quarters for the float dtypes"""
    ints = [v for v in range(0, 9) if v != fill]
    if dtype in ("float32", "float64"):
        return ints + [rat(Fraction(k, 4)) for k in (1, 2, 3, 5, 10, -3) if Fraction(k, 4) != fill] + [-2]
    return ints


def _values_variant(rng, vals, inp):
    """how the values travel: list / tuple / numpy scalars / one value / wrong length"""
    mode = rng.random()
    values = vals
    if mode < 0.2:
        values = vals[0] if vals else 1          # one value for all
    elif mode < 0.3:
        values = vals + [3] if rng.random() < 0.5 or not vals else vals[:-1]   # wrong length
    inp["values"] = values
    inp["values_tuple"] = rng.random() < 0.3
    inp["values_np"] = rng.random() < 0.2


def _raster_cases(ctx, per_shape):
    rng = ctx.rng
    for nt in range(1, 9):
        for nf in range(1, 9):
            for _ in range(per_shape):
                spacing = rng.choice(["dyadic", "decimal", "irregular"])
                if spacing == "irregular":
                    t, fr = _irregular(rng, nt, "time"), _irregular(rng, nf, "frequency")
                else:
                    t, fr = _axis(rng, nt, "time", spacing), _axis(rng, nf, "frequency", spacing)
                ctx.tally("axis:" + spacing)
                tp, fp = _positions(rng, t), _positions(rng, fr)
                for time_first in (False, True):
                    k = rng.choice([0, 1, 1, 2, 3, 4])
                    geoms = [_box(rng, tp, fp) for _ in range(k)]
                    fill = rng.choice([0, 0, -1, 7])
                    dtype = rng.choice(DTYPES)
                    if dtype == "uint8":
                        fill = abs(fill)
                    if dtype in ("float32", "float64") and rng.random() < 0.2:
                        fill = rat(rng.choice([Fraction(-1, 2), Fraction(1, 4), Fraction(5, 2)]))
                    pool = _value_pool(dtype, fill)
                    vals = [rng.choice(pool) for _ in range(k)]
                    inp = {"time": rats(t), "freq": rats(fr), "time_first": time_first, "geoms": geoms,
                           "fill": fill, "dtype": dtype, "dtype_as": rng.choice(["str", "str", "np", "type"]),
                           "all_touched": rng.random() < 0.5, "contents": rng.choice([0, 1, 2])}
                    _values_variant(rng, vals, inp)
                    yield inp


ALL_TYPES = ["Polygon", "Polygon", "MultiPolygon", "BoundingBox", "BoundingBox", "TimeInterval", "LineString", "Point",
             "Point", "TimeStamp", "MultiPoint", "MultiLineString"]


def _snap(rng, g, tp, fp):
    """move the vertices of a point / line geometry onto, next to and beyond the template's coordinates"""
    ty = g["type"]
    P = lambda: [rat(rng.choice(tp)), rat(rng.choice(fp))]
    if ty == "Point":
        return {"type": ty, "coordinates": P()}
    if ty == "TimeStamp":
        return {"type": ty, "coordinates": rat(rng.choice(tp))}
    if ty == "MultiPoint":
        return {"type": ty, "coordinates": [P() for _ in g["coordinates"]]}
    if ty == "LineString":
        pts = [P() for _ in g["coordinates"]]
        if frac(pts[0][0]) > frac(pts[-1][0]):        # the validated form is ordered by time (LineString validator)
            pts.reverse()
        return {"type": ty, "coordinates": pts}
    return g


def _unclose(g):
    cut = lambda ring: ring[:-1] if len(ring) >= 4 and ring[0] == ring[-1] else ring
    if g["type"] == "Polygon":
        return {"type": "Polygon", "coordinates": [cut(r) for r in g["coordinates"]]}
    return {"type": "MultiPolygon", "coordinates": [[cut(r) for r in poly] for poly in g["coordinates"]]}


def _general_cases(ctx, n):
    """requests over all nine geometry types; keys left out of the request are left to rasterize's defaults"""
    rng = ctx.rng
    prev = None
    for _ in range(n):
        nt, nf = rng.randint(1, 8), rng.randint(1, 8)
        spacing = rng.choice(["half", "decimal", "irregular"])
        if spacing == "half":
            t, fr = [i * 0.5 for i in range(nt)], [i * 1.0 for i in range(nf)]
        elif spacing == "decimal":
            t, fr = [0.25 + i * 0.1 for i in range(nt)], [0.5 + i * 0.3 for i in range(nf)]
        else:
            t = _irregular(rng, nt, "time")
            fr = [x / 250 for x in _irregular(rng, nf, "frequency")]
        ctx.tally("general-axis:" + spacing)
        k = rng.choice([0, 1, 1, 2, 2, 3, 4])
        if prev is not None and rng.random() < 0.15:
            geoms = prev                          # the same geometries on another template (no state is carried over)
            ctx.tally("general:geometries-reused")
        else:
            tp, fp = _positions(rng, t), _positions(rng, fr)
            geoms = []
            for _g in range(k):
                g = gen_geom.gen_valid(rng, rng.choice(ALL_TYPES), tmax=max(t[-1] + 1, 1.5), fmax=max(fr[-1] + 1, 1.5), k=3)
                if rng.random() < 0.4:
                    g = _snap(rng, g, tp, fp)
                elif g["type"] == "BoundingBox" and rng.random() < 0.5:
                    g = _box(rng, tp, fp)
                elif g["type"] in POLY_SHAPES and rng.random() < 0.3:
                    g = _unclose(g)               # rings given without the closing vertex (shapely closes them)
                    ctx.tally("general:unclosed-rings")
                geoms.append(g)
        prev = geoms
        for g in geoms:
            ctx.tally("general-geom:" + g["type"])
        dtype = rng.choice([None, None] + DTYPES)
        fill = rng.choice([None, None, 0, -1, 7, 1])
        if dtype == "uint8" and fill is not None:
            fill = abs(fill)
        if dtype in (None, "float32", "float64") and rng.random() < 0.15:
            fill = rat(rng.choice([Fraction(-1, 2), Fraction(1, 4), Fraction(5, 2)]))
        pool = _value_pool(dtype or "float32", 0 if fill is None else fill)
        vals = [rng.choice(pool) for _ in geoms]
        inp = {"time": rats(t), "freq": rats(fr), "time_first": rng.random() < 0.5, "geoms": geoms, "fill": fill,
               "dtype": dtype, "dtype_as": rng.choice(["str", "str", "np", "type"]),
               "all_touched": rng.choice([None, False, True, True]), "contents": rng.choice([0, 1, 2]),
               "extra_dim": rng.choice([None, None, None, 0, 1, 2]), "twice": rng.random() < 0.1}
        _values_variant(rng, vals, inp)
        if rng.random() < 0.2:
            inp["values"] = None                  # default: the value 1 for every geometry
        for key in ("values", "fill", "dtype", "all_touched"):
            if inp[key] is None:
                ctx.tally("general-default:" + key)
        yield inp


def _monitor_cases(ctx, n):
    rng = ctx.rng
    types = ["Polygon", "Polygon", "MultiPolygon", "BoundingBox", "TimeInterval", "LineString", "Point", "TimeStamp",
             "MultiPoint", "MultiLineString"]
    for _ in range(n):
        nt, nf = rng.randint(1, 8), rng.randint(1, 8)
        t = [i * 0.5 for i in range(nt)] if rng.random() < 0.5 else [0.25 + i * 0.1 for i in range(nt)]
        fr = [i * 1.0 for i in range(nf)] if rng.random() < 0.5 else [0.5 + i * 0.3 for i in range(nf)]
        k = rng.randint(1, 3)
        geoms = [gen_geom.gen_valid(rng, rng.choice(types), tmax=max(t[-1] + 1, 1.5), fmax=max(fr[-1] + 1, 1.5), k=3)
                 for _ in range(k)]
        yield {"time": rats(t), "freq": rats(fr), "time_first": rng.random() < 0.5, "geoms": geoms,
               "values": rng.sample(range(1, 9), k), "fill": rng.choice([0, -1]), "dtype": "float32", "all_touched": False}


def run(ctx):
    ctx.stage("corpus", ctx.run_corpus, OPS)
    ctx.stage("tables", _tables, ctx)
    ctx.stage("symbolic", _symbolic, ctx)
    ctx.stage("discharge", ctx.discharge, ["SoundeventModel.Raster", "SoundeventModel.Tactics", "Proofs.C20"])
    ctx.stage("rasterio-box-rule", _rasterio_contract, ctx)
    ctx.stage("rasterio-point-rule", _point_contract, ctx)
    ctx.stage("rasterize-exact", lambda: ctx.run_cases(OPS["rasterize"], _raster_cases(ctx, ctx.budget(6, 60))))
    ctx.exhaustive["rasterize"] = "every template shape 1-8 x 1-8, both dimension orders"
    ctx.stage("rasterize-all-types", lambda: ctx.run_cases(OPS["rasterize_all"], _general_cases(ctx, ctx.budget(900, 12000))))
    ctx.stage("polygon-monitor", lambda: ctx.run_cases(OPS["raster_monitor"], _monitor_cases(ctx, ctx.budget(150, 3000))))


def search(ctx, failures):
    ctx.run_cases(OPS["rasterize"], _raster_cases(ctx, 10))
    ctx.run_cases(OPS["rasterize_all"], _general_cases(ctx, 1500))
    ctx.run_cases(OPS["raster_monitor"], _monitor_cases(ctx, 300))
