"""C06 — Affinity is a symmetric intersection-over-union in [0, 1]."""
import itertools
from fractions import Fraction

from ..core import Op, jkey
from ..rat import rat, frac, round_once_eq, tol_eq
from ..symtrace import Sym
from .. import gen_geom
from .. import c06_route
from .. import history
from .. import c06_paths as P

PROPERTY = "C06"
LEAN_MODULE = "Proofs.C06"
_T = "SE.Proofs.C06."
THEOREMS = [_T + n for n in [
    "iou_range", "iou_symm", "iou_self", "iou_zero", "iouC_range", "iouC_eq_iou", "iouC_symm", "iouC_self",
    "iouC_zero", "timeIoU_eq_iou", "timeIoU_range", "timeIoU_symm", "timeIoU_self", "timeIoU_disjoint",
    "timeIoU_shift", "boxInter_le_min", "boxInter_symm", "boxInter_self", "boxInter_disjoint", "box_shift",
    "affinity_ok_iff", "C06_range", "affinityP_symm", "C06_symm", "C06_self_one", "C06_disjoint_zero", "C06_box_closed_form",
    "C06_time_only_is_time_iou", "C06_time_branch_composes", "C06_time_extents", "C06_negative_buffer", "C06_shift_invariant",
    "C06_model_holds", "C06_contracts_satisfiable", "C06_pinned_formula_exceeds_one",
    # review: the route (tied for all 81 type pairs), the rounding arithmetic, closed-form time-only pairs, shift
    "C06_route_composes", "C06_routeR_composes", "affinityR_id", "routeR_id", "timeIoUR_id", "iouCR_id",
    "timeIoUR_range", "timeIoUR_symm", "timeIoUR_self", "timeIoUR_disjoint",
    "iouCR_range", "iouCR_symm", "iouCR_self", "iouCR_zero",
    "C06_range_rounded", "C06_symm_rounded", "C06_self_one_rounded", "C06_disjoint_zero_rounded",
    "C06_roundings_exist", "C06_time_only_closed_form", "C06_shift_invariant_strong",
    "C06_boundsExact_satisfiable",
    # follow-up 2: the buffered time extent from the coordinates, the band of the time IoU, the pipeline corollary
    "timeIoU_band", "C06_extent_band", "C06_extent_band_exact", "C06_extent_exact", "C06_buffered_time_band",
    "C06_buffered_time_exact", "C06_pipeline_extent_within", "C06_pipeline_extent_ideal", "C06_pipeline_affinity_band",
    # follow-up 3: histories (calls in one process on shared / changed objects, caches) and the binding of arguments
    "C06_history", "C06_history_keyed_cache", "C06_history_full_key_cache", "C06_history_partial_key_cache_not_free",
    "C06_history_memo_dropped", "C06_history_memo_kept_not_free", "C06_bind_wellformed", "C06_pinned_sig_wellformed"]]
LEVEL_TEXT = ("Lean theorems over the model of compute_affinity (everything GEOS computes is a parameter): the IoU and "
              "time-IoU formulas (range, symmetry, self, zero, shift), rectangle closed forms, and for the dispatcher "
              "range under `Sane`, symmetry / self = 1 / time-disjoint = 0 under `Sound`, the box closed form under "
              "`BoxExact`, time-only = time IoU (in closed form from the coordinates, polygons included, under `BoundsExact`), "
              "shift invariance under `ShiftInv`; the contracts are proved satisfiable.  The same dispatcher operation by "
              "operation in any rounding arithmetic (`affinityR rnd`, laws `IsRounding`): range, symmetry, self = 1 and "
              "disjoint = 0 are proved there too, so they hold of the binary64 computation and not only of its rational "
              "idealisation.  The whole of compute_affinity is re-derived from the source by symbolic tracing on every run - "
              "all 81 ordered type pairs, for every rounding, every GEOS parameter, all coordinates and buffers - and proved "
              "equal to the model; so are both formulas and the closed-form buffers; the type tables are re-extracted; all 81 "
              "type pairs run differentially (bit for bit against the binary64 evaluation of the model off the grid); range / "
              "symmetry / self / disjoint / shift are judged on every real output.  The buffered time extent of a point / "
              "line type is pinned from its coordinates, not from the library's buffer: the time-only affinity lies in an "
              "explicit band around the IoU of the ideal extents [max(s - tb, 0), e + tb] whenever the reported extent is "
              "within [rho, kappa] buffers of the raw bounds, the band is that IoU itself for rho = kappa = 1, and the "
              "model of buffer_shapely_geometry (C11) under its GEOS contracts meets the extent condition; the band is "
              "evaluated on every time-branch pair with a buffered side.  Calls and histories: Python's binding of positional / "
              "keyword / omitted arguments is modelled on a signature table (`bindCall`), proved to make the same call in every "
              "style for every well-formed signature (C06_bind_wellformed), and the signature of the imported function is "
              "re-extracted and shown well formed on every run; sequences of calls in one process on reused and changed "
              "geometry objects are judged step by step by the pure model, which is exactly history freedom (C06_history); a "
              "cache keyed by the whole call is proved invisible (C06_history_full_key_cache), one that forgets the buffers and "
              "a shape memoised on an object across model_copy / assignment are proved visible.")
LEVEL_NOTE = ("Unmodelled: GEOS overlay, buffer and area in binary64 (parameters of the model; `Sane` and `BoundsExact` checked "
              "exactly and `Sound` up to 2^-40 on every measured value).  GEOS's buffer is polygonal: the band of the time-only "
              "affinity uses rho = 1 for points (circle vertices on the axes) and rho = 0.9951 for line ends (round caps, "
              "known finding C11-round-caps), kappa = 1 except kappa = 5.2 (mitre limit) for lines not monotone in time; "
              "the hypotheses `CoversDisc rho` / `ReachAtMost kappa` of the pipeline theorem are monitored at the level of "
              "bounds and area of every buffered shape (both branches), not proved of GEOS.  In the area branch the value "
              "for a buffered point / line type is not pinned in closed form: there the buffered shape (bounds, area) and "
              "the converted polygons (`AreaExact`: shoelace area) are checked as contracts.  That binary64 round-to-nearest obeys `IsRounding` "
              "(monotone, exact on 0 and 1, idempotent, exact doubling) is assumed, not proved; the driver's executable "
              "`rnd64` is compared with Python's correctly rounded float(Fraction) on every run.  "
              "Histories: the model is pure (one answer per step from the content the objects carry then); C06_history says that "
              "agreement on every history is the same as no reachable state changing an answer, C06_history_keyed_cache that a "
              "cache keyed by anything that determines the affinity is invisible, and two concrete witnesses (a cache that "
              "forgets the buffers, a shape memoised on the object that survives model_copy / assignment) are proved not to be; "
              "the histories run are finitely many sequences of 3-5 calls.  Call styles: Python's argument binding is modelled "
              "(`bindCall`) on the signature table re-extracted by introspection; a buffer passed as float32 is only exercised "
              "where float32 arithmetic is exact.  "
              "Known findings: argument-order dependence and self-affinity just below 1, both <= 2^-40, in the area branch "
              "(they come from GEOS, i.e. from `Sound` failing in the last bits, not from the arithmetic of compute_affinity). "
              "Model tied to the code by regenerated obligations and generator-bounded correspondence.")
TECHNIQUE = ("Lean 4 proof over model with GEOS as a parameter under explicit contracts, in exact and in rounding arithmetic; "
             "symbolic-trace equality (whole function, all 81 type pairs, rounding-aware) and table obligations regenerated "
             "from source; differential correspondence over all 81 type pairs, bit-exact against a binary64 evaluation of "
             "the model; property monitor on real outputs, also along histories of calls on reused objects and over call styles / "
             "construction paths resolved by the modelled argument binding")
RULE = ("buffer scale (deterministic): time / frequency buffers 5e-7, 1e-6, 2e-6, 1e-7, 2^-20, 2^-28, 2e-9, 1e-3 (either axis alone, "
        "both) and 1e3 / 1e4 / 1e5 s x Point, MultiPoint, LineStrings, MultiLineString, TimeStamp, the partner (interval, time "
        "stamp) inside / straddling / outside / around the buffered extent within a few buffer widths (time-branch band monitor) "
        "and a box, a point, the geometry itself at 64 buffers (area branch, contracts on the buffered shape); buffers at or above "
        "2e-9 only and coordinate / buffer below 1e9 (known findings C11-zero-vs-tiny-buffer, C11-huge-buffer-ratio excluded); a "
        "TimeStamp whose buffered ends are not binary64 numbers is compared bit for bit (affinity_bits).  "
        "histories (affinity_history): 120 / 600 sequences of 3-5 calls in one process - a pair, neighbours of it (other buffers, "
        "the declared defaults passed and omitted, one or both geometries moved in time, the pair swapped, a geometry against "
        "itself), the pair again; half of the neighbour steps reuse the live geometry objects of the step before: coordinates "
        "re-assigned, model_copy(update=...) shallow / deep, copy.copy / deepcopy + assignment, the same objects with other "
        "buffers or in the other order, optionally after compute_bounds / geometry_to_shapely / buffer_geometry were called on "
        "them; every step judged like a plain pair (theorem C06_history), arguments snapshot before / after every call.  "
        "calls (affinity_call): every ordered type pair x 9 call styles (positional, mixed, all keywords in another order, each "
        "buffer omitted) x 18 ways of building the geometry objects (constructor with lists / tuples / ints / numpy scalars / "
        "numpy arrays, model_validate, JSON, attributes, dump-and-validate, copy / deepcopy / model_copy / pickle, a subclass) x "
        "buffers as float / int / numpy float64 / float32 / int64 / bool, resolved by the model's argument binding on the "
        "signature extracted by introspection (C06_bind_wellformed).  near-identical pairs (every vertex, or some, moved by one "
        "ulp / 1e-12 relative / a unit round trip x*1000/1000, x/1000*1000, x/3*3) of all nine types incl. buffered lines / points: "
        "full monitor on 4 / 24 rounds, the range clause alone (affinity_range) on 35 / 300 rounds.  touching / overlapping / "
        "missing extents by one ulp ... 2^-20 at magnitudes 1 ... 2^20 s and up to MAX_FREQUENCY, the clamp of a buffered time "
        "stamp at 0, extents of one ulp; geometries with 17 / 257 / 1025 vertices or parts; the product time buffer x frequency "
        "buffer x ordered type pair on fixed samples (a line with a bend at its latest time, holes, singleton multi-geometries).  "
        "all 81 ordered type pairs x buffers on dyadic grids (time buffers from 1/8 s to 4 s) and with arbitrary binary64 "
        "coordinates, self pairs (aliased and "
        "not), touching / nested / zero-extent / tiny-overlap / full-band placements, exhaustive small interval / box grids, "
        "shifted pairs (time buffers up to 4 s, events up to 1000 s, offsets up to 1000 s); non-trivial = the implementation returned a number and at least one of the two orders is positive or "
        "the pair is disjoint in time; distinct = distinct (operation, input)")
TRUSTED = ["inspect.signature of the imported compute_affinity (names, order, kinds, defaults) is the signature Python binds calls with",
           "shapely/GEOS area, intersection, buffer, bounds (measured per case; contracts Sane and BoundsExact exactly, Sound up to 2^-40; "
           "the buffered shapes' time / frequency extents and areas against the raw coordinates within [rho, kappa] buffers; "
           "AreaExact: area of converted polygons = shoelace area within 2^-40)",
           "GEOS's buffer of a scaled point / line geometry covers the disc of radius rho around every vertex and stays within "
           "kappa of the input (rho = 1 points, 0.9951 lines; kappa = 1, or 5.2 where a line is not monotone along the axis): "
           "hypotheses of C06_pipeline_extent_within, monitored on bounds and area, not proved",
           "the rational enclosure 3.1415 < pi < 3.1416 used by the area contract of buffered shapes",
           "symbolic tracer stubs: geometries with .type/.coordinates and the Lean term they stand for, shapely stand-ins whose "
           "area / intersection area / bounds are atoms `G.area x`, `G.inter x y`, `G.st x`, `G.en x` of the model's parameter "
           "(bounds of a TimeStamp / TimeInterval / BoundingBox: the coordinates, contract BoundsExact), data.TimeInterval "
           "replaced by a record, buffer_shapely_geometry by a marker recording its arguments",
           "binary64 arithmetic of CPython is IEEE-754 round-to-nearest-even (the driver's rnd64 is compared with it on every run)"]
ASSUMPTIONS = ["geometries are valid and polygonal ones non-self-intersecting (generators retry until shapely says valid)",
               "buffers are non-negative, and strictly positive when a 0/1-dimensional geometry is involved",
               "binary64 arithmetic is exact on the dyadic grids used for the round-once comparisons",
               "binary64 round-to-nearest-even obeys `IsRounding` on the magnitudes that occur (no overflow)",
               "GEOS satisfies `Sound` exactly only in exact arithmetic; in binary64 it does up to a relative 2^-40 (monitored)"]
NOT_COMPARED = ["the values of the two default buffers (the property quantifies over all buffers; the documented order of the four parameters "
                "and 'an omitted buffer is the declared default' are what the signature obligation and affinity_call pin)",
                "the last bit of the result when a buffer is passed as numpy float32 (only powers of two on the small grid are "
                "passed that way, where float32 arithmetic is exact)",
                "negative buffers (outside the property's quantifier; modelled and tied symbolically, not run differentially)",
                "the extent band / buffered-shape contracts are not evaluated in the regimes of the C11 known findings: a zero time "
                "or frequency buffer (C11-zero-buffer-factor; outside the quantifier for point / line types), a line with an exact "
                "reversal (C11-line-reversal; not simple), a buffer >= 1e4 times the extent of a line part on that axis "
                "(C11-huge-buffer-ratio), scaled coordinates >= 1e9; the tallies `time band: not evaluated: ...` count them",
                "lines that are not monotone in time: the upper side of the buffered extent is only bounded by the mitre limit "
                "(kappa = 5.2 buffers), so the band of the time-only affinity is wide there",
                "the area-branch value for a buffered point / line type against a polygonal shape has no closed form: only the "
                "buffered shape's bounds and area, `Sane` / `Sound`, and the independent clauses (range, symmetry, self, outer "
                "extents disjoint in time -> 0, shift) are judged",
                "shift invariance of pairs that go through GEOS is compared with a tolerance of 2^-37 relative to the magnitude of "
                "the time coordinates GEOS computes with (its overlay noise at sharp mitre joins grows with the coordinates)",
                "GEOS pairs on the grid are compared with tolerance 2^-40; off the grid bit for bit given the measured GEOS values",
                "error messages"]

TOL = Fraction(1, 2 ** 40)
ULP_BOUND = Fraction(1, 2 ** 40)
LOW_DIM = ("TimeStamp", "Point", "LineString", "MultiPoint", "MultiLineString")
_CTX = None
_CACHE = {}
_OWN_DRIVER = None


def _model(op, args):
    """the model through the running check, or (in --replay mode, where run() is not called) an own driver"""
    global _OWN_DRIVER
    if _CTX is not None:
        return _CTX.model(op, args)
    if _OWN_DRIVER is None:
        from .. import leanio
        _OWN_DRIVER = leanio.Driver()
    return _OWN_DRIVER.call(PROPERTY, op, args)


def _f(s):
    return float(frac(s))


# ---------------------------------------------------------------- follow-up 2: the buffered extent from the coordinates
GEOS_BUFFERED = ("Point", "LineString", "MultiPoint", "MultiLineString")
# contracts of the pipeline theorems (C06_pipeline_extent_within), per type.  A point's circle has vertices on the
# axes: exact up to rounding.  A line ends in round caps (32-gons inscribed in the unit circle, not aligned with the
# axes after the anisotropic scaling): each end reaches at least cos(pi/32) = 0.99518... buffers (known finding
# C11-round-caps), less a margin for GEOS's offset-curve noise.  Upwards: one buffer, except at a mitre join of a line
# that is not monotone along that axis, which reaches up to the mitre limit (5; the corner of a limited mitre 5.1)
RHO_POINT = Fraction(1)
RHO_LINE = Fraction(9951, 10000)
KAPPA_ONE = Fraction(1)
KAPPA_MITRE = Fraction(26, 5)
REGULAR_RATIO = Fraction(10 ** 4)       # C11's regular regime: buffer / extent below 1e4 (C11-huge-buffer-ratio: >= 1e5)
REGULAR_MAGNITUDE = Fraction(10 ** 9)   # ... and scaled coordinates below 1e9


def _parts(gj):
    """the vertex lists of a point / line type"""
    ty, c = gj["type"], gj["coordinates"]
    if ty == "Point":
        return [[c]]
    if ty in ("LineString", "MultiPoint"):
        return [c] if ty == "LineString" else [[p] for p in c]
    if ty == "MultiLineString":
        return list(c)
    return []


def _monotone(gj, axis):
    """every part is weakly monotone along the axis (0 = time, 1 = frequency): no mitre join sticks out there"""
    for part in _parts(gj):
        xs = [frac(p[axis]) for p in part]
        up = all(a <= b for a, b in zip(xs, xs[1:]))
        down = all(a >= b for a, b in zip(xs, xs[1:]))
        if not (up or down):
            return False
    return True


def _has_reversal(gj):
    """a vertex at which a line turns back on itself exactly (known finding C11-line-reversal)"""
    for part in _parts(gj):
        pts = [(frac(p[0]), frac(p[1])) for p in part]
        pts = [q for i, q in enumerate(pts) if i == 0 or q != pts[i - 1]]
        for a, b, c in zip(pts, pts[1:], pts[2:]):
            u, v = (b[0] - a[0], b[1] - a[1]), (c[0] - b[0], c[1] - b[1])
            if u[0] * v[1] - u[1] * v[0] == 0 and u[0] * v[0] + u[1] * v[1] < 0:
                return True
    return False


def _buffer_regime(gj, tb, fb):
    """(rho, kappa_time, kappa_freq) for the buffer of a point / line geometry, or the name of the class of the
    C11 known findings it falls in (then the extent contract is not evaluated; see NOT_COMPARED)"""
    tb, fb = frac(tb), frac(fb)
    if gj["type"] not in GEOS_BUFFERED:
        return "not-geos-buffered"
    if tb <= 0 or fb <= 0:
        return "zero-buffer (C11-zero-buffer-factor; outside the quantifier)"
    line = gj["type"] in ("LineString", "MultiLineString")
    for part in _parts(gj):
        for p in part:
            if frac(p[0]) / tb >= REGULAR_MAGNITUDE or frac(p[1]) / fb >= REGULAR_MAGNITUDE:
                return "scaled coordinates >= 1e9"
        if line:
            for axis, buf in ((0, tb), (1, fb)):
                xs = [frac(p[axis]) for p in part]
                ext = max(xs) - min(xs)
                if ext > 0 and buf / ext >= REGULAR_RATIO:
                    return "buffer >= 1e4 x extent of a line part (C11-huge-buffer-ratio)"
    if not line:
        return RHO_POINT, KAPPA_ONE, KAPPA_ONE
    if _has_reversal(gj):
        return "line with an exact reversal (C11-line-reversal)"
    return (RHO_LINE, KAPPA_ONE if _monotone(gj, 0) else KAPPA_MITRE, KAPPA_ONE if _monotone(gj, 1) else KAPPA_MITRE)


def _raw_time_bounds(gj):
    """smallest and largest time among the coordinates (no library code involved)"""
    ty, c = gj["type"], gj["coordinates"]
    if ty == "TimeStamp":
        return frac(c), frac(c)
    if ty == "TimeInterval":
        return frac(c[0]), frac(c[1])
    if ty == "BoundingBox":
        return frac(c[0]), frac(c[2])

    def times(x, depth):
        if depth == 0:
            yield frac(x[0])
        else:
            for y in x:
                yield from times(y, depth - 1)
    depth = {"Point": 0, "LineString": 1, "MultiPoint": 1, "Polygon": 2, "MultiLineString": 2, "MultiPolygon": 3}[ty]
    ts = list(times(c, depth))
    return min(ts), max(ts)


def _outer_extent(gj, tb):
    """a time extent that contains the prepared (buffered) geometry, from the coordinates: the hypothesis "does not
    reach time 0" and "disjoint in time" are judged on it.  None: a regime in which nothing is claimed."""
    s, e = _raw_time_bounds(gj)
    tbq = frac(tb)
    if gj["type"] == "TimeStamp":
        return max(s - tbq, Fraction(0)), e + tbq, s - tbq
    if gj["type"] not in GEOS_BUFFERED:
        return s, e, s
    kappa = KAPPA_ONE if _monotone(gj, 0) else KAPPA_MITRE
    pad = kappa * tbq * (1 + TOL) + TOL
    return max(s - pad, Fraction(0)), e + pad, s - pad


def _time_band(ctx, g, h, tb, fb, vals):
    """the band monitor for one buffered side `g` against a time-only side `h`: None / message"""
    regime = _buffer_regime(g, tb, fb)
    if isinstance(regime, str):
        ctx.tally("time band: not evaluated: " + regime)
        return None
    rho, kt, _ = regime
    v = _model("time_band", {"g": g, "h": h, "tb": tb, "fb": fb, "rho": rat(rho), "kappa": rat(kt), "tol": rat(TOL),
                             "atol": rat(TOL), "vals": list(vals)})
    if "raise" in v:
        return None
    ctx.tally("time band: evaluated (" + g["type"] + (", kappa 1)" if kt == 1 else ", mitre)"))
    if v["ok"]:
        return None
    lo, hi = (float(frac(x)) for x in v["band"])
    return (f"time-only: compute_affinity = {[float(frac(x)) for x in vals]!r} is not the IoU of the buffered time extents: "
            f"{float(frac(v['ideal']))!r} for the ideal extent [max(s - tb, 0), e + tb] of the {g['type']}; admissible "
            f"band for GEOS's polygonal buffer [{lo!r}, {hi!r}]")


def _buffer_contracts(ctx, inp, info):
    """the measured shape of every GEOS-buffered side against the pipeline contract (bounds and area from the
    coordinates), in both branches"""
    for gj, kd, ob in zip((inp["g1"], inp["g2"]), info["plan_kinds"], info["args"].get("obs") or (None, None)):
        if kd != "buffered" or ob is None or "lo" not in ob:
            continue
        regime = _buffer_regime(gj, inp["tb"], inp["fb"])
        if isinstance(regime, str):
            ctx.tally("buffer contract: not evaluated: " + regime)
            continue
        rho, kt, kf = regime
        v = _model("buffer_contract", {"g": gj, "tb": inp["tb"], "fb": inp["fb"], "rho": rat(rho), "rho_area": rat(RHO_LINE),
                                       "kappa_t": rat(kt), "kappa_f": rat(kf), "tol": rat(TOL), **{k: ob[k] for k in ("st", "en", "lo", "hi", "area")}})
        if "raise" in v:
            continue
        seen = {"g": gj, "tb": inp["tb"], "fb": inp["fb"], "obs": ob, "raw": v.get("raw")}
        ctx.contract("buffered shape: time extent within [rho, kappa] buffers of the raw bounds", v["time"], inp, seen)
        ctx.contract("buffered shape: frequency extent within [rho, kappa] buffers of the raw bounds", v["freq"], inp, seen)
        ctx.contract("buffered shape: area between the rho-ellipse of a vertex and the outer rectangle / ellipse", v["area"], inp, seen)


# ---------------------------------------------------------------- implementation side
def _impl_pair(inp):
    from soundevent.evaluation import compute_affinity
    g1, g2 = gen_geom.to_data(inp["g1"]), gen_geom.to_data(inp["g2"])
    tb, fb = _f(inp["tb"]), _f(inp["fb"])
    if inp["g1"] == inp["g2"]:
        # a self pair: once with one and the same object on both sides (aliasing), once with two equal objects
        a12 = compute_affinity(g1, g1, time_buffer=tb, freq_buffer=fb)
    else:
        a12 = compute_affinity(g1, g2, time_buffer=tb, freq_buffer=fb)
    a21 = compute_affinity(g2, g1, time_buffer=tb, freq_buffer=fb)
    # the arguments must come back unchanged (compute_affinity has no business mutating them)
    out = {"val": [rat(float(a12)), rat(float(a21))]}
    for g, gj in ((g1, inp["g1"]), (g2, inp["g2"])):
        if gen_geom.from_data(g) != gen_geom.from_data(gen_geom.to_data(gj)):
            out["mutated"] = gen_geom.from_data(g)
    if len(_IMPL_SEEN) < 20000:
        _IMPL_SEEN[jkey(inp)] = out
    return out


_IMPL_SEEN = {}


def _impl_bits(inp):
    """the outputs `_impl_pair` already observed for this input (no second evaluation), else a fresh one"""
    k = jkey(inp)
    if k not in _IMPL_SEEN:
        return _impl_pair(inp)
    return _IMPL_SEEN[k]


def _to_model64(inp):
    """every shape measured (boxes of the area branch too): what `affinityR rnd64` needs"""
    return _measure({**inp, "mode": "free"})["args"]


def _compare_bits(inp, io, mo):
    if "raise" in io or "raise" in mo:
        a = {k: v for k, v in io.items() if k != "trace"}
        return None if a == mo else "implementation and model disagree (exception)"
    if "measure_error" in _measure({**inp, "mode": "free"}):
        return None
    for k in (0, 1):
        if frac(mo["val"][k]) != frac(io["val"][k]):
            return (f"compute_affinity {'(g1, g2)' if k == 0 else '(g2, g1)'} = {float(frac(io['val'][k]))!r} is not the binary64 "
                    f"evaluation of the model's operations on the same GEOS values ({float(frac(mo['val'][k]))!r}): the order "
                    "of floating-point operations changed")
    return None


def _shift_geom(gj, d):
    d = Fraction(d)

    def sh(c, depth):
        if depth == 0:      # a point [t, f]
            return [rat(frac(c[0]) + d), c[1]]
        return [sh(x, depth - 1) for x in c]
    ty, c = gj["type"], gj["coordinates"]
    if ty == "TimeStamp":
        c2 = rat(frac(c) + d)
    elif ty == "TimeInterval":
        c2 = [rat(frac(c[0]) + d), rat(frac(c[1]) + d)]
    elif ty == "BoundingBox":
        c2 = [rat(frac(c[0]) + d), c[1], rat(frac(c[2]) + d), c[3]]
    else:
        depth = {"Point": 0, "LineString": 1, "MultiPoint": 1, "Polygon": 2, "MultiLineString": 2, "MultiPolygon": 3}[ty]
        c2 = sh(c, depth)
    return {"type": ty, "coordinates": c2}


def _impl_shift(inp):
    from soundevent.evaluation import compute_affinity
    tb, fb = _f(inp["tb"]), _f(inp["fb"])
    a = compute_affinity(gen_geom.to_data(inp["g1"]), gen_geom.to_data(inp["g2"]), time_buffer=tb, freq_buffer=fb)
    b = compute_affinity(gen_geom.to_data(_shift_geom(inp["g1"], inp["d"])),
                         gen_geom.to_data(_shift_geom(inp["g2"], inp["d"])), time_buffer=tb, freq_buffer=fb)
    return {"val": [rat(float(a)), rat(float(b))]}


# ---------------------------------------------------------------- what shapely measures for the model
def _measure(inp):
    """plan from the model (`prepare`), then shapely's values for the sides that need them (cached)"""
    k = jkey(inp)
    if k in _CACHE:
        return _CACHE[k]
    if len(_CACHE) > 8192:
        _CACHE.clear()
    from soundevent.geometry import buffer_geometry, geometry_to_shapely
    base = {"g1": inp["g1"], "g2": inp["g2"], "tb": inp["tb"], "fb": inp["fb"]}
    plan = _model("plan", base)
    s = [plan["s1"], plan["s2"]]
    info = {"plan": s, "args": dict(base), "closed": False, "branch": None, "shapes": [None, None],
            "plan_kinds": [None, None]}
    if "raise" in s[0] or "raise" in s[1]:
        info["branch"] = "error"
        _CACHE[k] = info
        return info
    time_branch = s[0]["time"] or s[1]["time"]
    info["branch"] = "time" if time_branch else "area"
    grid = inp.get("mode", "grid") == "grid"
    kinds = [s[0]["kind"], s[1]["kind"]]
    info["plan_kinds"] = kinds
    if time_branch:
        need = [kd in ("plain", "buffered") for kd in kinds]
        boxes_measured = False
        # a (multi)polygon side has exact bounds (min / max of coordinates: contract BoundsExact, checked
        # exactly below), so only a GEOS-buffered side takes a pair out of the closed forms
        info["closed"] = grid and "buffered" not in kinds
    else:
        both_boxes = kinds == ["box", "box"]
        boxes_measured = not (both_boxes and grid)
        need = [kd in ("plain", "buffered") or (kd == "box" and boxes_measured) for kd in kinds]
        info["closed"] = both_boxes and grid
    tb, fb = _f(inp["tb"]), _f(inp["fb"])
    shapes = []
    try:
        for gj, kd, nd in zip((inp["g1"], inp["g2"]), kinds, need):
            if not nd:
                shapes.append(None)
                continue
            g = gen_geom.to_data(gj)
            if kd == "buffered":
                g = buffer_geometry(g, time_buffer=tb, freq_buffer=fb)
            shapes.append(geometry_to_shapely(g))
        inter = None
        if not time_branch and all(x is not None for x in shapes):
            inter = [[rat(float(shapes[i].intersection(shapes[j]).area)) for j in (0, 1)] for i in (0, 1)]
    except Exception as e:  # noqa: BLE001 - shapely could not even build / overlay the prepared geometry
        info.update({"measure_error": repr(e)[:200], "closed": False, "measured_pair": False, "extent_pos": False,
                     "disjoint": False, "extent": [(Fraction(1), Fraction(1)), (Fraction(1), Fraction(1))]})
        info["args"]["obs"] = [None, None]
        _CACHE[k] = info
        return info
    info["shapes"] = shapes
    obs = []
    for shp in shapes:
        if shp is None:
            obs.append(None)
        else:
            b = shp.bounds
            obs.append({"area": rat(float(shp.area)), "st": rat(float(b[0])), "en": rat(float(b[2])),
                        "lo": rat(float(b[1])), "hi": rat(float(b[3]))})
    args = info["args"]
    args["obs"] = obs
    args["boxes_measured"] = boxes_measured
    # contract BoundsExact on the sides shapely measured without buffering: bounds = min / max of the coordinates
    bx = []
    for gj, kd, ob in zip((inp["g1"], inp["g2"]), kinds, obs):
        if ob is not None and kd in ("plain", "box"):
            mb = _model("bounds", {"g": gj})
            bx.append((gj, ob, "val" in mb and frac(mb["val"][0]) == frac(ob["st"]) and frac(mb["val"][2]) == frac(ob["en"])))
    info["bounds_exact"] = bx
    # contract AreaExact on the same sides: shapely's area of the converted (multi)polygon / box = shoelace area of the
    # coordinates (geometry_to_shapely is code under test too; within 2^-40)
    ax = []
    for gj, kd, ob in zip((inp["g1"], inp["g2"]), kinds, obs):
        if ob is not None and kd in ("plain", "box") and gj["type"] in ("Polygon", "MultiPolygon", "BoundingBox"):
            ma = _model("area", {"g": gj})
            ax.append((gj, ob, "val" in ma and tol_eq(frac(ma["val"]), float(frac(ob["area"])))))
    info["area_exact"] = ax
    if inter is not None:
        args["inter"] = inter
        info["measured_pair"] = True
    else:
        info["measured_pair"] = False
    # time extents of the prepared geometries (closed form from the coordinates, or measured bounds)
    ext = []
    for gj, kd, ob in zip((inp["g1"], inp["g2"]), kinds, obs):
        if ob is not None:
            ext.append((frac(ob["st"]), frac(ob["en"])))
        elif kd == "box":
            c = gj["coordinates"]
            ext.append((frac(c[0]), frac(c[2])))
        else:   # interval: TimeInterval as is, or a buffered TimeStamp
            c = gj["coordinates"]
            if gj["type"] == "TimeStamp":
                t, tbq = frac(c), frac(inp["tb"])
                ext.append((max(t - tbq, Fraction(0)), t + tbq))
            else:
                ext.append((frac(c[0]), frac(c[1])))
    info["extent"] = ext
    # non-zero extent of side 0 (duration in the time branch, area otherwise)
    if time_branch:
        info["extent_pos"] = ext[0][1] - ext[0][0] > 0
    elif obs[0] is not None:
        info["extent_pos"] = frac(obs[0]["area"]) > 0
    else:
        c = [frac(x) for x in inp["g1"]["coordinates"]]
        info["extent_pos"] = (c[2] - c[0]) * (c[3] - c[1]) > 0
    info["disjoint"] = ext[0][1] <= ext[1][0] or ext[1][1] <= ext[0][0]
    # ... and independently of the library's buffer: a buffered point / line type has a positive extent, and two
    # geometries whose outer extents (raw time bounds widened by kappa buffers) do not meet are disjoint in time
    out = [_outer_extent(gj, inp["tb"]) if kd in ("buffered", "interval") and gj["type"] in LOW_DIM else None
           for gj, kd in zip((inp["g1"], inp["g2"]), kinds)]
    out = [o[:2] if o is not None else e for o, e in zip(out, ext)]
    if out[0][1] <= out[1][0] or out[1][1] <= out[0][0]:
        info["disjoint"] = True
    if kinds[0] == "buffered" and not isinstance(_buffer_regime(inp["g1"], inp["tb"], inp["fb"]), str):
        info["extent_pos"] = True
    _CACHE[k] = info
    return info


def _to_model(inp):
    return _measure(inp)["args"]


# ---------------------------------------------------------------- compare
def _num_eq(inp, q, x):
    info = _measure(inp)
    q, x = frac(q), frac(x)
    if info["closed"]:
        return round_once_eq(q, float(x))
    return tol_eq(q, float(x))


def _compare_pair(inp, io, mo):
    if "raise" in io or "raise" in mo:
        a = {k: v for k, v in io.items() if k != "trace"}
        return None if a == mo else "implementation and model disagree (exception)"
    for k in (0, 1):
        if not _num_eq(inp, mo["val"][k], io["val"][k]):
            how = "round-once" if _measure(inp)["closed"] else "tolerance 2^-40"
            return f"compute_affinity {'(g1, g2)' if k == 0 else '(g2, g1)'} = {float(frac(io['val'][k]))!r}, model {float(frac(mo['val'][k]))!r} ({how})"
    return None


def _compare_shift(inp, io, mo):
    if "raise" in io or "raise" in mo:
        a = {k: v for k, v in io.items() if k != "trace"}
        return None if a == mo else "implementation and model disagree (exception)"
    # the model's value for the unshifted pair is, by C06_shift_invariant, its value for the shifted pair
    for k, what in ((0, "original"), (1, "shifted")):
        if k == 1 and not _measure(inp)["closed"]:
            ok = abs(frac(mo["val"][0]) - frac(io["val"][1])) <= _shift_tol(inp)     # GEOS's noise grows with the offset
        else:
            ok = _num_eq(inp, mo["val"][0], io["val"][k])
        if not ok:
            return f"compute_affinity on the {what} pair = {float(frac(io['val'][k]))!r}, model {float(frac(mo['val'][0]))!r}"
    return None


def _shift_tol(inp):
    """GEOS computes in absolute coordinates (for a buffered side: in the space scaled by 1 / time_buffer), so the noise
    of its overlay grows with their magnitude M: observed up to 0.15 * 2^-40 * M at sharp mitre joins (thorough tier,
    follow-up 2); the tolerance is 2^-37 relative to M"""
    info = _measure(inp)
    tmax = max(_raw_time_bounds(g)[1] for g in (inp["g1"], inp["g2"])) + max(frac(inp["d"]), Fraction(0))
    scaled = any(kd == "buffered" for kd in info["plan_kinds"]) and 0 < frac(inp["tb"]) < 1
    return 8 * TOL * max(Fraction(1), tmax / frac(inp["tb"]) if scaled else tmax)


# ---------------------------------------------------------------- monitors
def _contracts(ctx, inp, info):
    """the hypotheses of the dispatcher theorems, evaluated on what shapely returned"""
    if not info.get("measured_pair"):
        return
    a = info["args"]
    v = ctx.model("contract", {"obs": a["obs"], "inter": a["inter"], "tol": rat(TOL)})
    ctx.contract("Sane (0 <= I <= A1 + A2, st <= en; exact)", v["sane"], inp, {"obs": a["obs"], "inter": a["inter"]})
    ctx.contract("Sound: I <= min(A1, A2) (within 2^-40)", v["inter_le_min"], inp, {"obs": a["obs"], "inter": a["inter"]})
    ctx.contract("Sound: I(x, y) = I(y, x) (within 2^-40)", v["symm"], inp, {"inter": a["inter"]})
    ctx.contract("Sound: I(x, x) = A(x) (within 2^-40)", v["self"], inp, {"obs": a["obs"], "inter": a["inter"]})
    ctx.contract("Sound: disjoint in time -> I = 0", v["disjoint"], inp, {"obs": a["obs"], "inter": a["inter"]})
    if a.get("boxes_measured"):
        # BoxExact: shapely's values for a measured bounding box against the closed forms
        for gj, ob in zip((inp["g1"], inp["g2"]), a["obs"]):
            if gj["type"] == "BoundingBox" and ob is not None:
                c = [frac(x) for x in gj["coordinates"]]
                ok = tol_eq((c[2] - c[0]) * (c[3] - c[1]), float(frac(ob["area"]))) and frac(ob["st"]) == c[0] \
                    and frac(ob["en"]) == c[2]
                ctx.contract("BoxExact: area and bounds of a box (within 2^-40)", ok, inp, {"box": gj, "obs": ob})


def _holds_pair(ctx, inp, io):
    if "raise" in io:
        return "compute_affinity raised " + str(io["raise"])
    if "mutated" in io:
        return "compute_affinity changed one of its arguments in place: " + jkey(io["mutated"])[:200]
    info = _measure(inp)
    if info["branch"] == "error":
        return None
    if "measure_error" in info:
        ctx.tally("shapely could not measure the prepared geometry although compute_affinity returned")
    for gj, ob, ok in info.get("bounds_exact", ()):
        ctx.contract("BoundsExact: shapely bounds = min / max of the coordinates (exact)", ok, inp, {"g": gj, "obs": ob})
    for gj, ob, ok in info.get("area_exact", ()):
        ctx.contract("AreaExact: shapely area of the converted geometry = shoelace area of the coordinates (within 2^-40)",
                     ok, inp, {"g": gj, "obs": ob})
    _contracts(ctx, inp, info)
    _buffer_contracts(ctx, inp, info)
    a12, a21 = io["val"]
    same = inp["g1"] == inp["g2"]
    if info["branch"] == "time" and "buffered" in info["plan_kinds"]:
        # the clause "whenever either geometry is time-only it equals the IoU of the (buffered) time extents", with
        # the buffered extent of the point / line side taken from its coordinates, not from the library's buffer
        kb = info["plan_kinds"].index("buffered")
        g, h = (inp["g1"], inp["g2"]) if kb == 0 else (inp["g2"], inp["g1"])
        msg = _time_band(ctx, g, h, inp["tb"], inp["fb"], [a12, a21])
        if msg:
            return msg
    v = ctx.model("judge", {"a12": a12, "a21": a21, "same": same, "extent_pos": bool(info["extent_pos"]),
                            "disjoint": bool(info["disjoint"])})
    ctx.tally("branch:" + info["branch"] + (":closed" if info["closed"] else ":measured"))
    if same:
        ctx.tally("self pairs")
    if info["disjoint"]:
        ctx.tally("pairs disjoint in time")
    if v["all"]:
        return None
    x, y = frac(a12), frac(a21)
    if not v["range"]:
        bad = x if not 0 <= x <= 1 else y
        return f"range: compute_affinity = {float(bad)!r} is outside [0, 1]"
    if not v["disjoint"]:
        return f"disjoint: prepared geometries do not overlap in time but the affinity is {float(x)!r}"
    area = info["branch"] == "area"
    severe = None
    if not v["symm"]:
        if area and abs(x - y) <= ULP_BOUND:
            ctx.fail("property", _op_name(inp), inp, io, None,
                     f"ulp-asymmetry: compute_affinity(a, b) = {float(x)!r} but (b, a) = {float(y)!r}")
        else:
            severe = f"asymmetry: compute_affinity(a, b) = {float(x)!r} but (b, a) = {float(y)!r}"
    if not v["self"]:
        if area and 0 <= 1 - x <= ULP_BOUND:
            ctx.fail("property", _op_name(inp), inp, io, None,
                     f"ulp-self-below-one: compute_affinity(g, g) = {float(x)!r}")
        else:
            severe = severe or f"self: compute_affinity(g, g) = {float(x)!r} for a geometry of non-zero extent"
    return severe


def _op_name(inp):
    return "affinity_closed" if _measure(inp)["closed"] else "affinity_geos"


def _holds_shift(ctx, inp, io):
    if "raise" in io:
        return "compute_affinity raised " + str(io["raise"])
    a, b = frac(io["val"][0]), frac(io["val"][1])
    info = _measure(inp)
    # the hypothesis "neither buffered geometry reaches time 0", on extents taken from the coordinates (raw time
    # bounds less kappa buffers for a buffered type) and, as before, on the measured / closed-form ones
    lo = min([e[0] for e in info["extent"]] + [_outer_extent(g, inp["tb"])[2] for g in (inp["g1"], inp["g2"])])
    if lo <= 0 or lo + frac(inp["d"]) <= 0:
        ctx.tally("shift: hypothesis not met (buffered geometry reaches time 0)")
        return None
    ctx.tally("shift:" + info["branch"] + (":closed" if info["closed"] else ":measured"))
    if info["branch"] == "time" and "buffered" in info["plan_kinds"]:
        kb = info["plan_kinds"].index("buffered")
        g, h = (inp["g1"], inp["g2"]) if kb == 0 else (inp["g2"], inp["g1"])
        for what, gg, hh, val in (("original", g, h, io["val"][0]),
                                  ("shifted", _shift_geom(g, inp["d"]), _shift_geom(h, inp["d"]), io["val"][1])):
            msg = _time_band(ctx, gg, hh, inp["tb"], inp["fb"], [val])
            if msg:
                return f"{what} pair (offset {inp['d']} s): " + msg
    if info["closed"]:
        ok = a == b
    else:
        ok = abs(a - b) <= _shift_tol(inp)
    if not ok:
        return f"shift: affinity {float(a)!r} becomes {float(b)!r} after shifting both geometries by {inp['d']} s"
    return None


def _nontrivial(inp, out):
    if "val" not in out:
        return False
    return frac(out["val"][0]) > 0 or frac(out["val"][1]) > 0 or _measure(inp).get("disjoint", False)


OPS = {
    "affinity_closed": Op("affinity_closed", _impl_pair, to_model=_to_model, compare=_compare_pair, holds=_holds_pair,
                          nontrivial=_nontrivial, mode="round-once", model_op="affinity_pair"),
    "affinity_geos": Op("affinity_geos", _impl_pair, to_model=_to_model, compare=_compare_pair, holds=_holds_pair,
                        nontrivial=_nontrivial, mode="tolerance", model_op="affinity_pair"),
    # bit-for-bit: the model's operations evaluated in binary64 (`affinityR rnd64`) on the GEOS values the harness
    # measured.  Not `determined`: the property does not pin the last bit, so a disagreement is a broken tie (the
    # floating-point theorems no longer describe the code) and `search` looks for an input violating the property
    "affinity_bits": Op("affinity_bits", _impl_bits, to_model=_to_model64, compare=_compare_bits, determined=False,
                        nontrivial=_nontrivial, mode="exact", model_op="affinity64"),
    "shift": Op("shift", _impl_shift, to_model=_to_model, compare=_compare_shift, holds=_holds_shift,
                nontrivial=_nontrivial, mode="tolerance", model_op="affinity_pair"),
}


# ---------------------------------------------------------------- follow-up 3: histories, construction paths, call styles
# (HISTORIES.md)  Every step of a history and every way of building / passing the arguments is judged by the same
# monitor and the same model as a plain pair: the model is pure, so the content the objects carry at that step and the
# call the arguments bind to (Lean: `bindCall` on the signature table, theorem C06_bind_wellformed) fix the answer.
_BASE = Op("affinity", None, to_model=lambda inp: _to_model(inp), compare=lambda inp, io, mo: _compare_pair(inp, io, mo),
           holds=lambda ctx, inp, io: _holds_pair(ctx, inp, io), nontrivial=lambda inp, out: _nontrivial(inp, out),
           mode="tolerance", model_op="affinity_pair")


def _h_build(inp):
    return {"g1": P.build(inp["g1"], inp.get("build", "validate")), "g2": P.build(inp["g2"], inp.get("build", "validate")),
            "tb": _f(inp["tb"]), "fb": _f(inp["fb"]), "omit": bool(inp.get("omit"))}


def _h_call(args):
    from soundevent.evaluation import compute_affinity
    if args.get("omit"):
        # a plain call: the step's buffers are the declared defaults (after calls with other buffers nothing of those
        # may linger in module state)
        return [compute_affinity(args["g1"], args["g2"]), compute_affinity(args["g2"], args["g1"])]
    a12 = compute_affinity(args["g1"], args["g2"], time_buffer=args["tb"], freq_buffer=args["fb"])
    a21 = compute_affinity(args["g2"], args["g1"], time_buffer=args["tb"], freq_buffer=args["fb"])
    return [a12, a21]


def _h_canon(inp, args, res):
    return {"val": [rat(float(res[0])), rat(float(res[1]))]}


def _h_snapshot(args):
    return [gen_geom.from_data(args["g1"]), gen_geom.from_data(args["g2"]), repr(args["tb"]), repr(args["fb"])]


def _same_content(obj, gj):
    return obj is not None and obj.type == gj["type"] and \
        gen_geom.from_data(obj)["coordinates"] == gen_geom._enc_f(gen_geom.coords_float(gj))


def _h_modify(args, inp, how):
    """the live geometry objects of the previous step turned into this step's geometries: coordinates re-assigned,
    model_copy(update=...) shallow / deep, copy.copy / deepcopy + assignment, the very same objects with other
    buffers, the same objects in the other order; with `prime+` the old objects are first used in compute_bounds /
    geometry_to_shapely / buffer_geometry.  Nothing remembered from the earlier use may survive."""
    primed = how.startswith("prime+")
    how2 = how[len("prime+"):] if primed else how
    olds = [args["g1"], args["g2"]]
    if primed:
        for o in olds:
            P.prime(o)
    if how2 == "swap":
        olds = olds[::-1]
    new = []
    for o, key in zip(olds, ("g1", "g2")):
        gj = inp[key]
        if how2 in ("same", "swap"):
            n = o if _same_content(o, gj) else None
        else:
            n = P.change(o, gj, how2)
        new.append(n if n is not None else P.build(gj))
    return {"g1": new[0], "g2": new[1], "tb": _f(inp["tb"]), "fb": _f(inp["fb"]), "omit": bool(inp.get("omit"))}


H_REUSE = tuple(P.REUSE) + ("prime+assign", "prime+copy_update", "prime+deep_copy_update", "prime+copy_assign")


def _shift_geom_f(gj, d):
    """time shift whose result is again a binary64 number (the identity on the dyadic grids)"""
    g = _shift_geom(gj, d)

    def fl(c):
        if isinstance(c, list):
            return [fl(x) for x in c]
        return rat(float(frac(c)))
    return {"type": g["type"], "coordinates": fl(g["coordinates"])}


def _min_time(gj):
    return _raw_time_bounds(gj)[0]


def _h_variants(x, rng):
    """neighbours of a pair: the same geometries with other buffers, one or both geometries moved in time (far away:
    disjoint; a little: another overlap), the pair swapped, a geometry against itself"""
    low = x["g1"]["type"] in LOW_DIM or x["g2"]["type"] in LOW_DIM
    pool = [("1/4", "1/2"), ("1/2", "1"), ("2", "1"), ("1/8", "4"), ("4", "1/4")] + ([] if low else [("0", "0")])
    plain = {k: v for k, v in x.items() if k != "omit"}
    out = [{**plain, "tb": tb, "fb": fb} for tb, fb in pool if (tb, fb) != (x["tb"], x["fb"])]
    # the declared defaults, passed explicitly and omitted (0.01 s is not on the grid: tolerance)
    dflt = {n: v["num"] for n, v in _doc_sig()[2:]}
    if frac(dflt["time_buffer"]) > 0 and frac(dflt["freq_buffer"]) > 0:
        for omit in (True, False):
            out.append({**plain, "tb": dflt["time_buffer"], "fb": dflt["freq_buffer"], "mode": "free", "omit": omit})
    x = plain
    for d in ("10", "1/2", "-1/4", "3", "1/8"):
        if _min_time(x["g2"]) + Fraction(d) >= 0:
            out.append({**x, "g2": _shift_geom_f(x["g2"], d)})
        if min(_min_time(x["g1"]), _min_time(x["g2"])) + Fraction(d) >= 0:
            out.append({**x, "g1": _shift_geom_f(x["g1"], d), "g2": _shift_geom_f(x["g2"], d)})
        if _min_time(x["g1"]) + Fraction(d) >= 0:
            out.append({**x, "g1": _shift_geom_f(x["g1"], d)})
    out.append({**x, "g1": x["g2"], "g2": x["g1"]})
    out.append({**x, "g2": x["g1"]})
    return out


def _impl_range(inp):
    from soundevent.evaluation import compute_affinity
    g1, g2 = gen_geom.to_data(inp["g1"]), gen_geom.to_data(inp["g2"])
    tb, fb = _f(inp["tb"]), _f(inp["fb"])
    return {"val": [rat(float(compute_affinity(g1, g2, time_buffer=tb, freq_buffer=fb))),
                    rat(float(compute_affinity(g2, g1, time_buffer=tb, freq_buffer=fb)))]}


def _holds_range(ctx, inp, io):
    """the clauses that need nothing but the two outputs: both in [0, 1] (`judgeObs`, theorem C06_model_holds), and
    equal up to the last bits (a larger difference is an asymmetry; the last bits are known finding C06-2)"""
    if "raise" in io:
        return "compute_affinity raised " + str(io["raise"])
    a12, a21 = io["val"]
    v = ctx.model("judge", {"a12": a12, "a21": a21, "same": False, "extent_pos": False, "disjoint": False})
    if not v["range"]:
        x = frac(a12) if not 0 <= frac(a12) <= 1 else frac(a21)
        return f"range: compute_affinity = {float(x)!r} is outside [0, 1]"
    if abs(frac(a12) - frac(a21)) > ULP_BOUND:
        return f"asymmetry: compute_affinity(a, b) = {float(frac(a12))!r} but (b, a) = {float(frac(a21))!r}"
    return None


# the range clause alone on many near-identical pairs (no measurement of shapes: cheap)
OPS["affinity_range"] = Op("affinity_range", _impl_range, holds=_holds_range, compare=lambda inp, io, mo: None,
                           nontrivial=lambda inp, out: "val" in out and frac(out["val"][0]) > 0, mode="exact", no_model=True)

OPS["affinity_history"] = history.history_op("affinity_history", _BASE, _h_build, _h_call, _h_canon,
                                             snapshot=_h_snapshot, modify=_h_modify)

_SIG = {}


def _extracted_sig():
    """the signature of the imported compute_affinity, by introspection (None: not introspectable)"""
    if "sig" not in _SIG:
        try:
            from soundevent.evaluation import compute_affinity
            _SIG["sig"] = P.extract_signature(compute_affinity)
        except Exception:  # noqa: BLE001
            _SIG["sig"] = None
    return _SIG["sig"]


PINNED_DEFAULTS = {"time_buffer": {"num": rat(0.01)}, "freq_buffer": {"num": "100"}}


def _doc_sig():
    """the documented interface (the four parameters in the documented order) with the defaults the imported function
    declares today: what a call is resolved against.  (That the imported signature *is* of this form is the
    regenerated obligation `signature`; a function that declares the buffers in another order still has its
    positional calls judged by the documented order.)"""
    ext = _extracted_sig() or []
    d = {n: v for n, v in ext if v is not None}
    return [["geometry1", None], ["geometry2", None]] + [[n, d.get(n) or PINNED_DEFAULTS[n]] for n in ("time_buffer", "freq_buffer")]


def _resolve(inp):
    """the base input (geometries and buffers) the call of `inp` binds to, by the model's `bindCall`"""
    k = "resolve:" + jkey(inp)
    if k not in _CACHE:
        def arg(slot):
            return {"geom": inp[slot]} if slot in ("g1", "g2") else {"num": inp[slot]}
        v = _model("bind", {"sig": _doc_sig(), "pos": [arg(s_) for s_ in inp["pos"]],
                            "kw": [[P.PARAM[s_], arg(s_)] for s_ in inp["kw"]]})
        _CACHE[k] = None if "raise" in v else {**v["val"], "mode": inp.get("mode", "free")}
    return _CACHE[k]


def _impl_call(inp):
    from soundevent.evaluation import compute_affinity
    b1, b2 = inp.get("build", ["validate", "validate"])
    n1, n2 = inp.get("num", ["float", "float"])
    g1, g2 = P.build(inp["g1"], b1), P.build(inp["g2"], b2)
    vals = {"g1": g1, "g2": g2, "tb": P.num(inp["tb"], n1), "fb": P.num(inp["fb"], n2)}
    a12 = P.call(compute_affinity, vals, inp["pos"], inp["kw"])
    a21 = P.call(compute_affinity, {**vals, "g1": g2, "g2": g1}, inp["pos"], inp["kw"])
    out = {"val": [rat(float(a12)), rat(float(a21))]}
    if not isinstance(a12, (int, float)) or isinstance(a12, bool):
        out["type"] = type(a12).__name__
    for g, gj in ((g1, inp["g1"]), (g2, inp["g2"])):
        if not _same_content(g, gj):
            out["mutated"] = gen_geom.from_data(g)
    return out


def _call_to_model(inp):
    r = _resolve(inp)
    return _to_model(r) if r is not None else {"g1": inp["g1"], "g2": inp["g2"], "tb": "-1", "fb": "-1"}


def _call_compare(inp, io, mo):
    r = _resolve(inp)
    if r is None:
        return None if io.get("raise") == "type" else "the model's binding raises TypeError, the implementation does not"
    return _compare_pair(r, io, mo)


def _call_holds(ctx, inp, io):
    r = _resolve(inp)
    if r is None:
        return None
    if "raise" in io:
        return (f"compute_affinity raised {io['raise']} when called with positional {inp['pos']} / keyword {inp['kw']} "
                f"arguments built as {inp.get('build')} / numbers as {inp.get('num')}")
    msg = _holds_pair(ctx, r, io)
    if msg:
        return (f"call with positional {inp['pos']} and keyword {inp['kw']} arguments (geometries built as {inp.get('build')}, "
                f"buffers passed as {inp.get('num')}), i.e. time_buffer={float(frac(r['tb']))!r} freq_buffer={float(frac(r['fb']))!r}: " + msg)
    return None


OPS["affinity_call"] = Op("affinity_call", _impl_call, to_model=_call_to_model, compare=_call_compare, holds=_call_holds,
                          nontrivial=lambda inp, out: _resolve(inp) is not None and _nontrivial(_resolve(inp), out),
                          mode="tolerance", model_op="affinity_pair")


def _run_pairs(ctx, cases):
    """route every pair to the operation whose comparison mode applies to it"""
    closed, geos = [], []
    for c in cases:
        (closed if _measure(c)["closed"] else geos).append(c)
    ctx.run_cases(OPS["affinity_closed"], closed)
    ctx.run_cases(OPS["affinity_geos"], geos)


# ---------------------------------------------------------------- known findings
def _is_area_pair(f):
    t1, t2 = f.inp["g1"]["type"], f.inp["g2"]["type"]
    return t1 not in ("TimeStamp", "TimeInterval") and t2 not in ("TimeStamp", "TimeInterval")


def _match_order_ulp(f, m):
    if not f.detail.startswith("ulp-asymmetry") or not _is_area_pair(f):
        return False
    x, y = (frac(v) for v in f.impl["val"])
    return 0 <= x <= 1 and 0 <= y <= 1 and 0 < abs(x - y) <= Fraction(m["max_abs_diff"])


def _match_self_ulp(f, m):
    if not f.detail.startswith("ulp-self-below-one") or not _is_area_pair(f) or f.inp["g1"] != f.inp["g2"]:
        return False
    x = frac(f.impl["val"][0])
    return 0 < 1 - x <= Fraction(m["max_abs_diff"])


FINDING_MATCHERS = {"geos_order_ulp": _match_order_ulp, "geos_self_below_one_ulp": _match_self_ulp}


# ---------------------------------------------------------------- tie 1: tables
def _tables(ctx):
    import soundevent.evaluation.affinity as A
    tabs = {}
    for pyname in ("BUFFER_GEOMETRY_TYPES", "TIME_GEOMETRY_TYPES"):
        tbl = getattr(A, pyname, None)
        try:
            ok = tbl is not None and all(isinstance(x, str) for x in tbl)
        except TypeError:
            ok = False
        if not ok:
            ctx.pre_failed.append(pyname)
            ctx.fail("obligation", pyname, detail=f"table {pyname} is gone or is not a collection of type names",
                     extra={"op": "affinity_geos"})
            continue
        tabs[pyname] = sorted(set(tbl))
    if "BUFFER_GEOMETRY_TYPES" in tabs:
        # every one of the nine input types meets this table: it must be the model's list
        items = ", ".join('"%s"' % x for x in tabs["BUFFER_GEOMETRY_TYPES"])
        ctx.obligation("BUFFER_GEOMETRY_TYPES",
                       f"theorem tbl_BUFFER_GEOMETRY_TYPES : ([{items}] : List String) = SE.Affinity.bufferTypes := by\n  se_close\n",
                       {"op": "affinity_geos", "extracted": tabs["BUFFER_GEOMETRY_TYPES"]})
    if "TIME_GEOMETRY_TYPES" in tabs:
        # only the types of *prepared* geometries meet this table (a buffered type never does: it has become a
        # TimeInterval or a (Multi)Polygon): the table must agree with the model's on those, nothing more
        items = ", ".join('"%s"' % x for x in tabs["TIME_GEOMETRY_TYPES"])
        ctx.obligation("TIME_GEOMETRY_TYPES",
                       "theorem tbl_TIME_GEOMETRY_TYPES : ∀ tag ∈ ([\"TimeInterval\", \"Polygon\", \"MultiPolygon\", \"BoundingBox\", "
                       "\"TimeStamp\", \"Point\", \"LineString\", \"MultiPoint\", \"MultiLineString\"] : List String),\n"
                       "    SE.Affinity.bufferTypes.contains tag = true ∨\n"
                       f"    ([{items}] : List String).contains tag = SE.Affinity.timeTypes.contains tag := by\n  decide\n",
                       {"op": "affinity_closed", "extracted": tabs["TIME_GEOMETRY_TYPES"]})


def _signature_tie(ctx):
    """Tie 1: the signature of the imported compute_affinity, by introspection, is one the documented interface admits
    (`WellFormedSig`: geometry1, geometry2, time_buffer, freq_buffer in this order, the buffers optional with
    non-negative numeric defaults).  With C06_bind_wellformed every call style binds to the same call."""
    ext = _extracted_sig()
    if ext is None:
        ctx.pre_failed.append("signature")
        ctx.fail("obligation", "signature", detail="the signature of compute_affinity cannot be introspected",
                 extra={"op": "affinity_call"})
        return
    ctx.obligation("signature",
                   f"theorem sig_compute_affinity : SE.Affinity.WellFormedSig {P.lean_sig(ext)} = true := by\n  decide +kernel\n",
                   {"op": "affinity_call", "extracted": ext})


# ---------------------------------------------------------------- tie 1b: symbolic traces
class _GeomStub(c06_route.CacheFriendly):
    """a geometry stand-in: `.type` and `.coordinates` (and what a cache key may be built from)"""

    def __init__(self, type, coordinates=None):
        self.type = type
        self.coordinates = coordinates


class _ShapeStub:
    """a shapely stand-in with symbolic area and intersection area"""

    def __init__(self, name, area, inter):
        self.name = name
        self.area = area
        self._inter = inter

    def intersection(self, other):
        return _AreaOnly(self._inter[(self.name, other.name)])


class _AreaOnly:
    def __init__(self, area):
        self.area = area




def _symbolic_ties(ctx):
    import soundevent.evaluation.affinity as A
    import soundevent.geometry.operations as O
    from soundevent import data as real_data

    # (a) the area branch: areas and the intersection area symbolic
    V = ["a", "b", "i"]
    a, b, i = [c06_route.hvar(n) for n in V]
    inter = {("x", "y"): i}
    shapes = {"x": _ShapeStub("x", a, inter), "y": _ShapeStub("y", b, inter)}

    def run_area():
        # a Polygon is not buffered: the real `_prepare_geometry` hands the stand-ins on unchanged
        saved = A.geometry_to_shapely
        A.geometry_to_shapely = lambda g: shapes[g.coordinates]
        try:
            return A.compute_affinity(_GeomStub("Polygon", "x"), _GeomStub("Polygon", "y"))
        finally:
            A.geometry_to_shapely = saved
    ctx.sym_tie("ext_iou", c06_route.isolated(run_area, A, O), V, "Rat", "some (SE.Affinity.iouC a b i)",
                tactic="unfold ext_iou SE.Affinity.iouC\n  se_close", meta={"op": "affinity_geos"})

    # (b), (c) need the name `compute_affinity_in_time`; if the code no longer has it the marker-free traces of the
    # whole function (`ext_full_*`, see _route_ties) take their place
    if not callable(getattr(A, "compute_affinity_in_time", None)):
        ctx.note("compute_affinity_in_time is gone: the time function is tied through the marker-free traces ext_full_*")
        return

    # (b) the time branch on symbolic bounds
    BV = ["s1", "l1", "e1", "h1", "s2", "l2", "e2", "h2"]
    sy = {n: c06_route.hvar(n) for n in BV}

    def run_time():
        saved = A.compute_bounds
        A.compute_bounds = lambda g: g.coordinates
        try:
            return A.compute_affinity_in_time(_GeomStub("TimeInterval", tuple(sy[n] for n in BV[:4])),
                                              _GeomStub("TimeInterval", tuple(sy[n] for n in BV[4:])))
        finally:
            A.compute_bounds = saved
    ctx.sym_tie("ext_time_iou", c06_route.isolated(run_time, A, O), BV, "Rat", "some (SE.Affinity.timeIoU s1 e1 s2 e2)",
                tactic="unfold ext_time_iou SE.Affinity.timeIoU\n  se_close", meta={"op": "affinity_closed"})

    # (c) the whole function on time-only arguments: _prepare_geometry, buffer_geometry, buffer_timestamp, the
    #     dispatch on the type tables and the time IoU, with pydantic's TimeInterval replaced by a record
    class _DataStub:
        MAX_FREQUENCY = real_data.MAX_FREQUENCY
        Geometry = real_data.Geometry
        Time = getattr(real_data, "Time", float)
        Frequency = getattr(real_data, "Frequency", float)

        @staticmethod
        def TimeInterval(coordinates):
            return _GeomStub("TimeInterval", list(coordinates))

    def marker(g1, g2):
        # stands for compute_affinity_in_time (tied separately, (b)): records the bounds it is reached with;
        # compute_bounds of a TimeInterval [s, e] is (s, 0, e, MAX_FREQUENCY)
        def se(g):
            if g.type == "TimeInterval":
                return (g.coordinates[0], g.coordinates[1])
            if g.type == "TimeStamp":       # an unbuffered time stamp: bounds (t, 0, t, MAX_FREQUENCY)
                return (g.coordinates, g.coordinates)
            raise RuntimeError("time branch reached with " + str(g.type))
        return se(g1) + se(g2)

    def full(mk1, mk2):
        def run():
            saved = (O.data, A.compute_affinity_in_time)
            O.data = _DataStub
            A.compute_affinity_in_time = marker
            try:
                return A.compute_affinity(mk1(), mk2(), time_buffer=sy2["tb"], freq_buffer=sy2["fb"])
            finally:
                O.data, A.compute_affinity_in_time = saved
        return c06_route.isolated(run, A, O)
    TV = ["t1", "u1", "t2", "u2", "tb", "fb"]
    sy2 = {n: c06_route.hvar(n) for n in TV}
    makers = {
        "stamp": (lambda k: (lambda: _GeomStub("TimeStamp", sy2["t" + k])), lambda k: f"(.timeStamp t{k})"),
        "interval": (lambda k: (lambda: _GeomStub("TimeInterval", [sy2["t" + k], sy2["u" + k]])),
                     lambda k: f"(.timeInterval t{k} u{k})"),
    }
    unf = ("SE.Affinity.timeBranchArgs SE.Affinity.prepare SE.Affinity.bufferGeometry SE.Affinity.asPrep "
           "SE.Affinity.isTime SE.Affinity.timeBounds SE.Affinity.Prep.tag SE.Geom.tag "
           "SE.Affinity.bufferTypes SE.Affinity.timeTypes")
    for k1, (mk1, l1) in makers.items():
        for k2, (mk2, l2) in makers.items():
            name = f"ext_dispatch_{k1}_{k2}"
            term = f"SE.Affinity.timeBranchArgs SE.Affinity.unitGeos {l1('1')} {l2('2')} tb fb"
            ctx.sym_tie(name, full(mk1("1"), mk2("2")), TV, "Rat × Rat × Rat × Rat", term,
                        tactic=(f"by_cases hneg : tb < 0 ∨ fb < 0 <;>\n    simp [hneg, {', '.join(unf.split())}] <;>\n"
                                f"    unfold {name} <;> grind"),
                        meta={"op": "affinity_closed"})


def _custom_tie(ctx, name, gen, meta):
    """like ctx.sym_tie for obligations with their own binders: a trace that fails is a broken obligation"""
    from ..leanio import InfraError
    try:
        src, n = gen()
    except InfraError:
        raise
    except Exception as e:  # noqa: BLE001
        ctx.symbolic_ties[name] = {"error": repr(e)[:300]}
        ctx.pre_failed.append(name)
        ctx.fail("obligation", name, detail=f"symbolic trace of the current source failed: {e!r}", extra=dict(meta))
        return
    ctx.symbolic_ties[name] = {"paths": n}
    ctx.obligation(name, "set_option linter.unusedSimpArgs false\n" + src, meta)


def _rounded_ties(ctx):
    """the two formulas operation by operation in a rounding arithmetic (every result wrapped in `rnd`)"""
    import soundevent.evaluation.affinity as A
    R = c06_route
    a, b, i = [R.rvar(n) for n in "abi"]
    inter = {("x", "y"): i}
    shapes = {"x": _ShapeStub("x", a, inter), "y": _ShapeStub("y", b, inter)}

    def run_area():
        # a Polygon is not buffered: the real `_prepare_geometry` hands the stand-ins on unchanged
        saved = A.geometry_to_shapely
        A.geometry_to_shapely = lambda g: shapes[g.coordinates]
        try:
            return A.compute_affinity(_GeomStub("Polygon", "x"), _GeomStub("Polygon", "y"))
        finally:
            A.geometry_to_shapely = saved
    _custom_tie(ctx, "ext_iou_r", lambda: R.formula_obligation(
        "ext_iou_r", c06_route.isolated(run_area, A), ["a", "b", "i"], "SE.Affinity.iouCR rnd a b i", "SE.Affinity.iouCR"),
        {"op": "affinity_geos"})
    if not callable(getattr(A, "compute_affinity_in_time", None)):
        return
    BV = ["s1", "l1", "e1", "h1", "s2", "l2", "e2", "h2"]
    sy = {n: R.rvar(n) for n in BV}

    def run_time():
        saved = A.compute_bounds
        A.compute_bounds = lambda g: g.coordinates
        try:
            return A.compute_affinity_in_time(_GeomStub("TimeInterval", tuple(sy[n] for n in BV[:4])),
                                              _GeomStub("TimeInterval", tuple(sy[n] for n in BV[4:])))
        finally:
            A.compute_bounds = saved
    _custom_tie(ctx, "ext_time_iou_r", lambda: R.formula_obligation(
        "ext_time_iou_r", c06_route.isolated(run_time, A), BV, "SE.Affinity.timeIoUR rnd s1 e1 s2 e2", "SE.Affinity.timeIoUR"),
        {"op": "affinity_closed"})


def _buffer_ties(ctx):
    """buffer_timestamp / buffer_interval / buffer_bounding_box_geometry through the public buffer_geometry"""
    import soundevent.geometry.operations as O
    from soundevent import data as real_data
    for ty in ("TimeStamp", "TimeInterval", "BoundingBox"):
        _custom_tie(ctx, f"ext_buffer_{ty}", lambda: c06_route.buffer_obligation(f"ext_buffer_{ty}", O, real_data, ty),
                    {"op": "affinity_closed"})


def _route_ties(ctx):
    """the whole of compute_affinity for every ordered type pair, every `Geos`, all coordinates and buffers, in
    a rounding arithmetic: which branch, which sides are buffered with which buffers, which extents / areas"""
    import soundevent.evaluation.affinity as A
    import soundevent.geometry.operations as O
    from soundevent import data as real_data
    R = c06_route
    # `compute_affinity_in_time` is tied on its own (ext_time_iou, ext_time_iou_r); a marker in its place keeps the
    # number of paths small.  Without that name (or in the thorough tier) the whole function is traced instead.
    have_marker = callable(getattr(A, "compute_affinity_in_time", None))
    for t1 in R.TYPES:
        for t2 in R.TYPES:
            geos = any(t in ("Point", "LineString", "MultiPoint", "MultiLineString") for t in (t1, t2)) \
                or not any(t in ("TimeStamp", "TimeInterval") for t in (t1, t2))
            meta = {"op": "affinity_geos" if geos else "affinity_closed"}
            if have_marker:
                _custom_tie(ctx, f"ext_route_{t1}_{t2}", lambda: R.route_obligation(
                    f"ext_route_{t1}_{t2}", R.tracer(A, O, real_data, t1, t2), t1, t2), meta)
            if ctx.thorough() or not have_marker:
                _custom_tie(ctx, f"ext_full_{t1}_{t2}", lambda: R.full_obligation(
                    f"ext_full_{t1}_{t2}", R.tracer(A, O, real_data, t1, t2, marker=False), t1, t2), meta)


# ---------------------------------------------------------------- generators
def _bufs(rng, g1, g2, mode):
    low = g1["type"] in LOW_DIM or g2["type"] in LOW_DIM
    if mode == "grid":
        # time buffers above one second too: the shapely pipeline works in a space scaled by 1/buffer, where a
        # quantity read before scaling back is only wrong once the factor is below 1 (seeded C06-4)
        pool = [("1/4", "1/2"), ("1/2", "1"), ("1/8", "1/4"), ("1", "1/2"), ("2", "1"), ("4", "2"), ("1/2", "2"), ("2", "4")]
        if not low:
            pool += [("0", "0"), ("0", "1/2")]
        return rng.choice(pool)
    # ... frequency buffers of kilohertz too (what one uses for broadband calls): an internal cap / default only shows there
    pool = [(rat(0.01), rat(100.0)), (rat(0.05), rat(33.3)), ("1/8", "1/2"), (rat(1.5), rat(250.0)), (rat(3.0), rat(0.5)),
            (rat(0.02), rat(2500.0)), ("1/2", "5000")]
    if not low:
        pool.append(("0", "0"))
    return rng.choice(pool)


def _is_simple(gj):
    """inside the quantifier: polygons valid, lines not self-intersecting (a line that retraces itself makes
    GEOS's buffer produce a degenerate ring and compute_affinity raise)"""
    if gj["type"] in ("LineString", "MultiLineString"):
        # shapely directly on the coordinates (not through the library's conversion, which is code under test)
        import shapely
        try:
            c = gen_geom.coords_float(gj)
            shp = shapely.LineString(c) if gj["type"] == "LineString" else shapely.MultiLineString(c)
            return bool(shp.is_simple)
        except Exception:  # noqa: BLE001
            return False
    if gj["type"] in ("Polygon", "MultiPolygon"):
        return gen_geom.is_simple(gj)
    return True


def _valid(rng, ty, **kw):
    for _ in range(60):
        g = gen_geom.gen_valid(rng, ty, **kw)
        if g["type"] == ty and _is_simple(g):
            return g
    if ty in ("LineString", "MultiLineString"):
        line = [["1", "1"], ["2", "3/2"]]
        return {"type": ty, "coordinates": line if ty == "LineString" else [line]}
    return gen_geom.gen_valid(rng, ty, **kw)


def _grid_geom(rng, ty):
    return _valid(rng, ty, tmax=4, fmax=4, k=rng.choice([1, 2, 2, 3]))


def _free_geom(rng, ty):
    """arbitrary binary64 coordinates on realistic scales"""
    t0 = rng.uniform(0, 5)
    f0 = rng.uniform(0, 8000)
    w = rng.uniform(0.001, 2)
    h = rng.uniform(1, 4000)

    def pt():
        return [rat(rng.uniform(t0, t0 + w)), rat(rng.uniform(f0, f0 + h))]
    if ty == "TimeStamp":
        return {"type": ty, "coordinates": rat(t0)}
    if ty == "TimeInterval":
        return {"type": ty, "coordinates": [rat(t0), rat(t0 + w)]}
    if ty == "Point":
        return {"type": ty, "coordinates": pt()}
    if ty == "BoundingBox":
        return {"type": ty, "coordinates": [rat(t0), rat(f0), rat(t0 + w), rat(f0 + h)]}
    if ty == "LineString":
        pts = sorted((pt() for _ in range(rng.randint(2, 5))), key=lambda p: frac(p[0]))
        return {"type": ty, "coordinates": pts}
    if ty == "MultiPoint":
        return {"type": ty, "coordinates": [pt() for _ in range(rng.randint(1, 5))]}
    if ty == "MultiLineString":
        for _ in range(20):
            g = {"type": ty, "coordinates": [sorted((pt() for _ in range(rng.randint(2, 4))), key=lambda p: frac(p[0]))
                                             for _ in range(rng.randint(1, 3))]}
            if _is_simple(g):
                return g
        return {"type": ty, "coordinates": [sorted((pt() for _ in range(2)), key=lambda p: frac(p[0]))]}
    # polygons: grid generator scaled into the window (valid by construction check)
    for _ in range(50):
        g = gen_geom.gen_geometry(rng, ty, tmax=4, fmax=4, k=6)

        def sc(c, depth):
            if depth == 0:
                return [rat(t0 + float(frac(c[0])) * w / 4), rat(f0 + float(frac(c[1])) * h / 4)]
            return [sc(x, depth - 1) for x in c]
        g2 = {"type": ty, "coordinates": sc(g["coordinates"], 2 if ty == "Polygon" else 3)}
        if gen_geom.is_simple(g2):
            return g2
    return {"type": "BoundingBox", "coordinates": [rat(t0), rat(f0), rat(t0 + w), rat(f0 + h)]}


def _pair_cases(rng, reps, mode):
    gen = _grid_geom if mode == "grid" else _free_geom
    for t1 in gen_geom.TYPES:
        for t2 in gen_geom.TYPES:
            for _ in range(reps):
                g1, g2 = gen(rng, t1), gen(rng, t2)
                tb, fb = _bufs(rng, g1, g2, mode)
                yield {"g1": g1, "g2": g2, "tb": tb, "fb": fb, "mode": mode}


def _self_cases(rng, reps, mode):
    gen = _grid_geom if mode == "grid" else _free_geom
    for ty in gen_geom.TYPES:
        for _ in range(reps):
            g = gen(rng, ty)
            tb, fb = _bufs(rng, g, g, mode)
            yield {"g1": g, "g2": g, "tb": tb, "fb": fb, "mode": mode}


def _box(s, lo, e, hi):
    return {"type": "BoundingBox", "coordinates": [rat(Fraction(x)) for x in (s, lo, e, hi)]}


def _interval(s, e):
    return {"type": "TimeInterval", "coordinates": [rat(Fraction(s)), rat(Fraction(e))]}


def _stamp(t):
    return {"type": "TimeStamp", "coordinates": rat(Fraction(t))}


def _exhaustive_closed(thorough):
    """every placement of intervals / time stamps / boxes on a small grid: touching, nested, equal, zero extent"""
    ts = [Fraction(i, 2) for i in range(0, 5 if thorough else 4)]
    ivs = [_interval(s, e) for s, e in itertools.combinations_with_replacement(ts, 2)]
    for a, b in itertools.product(ivs, repeat=2):
        yield {"g1": a, "g2": b, "tb": "0", "fb": "0", "mode": "grid"}
    for t in ts:
        for b in ivs:
            for tb in ("0", "1/4", "1/2", "1"):
                yield {"g1": _stamp(t), "g2": b, "tb": tb, "fb": "1", "mode": "grid"}
        for t2 in ts:
            for tb in ("1/4", "1"):
                yield {"g1": _stamp(t), "g2": _stamp(t2), "tb": tb, "fb": "1", "mode": "grid"}
    fs = [0, 1, 2] if not thorough else [0, 1, 2, 3]
    tt = [0, 1, 2]
    boxes = [_box(s, lo, e, hi) for s, e in itertools.combinations_with_replacement(tt, 2)
             for lo, hi in itertools.combinations_with_replacement(fs, 2)]
    for a, b in itertools.product(boxes, repeat=2):
        yield {"g1": a, "g2": b, "tb": "1/4", "fb": "1/2", "mode": "grid"}
    for a in boxes:
        for b in ivs[:6]:
            yield {"g1": a, "g2": b, "tb": "1/4", "fb": "1/2", "mode": "grid"}
            yield {"g1": b, "g2": a, "tb": "1/4", "fb": "1/2", "mode": "grid"}


def _tiny_overlap_cases():
    """extents that overlap, or miss each other, by 2^-k (k up to 45): dyadic, so still exact in binary64"""
    for k in (10, 20, 30, 36, 45):
        eps = Fraction(1, 2 ** k)
        for d in (eps, -eps, Fraction(0)):
            a, b = _interval(1, 2), _interval(2 - d, 3)
            yield {"g1": a, "g2": b, "tb": "0", "fb": "0", "mode": "grid"}
            yield {"g1": _box(1, 1, 2, 2), "g2": b, "tb": "0", "fb": "0", "mode": "grid"}
            yield {"g1": _box(1, 1, 2, 2), "g2": _box(2 - d, 1, 3, 2), "tb": "0", "fb": "0", "mode": "grid"}
            yield {"g1": _stamp(1), "g2": _interval(Fraction(5, 4) - d, 2), "tb": "1/4", "fb": "1", "mode": "grid"}
            yield {"g1": _stamp(1), "g2": _stamp(Fraction(3, 2) - d), "tb": "1/4", "fb": "1", "mode": "grid"}
            yield {"g1": _interval(1, 1 + eps), "g2": _interval(1, 1 + eps), "tb": "0", "fb": "0", "mode": "grid"}


def _full_band_cases(rng, reps):
    """bounding boxes that touch frequency 0 and / or MAX_FREQUENCY against every type"""
    M = gen_geom.MAXF
    for _ in range(reps):
        s = Fraction(rng.randint(0, 8), 4)
        w = Fraction(rng.randint(1, 8), 4)
        for lo, hi in ((0, M), (0, 2), (M - 2, M)):
            bx = _box(s, lo, s + w, hi)
            for ty in gen_geom.TYPES:
                g = _valid(rng, ty, tmax=4, fmax=4, k=2)
                tb, fb = _bufs(rng, bx, g, "grid")
                yield {"g1": bx, "g2": g, "tb": tb, "fb": fb, "mode": "grid"}
        yield {"g1": _box(s, 0, s + w, M), "g2": _box(s, 0, s + w, M), "tb": "1/4", "fb": "1/2", "mode": "grid"}


def _boundary_geos(rng, reps):
    """touching, nested and identical-but-differently-typed shapes through GEOS"""
    for _ in range(reps):
        s = Fraction(rng.randint(0, 8), 4)
        w = Fraction(rng.randint(1, 8), 4)
        lo = Fraction(rng.randint(0, 8), 4)
        h = Fraction(rng.randint(1, 8), 4)
        ring = [[rat(s), rat(lo)], [rat(s + w), rat(lo)], [rat(s + w), rat(lo + h)], [rat(s), rat(lo + h)], [rat(s), rat(lo)]]
        poly = {"type": "Polygon", "coordinates": [ring]}
        box = _box(s, lo, s + w, lo + h)
        touching = _box(s + w, lo, s + 2 * w, lo + h)
        inner = _box(s + w / 4, lo + h / 4, s + w / 2, lo + h / 2)
        line = {"type": "LineString", "coordinates": [[rat(s), rat(lo)], [rat(s + w), rat(lo + h)]]}
        mp = {"type": "MultiPolygon", "coordinates": [[ring]]}
        for g1, g2 in ((poly, box), (poly, touching), (poly, inner), (mp, poly), (line, touching), (line, box), (mp, inner)):
            tb, fb = _bufs(rng, g1, g2, "grid")
            yield {"g1": g1, "g2": g2, "tb": tb, "fb": fb, "mode": "grid"}


def _shift_cases(rng, reps):
    for t1 in gen_geom.TYPES:
        for t2 in gen_geom.TYPES:
            for _ in range(reps):
                # keep the buffered geometries away from time 0 before and after the shift
                # (mitre joins of a buffered line can reach 5 buffers beyond its end); time buffers above one
                # second too (scale factor of the shapely pipeline below 1), and now and then late events
                tb, fb = rng.choice([("1/4", "1/2"), ("1/2", "1"), ("1", "1/2"), ("3/2", "1/2"), ("2", "1"), ("4", "2"),
                                     ("5/2", "4")])
                t0 = 8 if frac(tb) <= 1 else 24
                if rng.random() < 0.2:
                    t0 = rng.choice([60, 250, 1000])
                g1 = _valid(rng, t1, tmin=t0, tmax=t0 + 4, fmax=4, k=2)
                g2 = _valid(rng, t2, tmin=t0, tmax=t0 + 4, fmax=4, k=2)
                d = rng.choice(["1", "1/4", "8", "-1/2", "-1", "17/8", "100", "-3", "1000"])
                yield {"g1": g1, "g2": g2, "tb": tb, "fb": fb, "d": d, "mode": "grid"}


# ---------------------------------------------------------------- follow-up 3: generators
def _near_identical_cases(rng, reps, types=None, kinds=None):
    """a geometry against a copy whose coordinates (all, or some of them) moved by about one unit in the last place
    (one ulp, 1e-12 relative, the unit round trips x*1000/1000, x/1000*1000, x/3*3, ...): the ratio of GEOS's areas is
    then 1 +- a few ulp, and the clause "in [0, 1], never more than 1" is decided by the final clamp alone (seeded
    C06-9).  Polygons, multipolygons, boxes, buffered lines / points (area branch) and intervals / time stamps (time
    branch), on arbitrary binary64 coordinates and on coordinates with three / one decimals"""
    types = types or ["Polygon", "MultiPolygon", "BoundingBox", "LineString", "MultiLineString", "Point", "MultiPoint",
                      "TimeInterval", "TimeStamp"]
    for _ in range(reps):
        for ty in types:
            g = _free_geom(rng, ty)
            if g["type"] != ty:
                continue
            if rng.random() < 0.6:
                gd = P.decimal_round(g)
                if _is_simple(gd) and _wf(gd):
                    g = gd
            for kind in (kinds or P.PERTURB):
                h = P.perturb(g, kind, rng)
                if h == g or not _is_simple(h) or not _wf(h):
                    continue
                tb, fb = _bufs(rng, g, h, "free")
                yield {"g1": g, "g2": h, "tb": tb, "fb": fb, "mode": "free"}
                if ty == "BoundingBox" and kind in ("ulp", "rt1000"):
                    c = g["coordinates"]
                    ring = [[c[0], c[1]], [c[2], c[1]], [c[2], c[3]], [c[0], c[3]], [c[0], c[1]]]
                    yield {"g1": {"type": "Polygon", "coordinates": [ring]}, "g2": h, "tb": tb, "fb": fb, "mode": "free"}


GEOS_NEAR = ["Polygon", "MultiPolygon", "LineString", "MultiLineString", "Point", "MultiPoint"]
NEAR_KINDS = ["ulp", "ulp_some", "rt1000", "rt3", "rt_mixed"]


def _wf(gj):
    """inside the quantifier: the library's own validation accepts the geometry as it is (a perturbed or rounded copy
    can lose that: an interval or box out of order, a line of a MultiLineString that no longer starts before it ends,
    a LineString that validation would turn around)"""
    try:
        obj = gen_geom.to_data(gj)
    except Exception:  # noqa: BLE001
        return False
    return _same_content(obj, gj)


def _pow2(k):
    return Fraction(2) ** k


def _is_float(q):
    return Fraction(float(q)) == q


def _coords_are_floats(gj):
    ok = [True]

    def chk(c):
        if isinstance(c, list):
            for x in c:
                chk(x)
        elif not _is_float(frac(c)):
            ok[0] = False
    chk(gj["coordinates"])
    return ok[0]


def _time_formula_exact(case):
    """every intermediate of the time-only computation (the buffer of a time stamp, both durations, overlap, union) is
    a binary64 number, so that the implementation rounds once, in the final division"""
    ext = []
    tb = frac(case["tb"])
    for g in (case["g1"], case["g2"]):
        s_, e_ = _raw_time_bounds(g)
        if g["type"] == "TimeStamp":
            if not (_is_float(s_ - tb) and _is_float(e_ + tb)):
                return False
            s_, e_ = max(s_ - tb, Fraction(0)), e_ + tb
        ext.append((s_, e_))
    (s1, e1), (s2, e2) = ext
    inter = max(Fraction(0), min(e1, e2) - max(s1, s2))
    steps = [min(e1, e2) - max(s1, s2), e1 - s1, e2 - s2, (e1 - s1) + (e2 - s2), (e1 - s1) + (e2 - s2) - inter]
    return all(_is_float(x) for x in steps)


def _magnitude_boundary_cases():
    """tolerance-sized offsets around every comparison the property pins (extents touching / overlapping / missing each
    other, the clamp of a buffered time stamp at 0, the zero-union guard, extents of one unit in the last place), at
    small and at large magnitudes.  Every coordinate is a binary64 number; where every intermediate of the time formula
    is one as well the pair is compared round-once (`grid`), otherwise with the tolerance and, bit for bit, against the
    binary64 evaluation of the model (`affinity_bits`)"""
    def emit(g1, g2, tb, fb, area=False):
        c = {"g1": g1, "g2": g2, "tb": rat(Fraction(tb)), "fb": rat(Fraction(fb)), "mode": "grid"}
        if not (_coords_are_floats(g1) and _coords_are_floats(g2)):
            return None
        if area or not _time_formula_exact(c):
            c["mode"] = "free"
        return c
    out = []
    for e in (0, 12, 17, 20):                        # T = 1, 4096, 131072 (a day and a half), 1048576 seconds
        T = _pow2(e)
        u = _pow2(max(e, 2) - 51)                    # one unit in the last place of the largest endpoint T + 3
        epss = sorted({u, 64 * u, max(u, _pow2(-30)), max(u, _pow2(-20))})
        for eps in epss:
            for d in (eps, -eps, Fraction(0)):
                out.append(emit(_interval(T, T + 1), _interval(T + 1 - d, T + 2), 0, 0))
                out.append(emit(_stamp(T), _interval(T + Fraction(1, 4) - d, T + 1), Fraction(1, 4), 1))
                out.append(emit(_stamp(T), _stamp(T + Fraction(1, 2) - d), Fraction(1, 4), 1))
                out.append(emit(_box(T, 1, T + 1, 2), _interval(T + 1 - d, T + 2), 0, 0))
                # area branch through GEOS at large time and frequency magnitudes (measured, tolerance)
                for F in (Fraction(1024), Fraction(2 ** 20), Fraction(gen_geom.MAXF - 2048)):
                    out.append(emit(_box(T, F, T + 1, F + 1024), _box(T + 1 - d, F + 512, T + 2, F + 2048), 0, 0, area=True))
            # extents of eps: self = 1, a half-overlapping neighbour, the zero-union guard next to it
            out.append(emit(_interval(T, T + eps), _interval(T, T + eps), 0, 0))
            out.append(emit(_interval(T, T + 2 * eps), _interval(T + eps, T + 3 * eps), 0, 0))
            out.append(emit(_box(T, 1, T + eps, 2), _box(T, 1, T + eps, 2), 0, 0, area=True))
            out.append(emit(_interval(T, T), _interval(T, T + eps), 0, 0))
        out.append(emit(_interval(T, T), _interval(T, T), 0, 0))
    # the clamp of a buffered time stamp at time 0: t - tb just below, at, just above 0
    for tb in (Fraction(1, 4), Fraction(1), Fraction(4)):
        for eps in (2 * tb * _pow2(-52), _pow2(-40), _pow2(-20)):
            for d in (eps, -eps, Fraction(0)):
                t = tb + d
                out.append(emit(_stamp(t), _interval(0, 2 * tb), tb, 1))
                out.append(emit(_stamp(t), _stamp(t), tb, 1))
                out.append(emit(_stamp(t), {"type": "Point", "coordinates": [rat(t), "2"]}, tb, 1))
    seen = set()
    for c in out:
        if c is not None and jkey(c) not in seen:
            seen.add(jkey(c))
            yield c


def _ring_regular(n, ct, cf, rt, rf, k):
    """a star-shaped (hence simple) ring with n vertices on the grid 2^-k"""
    import math
    q = 1 << k
    pts = []
    for i in range(n):
        a = 2 * math.pi * i / n
        r = 1.0 if i % 2 == 0 else 0.8
        pts.append([rat(Fraction(round((ct + rt * r * math.cos(a)) * q), q)), rat(Fraction(round((cf + rf * r * math.sin(a)) * q), q))])
    pts.append(list(pts[0]))
    return pts


def _size_cases(rng, sizes, heavy=True):
    """geometries with many vertices / parts, around the sizes at which an implementation could switch strategy
    (> 16, > 256, >= 1024): against an interval (time branch), a box and themselves (area branch).  Above 1000 vertices
    the line is smooth (GEOS's mitre buffer of a jagged line takes seconds) and the multipoint only runs when `heavy`"""
    import math
    k = 12
    q = 1 << k
    for n in sizes:
        big_n = n > 1000
        poly = {"type": "Polygon", "coordinates": [_ring_regular(n, 8, 8, 4, 4, k)]}
        ts = sorted(rng.sample(range(4 * q, 12 * q), n))
        if big_n:
            fs = [round((8 + 3 * math.sin(6 * math.pi * i / n)) * q) for i in range(n)]
        else:
            fs = [rng.randint(4 * q, 12 * q) for _ in range(n)]
        line = {"type": "LineString", "coordinates": [[rat(Fraction(t, q)), rat(Fraction(f, q))] for t, f in zip(ts, fs)]}
        mpt = {"type": "MultiPoint", "coordinates": [[rat(Fraction(rng.randint(4 * q, 12 * q), q)), rat(Fraction(rng.randint(4 * q, 12 * q), q))]
                                                     for _ in range(n)]}
        m = max(2, n // 16)
        w = Fraction(8, m)
        mpoly = {"type": "MultiPolygon", "coordinates": [[_ring_regular(16, float(4 + w * i + w / 2), 8, float(w * Fraction(2, 5)), 3, k)]
                                                        for i in range(m)]}
        mline = {"type": "MultiLineString", "coordinates": [[[rat(4 + w * i), rat(Fraction(rng.randint(4 * q, 12 * q), q))],
                                                             [rat(4 + w * i + w / 2), rat(Fraction(rng.randint(4 * q, 12 * q), q))]]
                                                            for i in range(m)]}
        big = [poly, line, mpoly, mline] + ([mpt] if heavy or not big_n else [])
        big = [g for g in big if _is_simple(g)]
        partners = [_interval(6, 9), _box(6, 6, 9, 9), _stamp(Fraction(15, 2))]
        for g in big:
            for h in partners + [g]:
                tb, fb = rng.choice([("1/4", "1/2"), ("1/2", "1/4"), ("1", "2")])
                yield {"g1": g, "g2": h, "tb": tb, "fb": fb, "mode": "grid"}
        yield {"g1": poly, "g2": mpoly, "tb": "1/4", "fb": "1/2", "mode": "grid"}
        if heavy or not big_n:
            yield {"g1": line, "g2": mpt, "tb": "1/4", "fb": "1/2", "mode": "grid"}


# fixed samples, one per type, with the features a sibling branch could mishandle: a line with a bend at its latest
# time (the buffered extent then depends on the frequency buffer: seeded C06-8), a polygon and a multipolygon part
# with a hole, singleton multi-geometries
_SAMPLES = {
    "TimeStamp": [_stamp(Fraction(5, 4))],
    "TimeInterval": [_interval(1, Fraction(9, 4))],
    "Point": [{"type": "Point", "coordinates": ["3/2", "2"]}],
    "LineString": [{"type": "LineString", "coordinates": [["1", "1"], ["2", "2"], ["3/2", "3"]]},
                   {"type": "LineString", "coordinates": [["3/4", "3"], ["7/4", "5/2"]]}],
    "Polygon": [{"type": "Polygon", "coordinates": [[["1/2", "1/2"], ["3", "1/2"], ["3", "3"], ["1/2", "3"], ["1/2", "1/2"]],
                                                    [["1", "1"], ["1", "2"], ["2", "2"], ["2", "1"], ["1", "1"]]]}],
    "BoundingBox": [_box(1, 1, 2, Fraction(5, 2))],
    "MultiPoint": [{"type": "MultiPoint", "coordinates": [["3/2", "2"]]},
                   {"type": "MultiPoint", "coordinates": [["1", "1"], ["2", "5/2"], ["5/4", "3"]]}],
    "MultiLineString": [{"type": "MultiLineString", "coordinates": [[["1", "1"], ["2", "2"], ["3/2", "3"]]]},
                        {"type": "MultiLineString", "coordinates": [[["1", "1"], ["2", "3/2"]], [["5/4", "3"], ["9/4", "7/2"], ["2", "4"]]]}],
    "MultiPolygon": [{"type": "MultiPolygon", "coordinates": [
        [[["1/2", "1/2"], ["3/2", "1/2"], ["3/2", "3"], ["1/2", "3"], ["1/2", "1/2"]]],
        [[["2", "1/2"], ["7/2", "1/2"], ["7/2", "3"], ["2", "3"], ["2", "1/2"]],
         [["5/2", "1"], ["5/2", "2"], ["3", "2"], ["3", "1"], ["5/2", "1"]]]]}],
}


def _option_product_cases(rng, thorough):
    """the product of the two options with every ordered type pair (and the sibling samples of every type): every
    time buffer with every frequency buffer, small against large, zero where the quantifier allows it"""
    bufs = ["1/8", "2"] if not thorough else ["1/8", "1", "4"]
    for t1 in gen_geom.TYPES:
        for t2 in gen_geom.TYPES:
            low = t1 in LOW_DIM or t2 in LOW_DIM
            combos = [(a, b) for a in bufs for b in bufs] + ([] if low else [("0", "2"), ("2", "0")])
            for g1 in _SAMPLES[t1]:
                for g2 in _SAMPLES[t2]:
                    for tb, fb in (combos if thorough else rng.sample(combos, min(3, len(combos)))):
                        yield {"g1": g1, "g2": g2, "tb": tb, "fb": fb, "mode": "grid"}


# ---------------------------------------------------------------- follow-up (wave 6): the scale of the buffers
# microsecond-scale and smaller buffers (ultrasonic click timing), strictly positive and at or above 2e-9: the shapely
# pipeline replaces a ZERO buffer by the factor 1e9 (an effective buffer of 1e-9), so a positive buffer below 1e-9 acts
# smaller than a zero buffer (known finding C11-zero-vs-tiny-buffer) - not exercised; every case below keeps
# coordinate / buffer below 1e9 (`_buffer_regime`), i.e. inside what the hypotheses of the band theorem cover.  1e-6,
# 2^-20 and 1e-7 sit at / next to round thresholds an implementation could introduce (seeded C06-15: `<= 1e-6`)
TINY_BUFFERS = (5e-7, 1e-6, 2e-6, 1e-7, 2.0 ** -20, 2.0 ** -28, 2e-9, 1e-3)
HUGE_BUFFERS = (1e3, 1e4, 1e5)


def _scale_geoms(T, F, u, v, d):
    """the four GEOS-buffered types and the closed-form sibling at time T, frequency F; multi-geometries and lines
    span `d` seconds (d = 2 tb for tiny buffers, tb / 1000 for huge ones: below C11's buffer / extent ratio of 1e4)"""
    def p(t, f):
        return [rat(float(t)), rat(float(f))]
    return [
        {"type": "Point", "coordinates": p(T, F)},
        {"type": "MultiPoint", "coordinates": [p(T, F), p(T + d, F + 3 * v)]},
        {"type": "LineString", "coordinates": [p(T, F), p(T + d, F)]},
        {"type": "LineString", "coordinates": [p(T, F), p(T + d, F + 3 * v)]},
        {"type": "MultiLineString", "coordinates": [[p(T, F), p(T + d / 2, F + v)], [p(T + d / 4, F + 2 * v), p(T + d, F + 2 * v)]]},
        {"type": "TimeStamp", "coordinates": rat(float(T))},
    ]


def _scale_partners(g, u, v, F, kind):
    """`time`: time-only partners inside / straddling / outside / around the buffered extent [s - tb, e + tb] of `g`
    (within a few buffer widths `u`); `area`: area-branch partners of the size of the buffered shape, and `g` itself"""
    s, e = (float(x) for x in _raw_time_bounds(g))

    def iv(a, b):
        a = max(a, 0.0)
        return {"type": "TimeInterval", "coordinates": [rat(float(a)), rat(float(b))]}
    if kind == "time":
        return [iv(s - 0.9 * u, s - 0.2 * u), iv(s - 1.5 * u, s - 0.5 * u), iv(s - 3 * u, s - 2 * u), iv(e + 0.5 * u, e + 1.5 * u),
                iv(e + 2 * u, e + 3 * u), iv(s - 4 * u, e + 4 * u),
                {"type": "TimeStamp", "coordinates": rat(float(max(s - 1.5 * u, 0.0)))},
                {"type": "TimeStamp", "coordinates": rat(float(e + 2.5 * u))}]
    if g["type"] == "TimeStamp":
        return []
    return [{"type": "BoundingBox", "coordinates": [rat(float(max(s - 1.5 * u, 0.0))), rat(float(max(F - 1.5 * v, 0.0))),
                                                     rat(float(s + 0.5 * u)), rat(float(F + 0.5 * v))]},
            {"type": "Point", "coordinates": [rat(float(s + u / 2)), rat(float(F + v / 2))]},
            g]


def _stamp_rounds(c):
    """a TimeStamp side whose buffered ends are not binary64 numbers (the implementation rounds them)"""
    tb = frac(c["tb"])
    for g in (c["g1"], c["g2"]):
        if g["type"] == "TimeStamp":
            t = frac(g["coordinates"])
            if not (_is_float(t - tb) and _is_float(t + tb)):
                return True
    return False


def _buffer_scale_cases(thorough):
    """deterministic: buffers of 2e-9 ... 1e-3 (seconds and / or hertz) and of 1e3 ... 1e5 with geometries placed
    within a few buffer widths of their partner - the time-branch band monitor (`extentWithin` / `bufferedTimeBand`,
    ideal extent from the coordinates), the contracts on the buffered shape and the area branch all see a buffer that
    is silently replaced, floored, capped or rounded at either end of the scale"""
    T = 0.25
    combos = []
    for i, b in enumerate(TINY_BUFFERS):
        combos.append((b, 10.0, T, 40000.0))                               # tiny time buffer, ordinary frequency buffer
        combos.append((0.01, b, T, min(40000.0, b * 2.0 ** 26)))           # ordinary time buffer, tiny frequency buffer
        if thorough or i % 3 == 0:
            combos.append((b, b, T, b * 2.0 ** 26))                        # both tiny (frequency / buffer = 2^26 < 1e9)
    seen = set()

    def emit(g, h, tb, fb):
        c = {"g1": g, "g2": h, "tb": rat(tb), "fb": rat(fb), "mode": "free"}
        if jkey(c) not in seen and _wf(g) and _wf(h):
            seen.add(jkey(c))
            return [c]
        return []
    # time branch: at a quarter of a second (time / buffer up to 1.25e8: the ends of the buffered extent are binary64
    # numbers 2^-54 apart, far below every buffer).  Area branch: GEOS overlays the buffered shapes in unscaled
    # coordinates, so its noise relative to the shape is 2^-53 x coordinate / buffer; the contracts `Sound` and the
    # comparison hold to 2^-40 only while that ratio is a few hundred (observed at ratio 5e5: I exceeds min(A1, A2) by
    # 1e-11 relative) - the area cases sit at 64 buffers on both axes
    for tb, fb, T0, F in combos:
        for g in _scale_geoms(T0, F, tb, fb, 2 * tb):
            for h in _scale_partners(g, tb, fb, F, "time"):
                yield from emit(g, h, tb, fb)
        for g in _scale_geoms(64 * tb, 64 * fb, tb, fb, 2 * tb):
            for h in _scale_partners(g, tb, fb, 64 * fb, "area"):
                yield from emit(g, h, tb, fb)
    # buffers of a quarter of an hour to a day, far larger than the geometry (a point has no extent; lines and
    # multi-geometries span tb / 1000, below C11's buffer / extent ratio of 1e4 - known finding C11-huge-buffer-ratio
    # stays excluded by `_buffer_regime`): away from time 0 and clamped at it
    for tb in HUGE_BUFFERS:
        for fb in ((100.0,) if not thorough else (100.0, 1e4)):
            for T0 in (3 * tb, tb / 2):
                F = 64 * fb
                for g in _scale_geoms(T0, F, tb, fb, tb / 1000):
                    if g["type"] == "LineString" and not thorough and g["coordinates"][0][1] != g["coordinates"][1][1]:
                        continue
                    for kind in ("time", "area"):
                        for h in _scale_partners(g, tb, fb, F, kind):
                            yield from emit(g, h, tb, fb)


def _call_cases(rng, reps):
    """every ordered type pair through the other ways of calling compute_affinity (positional, mixed, all keywords,
    omitted buffers) x ways of building the geometries x kinds of numbers for the buffers; pairwise: every style
    with every construction path and every number kind at least once"""
    styles = list(P.STYLES)
    pairs = [(t1, t2) for t1 in gen_geom.TYPES for t2 in gen_geom.TYPES]
    n = 0
    for _ in range(reps):
        for t1, t2 in pairs:
            style = styles[n % len(styles)]
            pos, kw = P.STYLES[style]
            defaults = "tb" not in pos + kw or "fb" not in pos + kw
            integer = (not defaults) and n % 5 == 0
            if integer:
                g1, g2 = _valid(rng, t1, tmax=6, fmax=6, k=0), _valid(rng, t2, tmax=6, fmax=6, k=0)
                tb, fb = rng.choice([("1", "2"), ("2", "1"), ("1", "1"), ("4", "2")])
                mode = "grid"
            elif defaults:
                g1, g2 = _free_geom(rng, t1), _free_geom(rng, t2)
                tb, fb = rng.choice([(rat(0.01), rat(100.0)), (rat(0.05), rat(33.3)), ("1/8", "1/2"), (rat(1.5), rat(250.0))])
                mode = "free"       # an omitted buffer is the declared default (0.01 s is not on the grid)
            else:
                g1, g2 = _grid_geom(rng, t1), _grid_geom(rng, t2)
                tb, fb = _bufs(rng, g1, g2, "grid")
                if frac(tb) == 0 or frac(fb) == 0:
                    tb, fb = "1/4", "1/2"
                mode = "grid"
            builds = []
            for j, g in enumerate((g1, g2)):
                b = P.BUILDS[(n * 7 + j * 5 + (n // len(styles))) % len(P.BUILDS)]
                if integer and (n // 5 + j) % 2 == 0:
                    b = "ctor_int"
                builds.append(b if P.build_ok(g, b) else "ctor")
            nums = []
            for j, x in enumerate((tb, fb)):
                kd = P.NUMS[(n * 3 + j + (n // len(styles))) % len(P.NUMS)]
                nums.append(kd if P.num_ok(x, kd) and (kd != "np32" or mode == "grid") else "float")
            yield {"g1": g1, "g2": g2, "tb": tb, "fb": fb, "mode": mode, "style": style, "pos": list(pos), "kw": list(kw),
                   "build": builds, "num": nums}
            n += 1


def _history_cases(ctx, n):
    rng = ctx.rng
    base = list(_pair_cases(rng, 1, "grid")) + list(_pair_cases(rng, 1, "grid"))
    base += [c for c in _pair_cases(rng, 1, "free")][::3]
    rng.shuffle(base)
    hs = history.sequences(rng, base, n, variants=_h_variants, reuse_hows=H_REUSE, length=(3, 5))
    for h in hs:
        for st in h["seq"]:
            ctx.tally("history:" + (st.get("reuse") or "fresh"))
    return hs


# ---------------------------------------------------------------- run / search
def _correspondence(ctx):
    _run_pairs(ctx, list(_exhaustive_closed(ctx.thorough())))
    _run_pairs(ctx, list(_tiny_overlap_cases()))
    _run_pairs(ctx, list(_full_band_cases(ctx.rng, ctx.budget(4, 30))))
    ctx.exhaustive["closed forms"] = ("all interval x interval, time stamp x interval (4 buffers), time stamp x time stamp, "
                                      "box x box and box x interval placements on a half-second / 1 Hz grid")
    _run_pairs(ctx, list(_pair_cases(ctx.rng, ctx.budget(16, 120), "grid")))
    _run_pairs(ctx, list(_boundary_geos(ctx.rng, ctx.budget(60, 600))))
    _run_pairs(ctx, list(_self_cases(ctx.rng, ctx.budget(30, 300), "grid")))


def _free_mode(ctx):
    pairs = list(_pair_cases(ctx.rng, ctx.budget(10, 80), "free"))
    selfs = list(_self_cases(ctx.rng, ctx.budget(80, 800), "free"))
    _run_pairs(ctx, pairs)
    _run_pairs(ctx, selfs)
    # the same observations against the binary64 evaluation of the model, bit for bit
    ctx.run_cases(OPS["affinity_bits"], pairs + selfs[:ctx.budget(240, 2400)] + list(_tiny_overlap_cases())
                  + [c for c in _magnitude_boundary_cases() if c["g1"]["type"] != "Point" and c["g2"]["type"] != "Point"])


def _rnd64_contract(ctx):
    """the driver's `rnd64` is binary64 round-to-nearest-even: compared with Python's correctly rounded
    `float(Fraction)` on random rationals, sums / differences / quotients of floats and exact ties"""
    rng = ctx.rng
    xs = []
    for _ in range(ctx.budget(150, 1500)):
        a, b = rng.uniform(0, 10), rng.uniform(1e-3, 5000)
        xs += [Fraction(a) + Fraction(b), Fraction(a) - Fraction(b), Fraction(a) / Fraction(b),
               Fraction(rng.randint(-10 ** 6, 10 ** 6), rng.randint(1, 10 ** 6))]
    xs += [Fraction(2 ** 53 + 1, 2 ** 60), Fraction(2 ** 53 + 3, 2 ** 60), Fraction(-(2 ** 53 + 1), 2 ** 10), Fraction(1),
           Fraction(0), Fraction(1, 3), Fraction(5_000_000)]
    outs = ctx.model_many("rnd64", [{"x": rat(x)} for x in xs])
    for x, mo in zip(xs, outs):
        ctx.contract("rnd64 = binary64 round-to-nearest-even (against float(Fraction))",
                     frac(mo["val"]) == Fraction(float(x)), None, {"x": rat(x), "rnd64": mo["val"]})


def _shifts(ctx):
    ctx.run_cases(OPS["shift"], list(_shift_cases(ctx.rng, ctx.budget(5, 40))))


def _corpus(ctx):
    ctx.run_corpus(OPS)


def _near_identical(ctx):
    _run_pairs(ctx, list(_near_identical_cases(ctx.rng, ctx.budget(4, 24))))
    # ... and the range clause alone on many more pairs that go through GEOS (a ratio above 1 shows on a few per cent)
    ctx.run_cases(OPS["affinity_range"], list(_near_identical_cases(ctx.rng, ctx.budget(35, 300), GEOS_NEAR, NEAR_KINDS)))


def _boundaries(ctx):
    _run_pairs(ctx, list(_magnitude_boundary_cases()))
    _run_pairs(ctx, list(_size_cases(ctx.rng, (17, 257, 1024, 1025) if ctx.thorough() else (17, 257, 1025), heavy=ctx.thorough())))
    ctx.exhaustive["option product"] = ("every ordered type pair (fixed samples per type incl. a line with a bend at its latest time, "
                                        "holes, singleton multi-geometries) x time buffer x frequency buffer in {1/8, 2} (quick: 3 of the "
                                        "combinations per pair; thorough: {1/8, 1, 4}^2 and a zero buffer on either axis)")
    _run_pairs(ctx, list(_option_product_cases(ctx.rng, ctx.thorough())))
    scale = list(_buffer_scale_cases(ctx.thorough()))
    ctx.exhaustive["buffer scale"] = ("time / frequency buffers 5e-7, 1e-6, 2e-6, 1e-7, 2^-20, 2^-28, 2e-9, 1e-3 (each axis alone and both) and "
                                      "1e3, 1e4, 1e5 s x Point, MultiPoint, 2 LineStrings, MultiLineString, TimeStamp x partners inside / "
                                      "straddling / outside / around the buffered extent within a few buffer widths, a box, a point, itself")
    for c in scale:
        ctx.tally("buffer scale: " + ("tiny" if min(frac(c["tb"]), frac(c["fb"])) <= Fraction(1, 1000) else "huge") + " buffer cases")
    # a TimeStamp whose buffered ends t - tb, t + tb are not binary64 numbers is rounded by any floating-point
    # implementation: against an extent of a few microseconds that is 1e-11 of the ratio, above the tolerance of the
    # exact model.  Such pairs are compared bit for bit with the binary64 evaluation of the model instead
    _run_pairs(ctx, [c for c in scale if not _stamp_rounds(c)])
    ctx.run_cases(OPS["affinity_bits"], [c for c in scale if _stamp_rounds(c)])


def _calls(ctx):
    cases = list(_call_cases(ctx.rng, ctx.budget(3, 8)))
    for c in cases:
        ctx.tally("call style:" + c["style"])
        for b in c["build"]:
            ctx.tally("built:" + b)
        for k in c["num"]:
            ctx.tally("buffer passed as:" + k)
    ctx.run_cases(OPS["affinity_call"], cases)


def _histories(ctx):
    ctx.run_cases(OPS["affinity_history"], _history_cases(ctx, ctx.budget(120, 600)))


def _bounds_contract(ctx):
    """contract BoundsExact (hypothesis of C06_time_only_closed_form, and what the route traces put in place of
    `shp.bounds` for a TimeStamp / TimeInterval / BoundingBox): `compute_bounds(g)` is the coordinate-wise
    minimum / maximum `Geom.bounds g` — exactly, for all nine types, on grid and arbitrary binary64 coordinates"""
    from soundevent.geometry import compute_bounds
    n = ctx.budget(12, 60)
    geoms = [gen(ctx.rng, ty) for ty in gen_geom.TYPES for gen in (_grid_geom, _free_geom) for _ in range(n)]
    mos = ctx.model_many("bounds", [{"g": g} for g in geoms])
    for g, mo in zip(geoms, mos):
        try:
            got = [rat(float(x)) for x in compute_bounds(gen_geom.to_data(g))]
        except Exception as e:  # noqa: BLE001
            got = repr(e)[:200]
        ok = "val" in mo and isinstance(got, list) and [frac(x) for x in got] == [frac(x) for x in mo["val"]]
        ctx.contract("BoundsExact: compute_bounds = min / max of the coordinates (exact; all nine types)", ok,
                     {"g1": g, "g2": g, "tb": "1/4", "fb": "1/2", "mode": "grid"}, {"bounds": got, "model": mo})


def run(ctx):
    global _CTX
    _CTX = ctx
    _CACHE.clear()
    _IMPL_SEEN.clear()
    _SIG.clear()
    ctx.stage("tables", _tables, ctx)
    ctx.stage("signature", _signature_tie, ctx)
    ctx.stage("symbolic-ties", _symbolic_ties, ctx)
    ctx.stage("symbolic-ties (rounding arithmetic)", _rounded_ties, ctx)
    ctx.stage("symbolic-ties (closed-form buffers)", _buffer_ties, ctx)
    ctx.stage("symbolic-ties (routes of all 81 type pairs)", _route_ties, ctx)
    ctx.stage("discharge", ctx.discharge, ["SoundeventModel.Affinity", "SoundeventModel.AffinityCall", "SoundeventModel.Ops.C06", "SoundeventModel.Tactics"])
    ctx.stage("corpus", _corpus, ctx)
    ctx.stage("bounds contract", _bounds_contract, ctx)
    ctx.stage("correspondence on grids", _correspondence, ctx)
    ctx.stage("rnd64 contract", _rnd64_contract, ctx)
    ctx.stage("free mode", _free_mode, ctx)
    ctx.stage("shift", _shifts, ctx)
    ctx.stage("near-identical pairs", _near_identical, ctx)
    ctx.stage("boundaries, sizes, option product", _boundaries, ctx)
    ctx.stage("call styles and construction paths", _calls, ctx)
    ctx.stage("histories", _histories, ctx)


def search(ctx, failures):
    """a tie, a contract or the correspondence broke: every type pair again, wider, and let the monitor judge"""
    ctx.stage("search: closed forms", lambda: _run_pairs(ctx, list(_exhaustive_closed(True))))
    ctx.stage("search: tiny overlaps", lambda: _run_pairs(ctx, list(_tiny_overlap_cases())))
    ctx.stage("search: full-band boxes", lambda: _run_pairs(ctx, list(_full_band_cases(ctx.rng, 6))))
    ctx.stage("search: grid pairs", lambda: _run_pairs(ctx, list(_pair_cases(ctx.rng, 10, "grid"))))
    ctx.stage("search: self pairs", lambda: _run_pairs(ctx, list(_self_cases(ctx.rng, 40, "grid"))))
    ctx.stage("search: free pairs", lambda: _run_pairs(ctx, list(_pair_cases(ctx.rng, 4, "free"))))
    ctx.stage("search: free self pairs", lambda: _run_pairs(ctx, list(_self_cases(ctx.rng, 60, "free"))))
    ctx.stage("search: shifts", lambda: ctx.run_cases(OPS["shift"], list(_shift_cases(ctx.rng, 3))))
    ctx.stage("search: near-identical pairs", lambda: ctx.run_cases(
        OPS["affinity_range"], list(_near_identical_cases(ctx.rng, 150, GEOS_NEAR, NEAR_KINDS))))
    ctx.stage("search: boundaries at magnitudes", lambda: _run_pairs(ctx, list(_magnitude_boundary_cases())))
    ctx.stage("search: buffer scale", lambda: _run_pairs(ctx, [c for c in _buffer_scale_cases(False) if not _stamp_rounds(c)]))
    ctx.stage("search: call styles", lambda: ctx.run_cases(OPS["affinity_call"], list(_call_cases(ctx.rng, 3))))
    ctx.stage("search: histories", lambda: ctx.run_cases(OPS["affinity_history"], _history_cases(ctx, 120)))
