"""C19 — Tag encoding projects faithfully onto the vocabulary; equal objects hash equally."""
import datetime
import enum
import itertools
import math
import pathlib
import struct
import uuid as _uuid
from fractions import Fraction

from .. import history
from ..core import Op, jkey
from ..rat import rat

PROPERTY = "C19"
LEAN_MODULE = "Proofs.C19"
_T = "SE.Proofs.C19."
THEOREMS = [_T + n for n in [
    "C19_encode_last", "C19_encode_iff", "C19_encode_none", "C19_encode_eq_search", "C19_search_first",
    "C19_encode_lt", "C19_decode_encode", "C19_encode_decode", "C19_key_faithful",
    "C19_first_in_vocab", "C19_first_in_vocab_iff", "C19_classification_none",
    "C19_multilabel_length", "C19_indicator_general", "C19_indicator",
    "C19_prediction_length", "C19_scores", "C19_scores_unique", "C19_scores_mem",
    "C19_oov_irrelevant_classification", "C19_oov_irrelevant_multilabel", "C19_oov_irrelevant_prediction",
    "C19_oov_irrelevant",
    "C19_holds_classification", "C19_holds_multilabel", "C19_holds_prediction", "C19_holds_prediction_determines",
    "C19_eq_structural", "C19_hash_respects_eq", "C19_hash_reads_fields", "C19_hash_table",
    "C19_hash_respects_eq_tag",
    # review additions
    "C19_generic_classification", "C19_generic_fill_error_iff", "C19_generic_fill_get", "C19_generic_multilabel",
    "C19_generic_skip", "C19_simple_is_generic", "C19_decodeI_nonneg", "C19_decodeI_neg", "C19_decodeI_none_iff",
    "C19_find_by_term", "C19_find_by_label", "C19_find_by_error_iff", "C19_find_by_first",
    "C19_key_of_term_from_key", "C19_term_from_key_inj", "C19_tag_init", "C19_feature_init",
    "C19_key_tags_faithful", "C19_key_vocab_nodup",
    "C19_hashdict_sound", "C19_hashdict_needs_contract", "C19_encoder_on_hash_table",
    "C19_pyeq_canonical", "C19_pyeq_equivalence", "C19_pyhash_respects_eq", "C19_pyhash_reads_only",
    # follow-up 3: construction paths and histories
    "C19_extras_eq_iff_perm", "C19_extras_canonical", "C19_term_paths", "C19_order_hash_breaks",
    "C19_call_binding", "C19_find_call_styles",
    "C19_history_cache_sound", "C19_history_cache_stale", "C19_history_hash_now", "C19_history_hash_stale",
    # follow-up (wave 5): object identities
    "C19_identity_lookup_sound", "C19_identity_lookup_breaks"]]
LEVEL_TEXT = ("Lean theorems over a model of the encoder as the Python dict it is (insertion-ordered association list, "
              "later equal key overwrites; proved equal to a hash table that compares hashes first whenever ==-equal keys "
              "hash equally): for duplicate-free vocabularies encode = i iff the tag is the i-th vocabulary "
              "tag, = none iff it is absent, equals the linear search for the first equal element, decode/encode are "
              "inverse, decode follows the list index rule for every Python integer; classification = encoding of the "
              "first in-vocabulary tag; multilabel = indicator vector; "
              "prediction = stored score of the last prediction of each vocabulary tag (0 if none); deleting "
              "out-of-vocabulary tags changes no result; the same three functions over any Encoder (the Protocol: "
              "many-to-one tables, numpy's index rule, IndexError iff an index is outside [-n, n)) with SimpleEncoder "
              "proved an instance; find_tag / find_feature (term before label, first match, default, ValueError) and the "
              "deprecated key= / name= construction path (term wins, term_from_key injective, key-built tags equal and "
              "hash as their term-built twins); modelled == is structural equality, Python == on raw values (1 == 1.0, "
              "0.0 == -0.0) is equality of canonical trees and an equivalence, and for any primitive hash functions "
              "obeying the numeric hash invariant and any table of hashed fields, == implies equal hashes. Model tied to "
              "the code by exhaustive small vocabularies x tag lists on the real dict-based encoder (exact), every small "
              "user-defined encoder table x tag list, all pairs of one-field perturbations of the eight hashable classes "
              "(== against the model, a == b => hash(a) == hash(b) on the real objects, also for objects holding unvalidated "
              "ints / signed zeros), regenerated field tables, and the hand-written __hash__ methods run on opaque "
              "field values (what they hash, for all values) with the hash theorem instantiated on the extracted table. "
              "Follow-up 3: the extras of a Term are modelled as the insertion-ordered dict they are (dict == is equality of "
              "the key-sorted items, so two terms built through any path / order are == iff their canonical model terms "
              "are equal, then hash alike and are found by the encoder; a hash folding the extras in insertion order breaks "
              "this), Python's call binding with the documented parameter order of find_tag / find_feature / the encodings "
              "as regenerated tables (positional call = keyword call in any order), and histories: a memo table keyed by "
              "the full input is invisible while one keyed by a part answers a neighbour wrongly, an object that drops its "
              "memoised hash on every change hashes as its content now while cached_property-style memos go stale. Tied by "
              "all ordered pairs of construction recipes per hashable class (constructor, model_validate, JSON, copies, "
              "extras in every order, explicit None), histories of calls on shared / reused / changed objects judged step "
              "by step by the pure model, size thresholds and float32 store boundaries. Follow-up (wave 5): object identities - "
              "an encoder that recognises a term by id() first and then consults only the values registered under that object "
              "is the encoder whenever 'same object as the probe's term' and 'equal term content' coincide on the vocabulary, and answers none for the tag on "
              "the term object of vocabulary tag 0 with the value of tag 1 when equal terms are separate objects; tied by laying "
              "out, for vocabularies over equal terms, every combination of shared / separate term objects with the probe's term "
              "object fresh / the equal vocabulary tag's / another vocabulary tag's and the probe a new Tag / a "
              "model_copy(update) / the vocabulary's own object / a shallow copy / a subclass instance (same expected answer, "
              "the model being about content).")
LEVEL_NOTE = ("Trusted: Lean kernel; CPython dict/tuple/str/float/UUID hashing and equality (probing order of dict "
              "abstracted: every entry with the probe's hash is compared); pydantic BaseModel.__eq__ is "
              "observed, not modelled from source; numpy float32 store (its value is computed by the harness with "
              "struct and handed to the model) and numpy / list index rule (monitored as contracts). Unmodelled: "
              "vocabularies with repeated tags (outside the quantifier; "
              "the model covers them, the check does not compare them), NaN feature values (PyVal floats are finite), "
              "hash traces cannot see id()/type() of a field value (identity dependence is observed on two instances); a "
              "vocabulary list or vocabulary tag objects changed by the caller while an encoder built on them is alive "
              "(SimpleEncoder keeps the caller's sequence: decode follows it, encode the snapshot; noted, not compared); "
              "model_construct; subclasses of Tag that add fields (a subclass that adds nothing is generated and is expected to "
              "be encoded like the Tag of the same term and value, which is what the (term, value) key does, although "
              "pydantic's == between the two classes is False). "
              "Model tied to the code by regenerated obligations and generator-bounded correspondence.")
TECHNIQUE = ("Lean 4 proof over model (dict as association list = hash table under the contract, fill loops over any "
             "encoder with numpy's index rule, find_tag, key= path, raw Python values and parametric hashes); field tables "
             "regenerated by introspection and one-field perturbation; __hash__ methods executed on opaque leaves (tie 1b) "
             "and the hash theorem instantiated on the extracted table; exhaustive small-scope correspondence on the real "
             "encoder and on user-defined encoders; eq/hash monitor on the real classes; purity / list-vs-tuple / reuse "
             "probes on every call; construction-path products (RawTerm model of the extras), call styles against the "
             "documented signatures (bindCall), histories through harness/history.py judged per step by the pure model "
             "(memo-table and memoised-hash theorems), size-threshold and float32-boundary sweeps; object-identity layouts "
             "(which Term / Tag objects carry the content) on the encoder and the three encodings, judged by the content model")
RULE = ("exhaustive vocabularies (<= 4 distinct tags) x tag / predicted-tag lists over an adversarial pool (terms sharing "
        "name or label, optional-field and extra-field variants, empty values, case / blank / Unicode-composition variants "
        "of values), random longer ones, every encoder table of 3 tags into {skip, 0..K-1} (K <= 2) x tag lists, all "
        "ordered pairs of one-field perturbations per hashable class, raw int/float/signed-zero variants reached by "
        "model_copy(update) / setattr / model_construct; non-trivial = some tag was encoded / the vector is non-zero / the "
        "pair compares equal or differs in exactly one field / a tag was found; distinct = distinct (operation, input); "
        "follow-up 3: per hashable class all ordered pairs of construction recipes (constructor in both keyword orders, "
        "model_validate of objects / plain data, model_validate_json, extras via model_copy(update), explicit None, copy / "
        "deepcopy / pickle / model_copy shallow and deep of a hashed object; the extras of every term in every order) on the "
        "base object and on one with 2-3 extras, pool neighbours through random recipes, all ordered pairs of 29 extras "
        "item lists x 4 ways (extras_eq); histories (3-5 steps: x, a neighbour of x, x again; fresh / reused objects changed by "
        "assignment, model_copy(update) shallow and deep, copy.copy + assignment, the same list refilled; returned arrays "
        "poisoned; earlier results read again at the end) for the encoder, the three encodings, find_tag, find_feature; "
        "vocabularies and lists of 15..17 / 255..257 / 1023..1025 elements; float32 ties, denormals and their binary64 "
        "neighbours; scores as int / bool / numpy scalars; vocabularies as list / tuple / deque / object array / user "
        "Sequence; keyword, positional and mixed calls; encoders whose num_classes is an instance / class attribute, a "
        "property, a slot, a namedtuple or dataclass field; one uuid shared across kinds; follow-up (wave 5): every vocabulary "
        "of <= 2 (<= 3 thorough) of 8 tags over 4 terms x 45 identity patterns (equal terms shared / separate / mixed x probe "
        "term object fresh / own / another tag's x probe new / model_copy(update) / same object / copy / subclass), the "
        "class of the vocabulary tags cycling over Tag / subclass / mixed, and random vocabularies x lists with a pattern "
        "chosen independently per element for classification / multilabel / prediction; realised identities tallied; "
        "follow-up (wave 6): fully populated terms (every declared field non-None, two extras) with one field changed / "
        "emptied / dropped, as Term, in Tag / Feature and inside the uuid-hashed classes, all ordered pairs one field apart")
TRUSTED = ["CPython dict, tuple, str, float and UUID hashing/equality",
           "pydantic-core construction of the data objects (observed through __dict__ / __pydantic_extra__)",
           "numpy float32 assignment (value recomputed with struct.pack('f') and monitored as a contract)",
           "numpy / list / tuple index rule (normIdx; monitored as a contract on the libraries themselves)",
           "CPython numeric hash invariant hash(n) == hash(float(n)) (hypothesis of C19_pyhash_respects_eq; monitored)"]
ASSUMPTIONS = ["the walk of an object (class name, declared fields in order, extra fields) captures everything "
               "pydantic's __eq__ compares (no private attributes in soundevent.data: monitored by the table obligation)",
               "string / UUID hashes of the distinct perturbation values differ (2^-64 collision probability)",
               "a __hash__ that runs on opaque leaves (no ==, bool, str, len, ordering of a field value) treats real "
               "field values the same way (no branching on id()/type(), which a leaf cannot intercept)",
               "the keys of a term's extras are distinct (a Python dict) and Python's sorted() orders str keys by code point as "
               "Lean's String order does (the model checks `canon_is_sent` on every extras_eq case)",
               "oracle independence: every expected value is a reply of the Lean model or a relation between two observations "
               "the property states (== => same hash, encoder follows ==); `from soundevent` imports are constructors, the "
               "functions under test, and introspection for the regenerated tables"]
NOT_COMPARED = ["vocabularies with repeated tags (the property quantifies over distinct tags; dict keeps the last index)",
                "a vocabulary sequence / vocabulary tag objects changed by the caller while the encoder built on them is alive: "
                "SimpleEncoder keeps the caller's sequence (decode reads it, encode the dictionary built at creation); in "
                "histories decode is read once, right after creation",
                "construction paths that do not reproduce the content (the library's validation changed it): skipped and tallied",
                "prediction vectors when one vocabulary tag (one index) is predicted with two different scores: only "
                "`holdsPrediction` (entry is one of that tag's scores) is required there",
                "encoder indices outside [0, n) and decode outside [0, n): compared (numpy / list index rule) but not fixed "
                "by the property - a disagreement is a broken correspondence, not by itself a violation",
                "error messages; hash values themselves (only their equality); dtype of the multilabel vector",
                "pydantic's == between a Tag and an instance of a subclass of Tag with the same term and value (False): the "
                "encoder is expected to treat them alike (content), as its (term, value) key does"]

# ------------------------------------------------------------------ descriptors <-> real objects
TERM_FIELDS = ["label", "definition", "name", "uri", "type_of_term", "comment", "see", "subproperty_of",
               "subclass_of", "domain", "domain_includes", "term_range", "range_includes", "member_of",
               "instance_of", "equivalent_property", "description", "scope_note"]
HASHED = ["ClipPrediction", "Feature", "Note", "SoundEvent", "SoundEventAnnotation", "SoundEventPrediction",
          "Tag", "Term"]
_CACHE = {}


def term_desc(label, name, definition="d", type_of_term="property", extra=None, **opt):
    d = {"label": label, "definition": definition, "name": name, "type_of_term": type_of_term}
    for k, v in opt.items():
        assert k in TERM_FIELDS
        if v is not None:
            d[k] = v
    d["extra"] = sorted([k, v] for k, v in (extra or {}).items())
    return d


_BY_ID = {}           # (kind, id(descriptor)) -> (descriptor, object): the pool descriptors are shared dict objects


def _by_id(kind, d, make):
    e = _BY_ID.get((kind, id(d)))
    if e is not None and e[0] is d:
        return e[1]
    o = make(d)
    _BY_ID[(kind, id(d))] = (d, o)
    return o


def _new_term(d):
    from soundevent import data
    kw = {}
    for f, v in d.items():
        if f == "extra":
            continue
        fi = data.Term.model_fields[f]
        kw[fi.alias or f] = v
    for ek, ev in d["extra"]:
        kw[ek] = ev
    return data.Term(**kw)


def mk_term(d):
    return _by_id("T", d, _new_term)


def _new_tag(d):
    # a fresh Term object per tag: equality must not lean on identity
    from soundevent import data
    return data.Tag(term=_new_term(d["term"]), value=d["value"])


def mk_tag(d):
    return _by_id("G", d, _new_tag)


def tag_to_desc(tag):
    """real Tag -> descriptor (reads the fields, never __eq__)"""
    t = tag.term
    d = {}
    for f in type(t).model_fields:
        v = getattr(t, f)
        if v is not None:
            d[f] = v
    d["extra"] = sorted([k, v] for k, v in (t.__pydantic_extra__ or {}).items())
    return {"term": d, "value": tag.value}


def walk(x):
    """real object -> value tree of the model (class, declared fields, extras); never calls __eq__/__hash__"""
    from pydantic import BaseModel
    if x is None:
        return None
    if isinstance(x, bool):
        return x
    if isinstance(x, enum.Enum):
        return walk(x.value)
    if isinstance(x, float) and x == 0 and math.copysign(1.0, x) < 0:
        return {"q": "0", "neg0": True}       # -0.0 == 0.0 in Python: the model sees 0, the constructor gets -0.0
    if isinstance(x, (int, float)):
        return {"q": rat(x)}
    if isinstance(x, str):
        return {"s": x}
    if isinstance(x, (_uuid.UUID, pathlib.PurePath)):
        return {"s": str(x)}
    if isinstance(x, (datetime.datetime, datetime.date, datetime.time)):
        return {"s": x.isoformat()}
    if isinstance(x, list):
        return {"l": [walk(y) for y in x]}
    if isinstance(x, tuple):
        return {"t": [walk(y) for y in x]}
    if isinstance(x, BaseModel):
        names = list(type(x).model_fields)
        vals = [walk(x.__dict__[n]) for n in names]
        extra = x.__pydantic_extra__ or {}
        for k in sorted(extra):
            names.append("+" + k)
            vals.append(walk(extra[k]))
        priv = getattr(x, "__pydantic_private__", None)
        if priv:
            raise RuntimeError("private attributes are not modelled: " + type(x).__name__)
        out = {"o": type(x).__name__, "n": names, "v": vals}
        omit = [n for n in type(x).model_fields if n not in x.model_fields_set]
        if omit:
            out["omit"] = omit      # fields left to their defaults at construction (the model ignores this)
        return out
    raise RuntimeError("cannot walk " + type(x).__name__)


def build(tree):
    """value tree -> real object through the real constructors"""
    from soundevent import data
    if tree is None or isinstance(tree, bool):
        return tree
    if "s" in tree:
        return tree["s"]
    if "q" in tree:
        if tree.get("neg0"):
            return -0.0
        f = Fraction(tree["q"])
        return int(f) if f.denominator == 1 else float(f)
    if "l" in tree:
        return [build(y) for y in tree["l"]]
    if "t" in tree:
        return tuple(build(y) for y in tree["t"])
    cls = getattr(data, tree["o"])
    kw = {}
    for n, v in zip(tree["n"], tree["v"]):
        if n in tree.get("omit", ()):
            continue
        if n.startswith("+"):
            kw[n[1:]] = build(v)
        else:
            kw[cls.model_fields[n].alias or n] = build(v)
    return cls(**kw)


# ------------------------------------------------------------------ the adversarial pools
T0 = term_desc("species", "dwc:species")
T1 = term_desc("Species", "dwc:species")                       # same name, other label
T2 = term_desc("species", "other:species")                     # same label, other name
T3 = term_desc("species", "dwc:species", uri="http://x/species")   # differs in one optional field only
T4 = term_desc("species", "dwc:species", extra={"note": "n"})      # differs in an extra field only
T5 = term_desc("colour", "a:colour", type_of_term="class", term_range="r")
T6 = term_desc("species", "dwc:species", definition="")           # falsy definition

CORE = [{"term": T0, "value": "dog"}, {"term": T1, "value": "dog"}, {"term": T2, "value": "dog"},
        {"term": T0, "value": "cat"}, {"term": T3, "value": "dog"}]
POOL = CORE + [{"term": T4, "value": "dog"}, {"term": T5, "value": ""}, {"term": T5, "value": "dog"},
               {"term": T0, "value": ""}, {"term": T6, "value": "dog"},
               # review: values that a "normalising" key would identify (case, blanks, Unicode composition)
               {"term": T0, "value": "Dog"}, {"term": T0, "value": "dog "},
               {"term": T0, "value": "caf\u00e9"}, {"term": T0, "value": "cafe\u0301"}]
SCORES = [0.0, 1.0, 0.25, 0.1, 1 / 3, 2.0 ** -30, 1 - 2.0 ** -53, 5e-324, 0.7]
# follow-up 3: the binary64 -> binary32 store at its boundaries: exact ties between two binary32 neighbours (round to
# even), one ulp of binary64 on either side of a tie, the smallest binary32 denormal and the tie below it, the
# binary32 value of 0.1 (another binary64 number that is stored like 0.1)
_T1 = 1 - 2.0 ** -25                      # tie between 1 - 2^-24 and 1.0 -> 1.0
_T2 = 0.5 + 2.0 ** -25                    # tie between 0.5 and 0.5 + 2^-24 -> 0.5
_T3 = 0.5 + 3 * 2.0 ** -25                # tie between 0.5 + 2^-24 and 0.5 + 2^-23 -> 0.5 + 2^-23
SCORES_EDGE = [_T1, math.nextafter(_T1, 0), math.nextafter(_T1, 2), 1 - 2.0 ** -24, _T2, math.nextafter(_T2, 0),
               math.nextafter(_T2, 1), _T3, math.nextafter(_T3, 0), math.nextafter(_T3, 1), 2.0 ** -149, 2.0 ** -150,
               math.nextafter(2.0 ** -150, 1), 3 * 2.0 ** -150, 2.0 ** -126, 2.0 ** -126 - 2.0 ** -150,
               struct.unpack("f", struct.pack("f", 0.1))[0], math.nextafter(0.1, 1), 1 - 2.0 ** -24 - 2.0 ** -26]


def f32(x):
    """binary32 value of a binary64 number, independent of numpy"""
    return struct.unpack("f", struct.pack("f", x))[0]


def pred_desc(tag, score):
    return {"tag": tag, "score": rat(score), "score32": rat(f32(score))}


# ------------------------------------------------------------------ implementations
def _salt(inp):
    """a small number that depends on the input only (replays make the same choices)"""
    n = 0
    for k in ("vocab", "tags", "preds", "features"):
        seq = inp.get(k, ())
        n += 5 * len(seq)
        for i, t in enumerate(seq):
            t = t.get("tag", t)
            tm = t["term"]
            n += (i + 1) * (len(t["value"]) + len(tm["label"]) + len(tm["name"]) + 3 * len(tm["extra"]) + len(tm))
    return n


class _Seq:
    """a user-defined collections.abc.Sequence (neither list nor tuple)"""

    def __init__(self, items):
        self._items = list(items)

    def __len__(self):
        return len(self._items)

    def __getitem__(self, i):
        return self._items[i]


import collections.abc as _abc  # noqa: E402
_abc.Sequence.register(_Seq)
CONTAINERS = ["list", "tuple", "deque", "ndarray", "sequence"]


def _container(items, k):
    """the same items in another kind of Sequence: list, tuple, deque, numpy object array, user-defined Sequence"""
    kind = CONTAINERS[k % len(CONTAINERS)]
    if kind == "list":
        return list(items)
    if kind == "tuple":
        return tuple(items)
    if kind == "deque":
        import collections
        return collections.deque(items)
    if kind == "ndarray":
        import numpy as np
        a = np.empty(len(items), dtype=object)
        for i, x in enumerate(items):
            a[i] = x
        return a
    return _Seq(items)


PATH_CYCLE = [{"via": "json", "k": 1}, {"via": "validate_plain", "k": 2}, {"via": "model_copy_deep", "k": 3, "from": "json"},
              {"via": "init_rev", "k": 4}, {"via": "pickle", "k": 5, "from": "validate_plain"}, {"via": "extras_update", "k": 1},
              {"via": "explicit_none", "k": 0}, {"via": "deepcopy", "k": 2, "from": "init_rev"}, {"via": "validate", "k": 5}]


def _tag_tree(d):
    return _by_id("W", d, lambda d: walk(_new_tag(d)))


def _tag_via(d, j):
    """an equal tag that came to exist in another way (from a JSON document, a validated dict, a deep copy of an
    object that was hashed, with the extras of its term in another order, ...); one object per (descriptor, way)"""
    j %= len(PATH_CYCLE)
    return _by_id("V%d" % j, d, lambda d: obtain(_tag_tree(d), PATH_CYCLE[j]))


def _vocab_objs(inp):
    s = _salt(inp)
    if s % 3 == 1:
        return [_tag_via(t, s + i) for i, t in enumerate(inp["vocab"])]
    return [mk_tag(t) for t in inp["vocab"]]


def _tag_objs(inp):
    """the tags of a classification / multilabel input; with "xk" the extras of their terms in the xk-th order"""
    if inp.get("xk"):
        return [_fresh_via(_tag_tree(t), "init", inp["xk"]) for t in inp["tags"]]
    return [mk_tag(t) for t in inp["tags"]]


def _encoder(inp):
    from soundevent.evaluation import encoding
    # the vocabulary is a Sequence: a list, a tuple, a deque, an object array, a user-defined Sequence
    return encoding.create_tag_encoder(_container(_vocab_objs(inp), _salt(inp)))


def _fresh_tag(d):
    """a tag object of its own (never the cached one), so that nothing can lean on identity"""
    return _new_tag(d)


def _impl_encoder(inp):
    from soundevent.evaluation import encoding
    if inp.get("ident"):
        return _impl_encoder_ident(inp)
    vocab = _vocab_objs(inp)
    snapshot = list(vocab)
    enc = encoding.create_tag_encoder(vocab)
    n = enc.num_classes
    first = [enc.encode(mk_tag(t)) for t in inp["tags"]]
    # the same encoder asked again: in reverse order, and about short-lived equal objects (whose addresses
    # CPython hands out again); a second encoder over a tuple of the same tags
    again = [enc.encode(mk_tag(t)) for t in reversed(inp["tags"])][::-1]
    temp = [enc.encode(_fresh_tag(t)) for t in inp["tags"]]
    other = [encoding.create_tag_encoder(tuple(snapshot)).encode(mk_tag(t)) for t in inp["tags"]]
    if not (first == again == temp == other):
        raise AssertionError("encode is not a function of the vocabulary and the tag: %r %r %r %r"
                             % (first, again, temp, other))
    # follow-up 3: equal tags that came to exist in other ways (JSON, validated dict, copies, extras reordered), the
    # vocabulary in another kind of Sequence, the function called with keywords
    s = _salt(inp)
    if s % 2 == 0 or inp.get("paths") == "all":
        rounds = range(len(PATH_CYCLE)) if inp.get("paths") == "all" else [s]
        for r in rounds:
            via = [enc.encode(_tag_via(t, r + i)) for i, t in enumerate(inp["tags"])]
            if via != first:
                raise AssertionError("equal tags obtained through other construction paths are encoded differently: %r %r"
                                     % (first, via))
        enc2 = encoding.create_tag_encoder(tags=_container(snapshot, s))
        cont = [enc2.encode(mk_tag(t)) for t in inp["tags"]]
        if cont != first or enc2.num_classes != n:
            raise AssertionError("a vocabulary given as a %s is encoded differently: %r %r"
                                 % (CONTAINERS[s % len(CONTAINERS)], first, cont))
    if len(vocab) != len(snapshot) or any(a is not b for a, b in zip(vocab, snapshot)):
        raise AssertionError("the encoder changed the vocabulary list it was given")
    if any(type(e) is not int for e in first if e is not None):
        raise AssertionError("encode returned something that is not an int")
    return {"num_classes": n,
            "encode": first,
            "decode": [_full(tag_to_desc(enc.decode(i))) for i in range(len(inp["vocab"]))]}


def _full(d):
    """descriptor with every optional term field explicit (the model's reply lists them all)"""
    t = {f: d["term"].get(f) for f in TERM_FIELDS}
    t["extra"] = d["term"]["extra"]
    return {"term": t, "value": d["value"]}


# ------------------------------------------------------------------ follow-up (wave 5): object identities
# The property is about *content*: which Python objects carry a term or a tag must not matter.  Every input of the encoder
# and of the three encodings may carry an "ident" pattern (the model never sees it: same expected answer):
#   share: equal terms of the vocabulary are separate equal Term objects / one shared object / mixed (even positions share)
#   vcls : the vocabulary tags are data.Tag objects / instances of a subclass that adds nothing / mixed
#   term : the term object of a probe is fresh / the one of the equal vocabulary tag ("own") / the one of ANOTHER
#          vocabulary tag with an equal term ("other")      (a string, or a list cycled over the probes)
#   obj  : the probe is a new Tag on that term object / model_copy(update={"value": ...}) of the vocabulary tag that owns
#          the term object / the vocabulary's own object / a shallow copy of it / a subclass instance
IDENT_SHARE = ["separate", "shared", "mixed"]
IDENT_VCLS = ["tag", "sub", "mixed"]
IDENT_TERM = ["fresh", "own", "other"]
IDENT_OBJ = ["new", "update", "same", "copy", "subclass"]
_SUBCLS = {}
_IDENT_SEEN = {}            # what the patterns turned into, observed with `is` on the built objects


def _sub_tag_class():
    from soundevent import data
    c = _SUBCLS.get(id(data.Tag))
    if c is None or c[0] is not data.Tag:
        class TagSub(data.Tag):
            """a subclass of Tag that adds nothing: the same term, the same value, the same content"""
        c = _SUBCLS[id(data.Tag)] = (data.Tag, TagSub)
    return c[1]


def _pat(x, n):
    return x if isinstance(x, str) else x[n % len(x)]


def _seen(what):
    _IDENT_SEEN[what] = _IDENT_SEEN.get(what, 0) + 1


def _ident_objs(inp, probes):
    """(vocabulary objects, probe objects) for the descriptors inp["vocab"] / `probes`, with the object identities
    laid out as inp["ident"] says; the content of every object is the descriptor's"""
    import copy
    from soundevent import data
    idn = inp["ident"]
    share, vcls, k = idn.get("share", "separate"), idn.get("vcls", "tag"), idn.get("k", 0)
    Sub = _sub_tag_class()
    shared, vocab = {}, []
    for i, d in enumerate(inp["vocab"]):
        cls = Sub if vcls == "sub" or (vcls == "mixed" and (i + k) % 2 == 1) else data.Tag
        if share == "shared" or (share == "mixed" and (i + k) % 2 == 0):
            tk = jkey(d["term"])
            if tk not in shared:
                shared[tk] = _new_term(d["term"])
            vocab.append(cls(term=shared[tk], value=d["value"]))
        elif cls is data.Tag and (i + k) % 3 == 2:       # parsed from plain data: its own Term object, as from a file
            vocab.append(_fresh_via(_tag_tree(d), "validate_plain" if k % 2 else "json", k))
        else:
            vocab.append(cls(term=_new_term(d["term"]), value=d["value"]))
    vkeys = [(jkey(d), jkey(d["term"])) for d in inp["vocab"]]
    out = []
    for n, p in enumerate(probes):
        tp, op = _pat(idn.get("term", "fresh"), n), _pat(idn.get("obj", "new"), n)
        pk, tk = jkey(p), jkey(p["term"])
        own = [i for i, (a, _) in enumerate(vkeys) if a == pk]
        twins = [i for i, (a, b) in enumerate(vkeys) if b == tk and a != pk]
        src = None                                       # the vocabulary tag whose term object the probe carries
        if tp == "own" and own:
            src = vocab[own[0]]
        elif tp == "other" and twins:
            src = vocab[twins[(n + k) % len(twins)]]
        term = src.term if src is not None else _new_term(p["term"])
        if op == "same" and own:
            obj = vocab[own[0]]
        elif op == "copy" and own:
            obj = copy.copy(vocab[own[0]]) if (n + k) % 2 else vocab[own[0]].model_copy()
        elif op == "update" and src is not None:
            obj = src.model_copy(update={"value": p["value"]})
        elif op == "subclass":
            obj = Sub(term=term, value=p["value"])
        else:
            obj = data.Tag(term=term, value=p["value"])
        # what was realised (identities only; the content is the descriptor's by construction)
        holders = [i for i, v in enumerate(vocab) if v.term is obj.term]
        if not holders:
            _seen("probe term object: fresh")
        elif own and own[0] in holders:
            _seen("probe term object: the equal vocabulary tag's" + (" (shared with others)" if len(holders) > 1 else ""))
        else:
            _seen("probe term object: ANOTHER vocabulary tag's" + ("" if own else ", no equal vocabulary tag"))
        if any(v is obj for v in vocab):
            _seen("probe object: the vocabulary's own")
        elif type(obj) is not data.Tag:
            _seen("probe object: subclass instance")
        if own and type(obj) is not type(vocab[own[0]]):
            _seen("probe and equal vocabulary tag of different classes")
        out.append(obj)
    terms = {}
    for v, (_, b) in zip(vocab, vkeys):
        terms.setdefault(b, set()).add(id(v.term))
    if any(len(x) > 1 for x in terms.values()):
        _seen("vocabulary: equal terms as separate objects")
    if len(set(map(id, (v.term for v in vocab)))) < len(vocab):
        _seen("vocabulary: one term object on several tags")
    return vocab, out


def _ident_setup(inp, probes):
    from soundevent.evaluation import encoding
    vocab, objs = _ident_objs(inp, probes)
    return objs, encoding.create_tag_encoder(_container(vocab, _salt(inp) + inp["ident"].get("k", 0)))


def _impl_encoder_ident(inp):
    from soundevent.evaluation import encoding
    vocab, probes = _ident_objs(inp, inp["tags"])
    snapshot = list(vocab)
    enc = encoding.create_tag_encoder(vocab)
    n = enc.num_classes
    first = [enc.encode(p) for p in probes]
    again = [enc.encode(p) for p in reversed(probes)][::-1]
    other = [encoding.create_tag_encoder(tags=_container(snapshot, inp["ident"].get("k", 0))).encode(p) for p in probes]
    if not (first == again == other):
        raise AssertionError("encode is not a function of the vocabulary and the tag: %r %r %r" % (first, again, other))
    if len(vocab) != len(snapshot) or any(a is not b for a, b in zip(vocab, snapshot)):
        raise AssertionError("the encoder changed the vocabulary list it was given")
    if any(type(e) is not int for e in first if e is not None):
        raise AssertionError("encode returned something that is not an int")
    return {"num_classes": n,
            "encode": first,
            "decode": [_full(tag_to_desc(enc.decode(i))) for i in range(len(inp["vocab"]))]}


def _impl_classification(inp):
    from soundevent.evaluation import encoding
    tags, enc = _ident_setup(inp, inp["tags"]) if inp.get("ident") else (_tag_objs(inp), _encoder(inp))
    r = _twice(encoding.classification_encoding, tags, enc, salt=_salt(inp), kw=ENC_SIG)
    return None if r is None else int(r)


def _impl_multilabel(inp):
    from soundevent.evaluation import encoding
    import numpy as np
    tags, enc = _ident_setup(inp, inp["tags"]) if inp.get("ident") else (_tag_objs(inp), _encoder(inp))
    r = _twice(encoding.multilabel_encoding, tags, enc, same=_arr_same, salt=_salt(inp), kw=ENC_SIG)
    assert r.ndim == 1 and r.dtype.kind in "iub"
    return [int(x) for x in r]


def _impl_prediction(inp):
    from soundevent import data
    from soundevent.evaluation import encoding
    import numpy as np
    preds = []
    itags, enc = _ident_setup(inp, [p["tag"] for p in inp["preds"]]) if inp.get("ident") else (None, None)
    for p in inp["preds"]:
        s = float(Fraction(p["score"]))
        assert rat(f32(s)) == p["score32"], "stale score32 in input"
        how = (_salt(inp) + len(preds)) % 5
        if itags is not None:                          # the tag objects laid out by the identity pattern
            preds.append(data.PredictedTag(tag=itags[len(preds)], score=s))
            if preds[-1].tag is not itags[len(preds) - 1]:
                _seen("PredictedTag did not keep the tag object it was given")
        elif how == 3:                                   # the prediction parsed from plain data / from a JSON document
            preds.append(data.PredictedTag.model_validate({"tag": _plain(_tag_tree(p["tag"]), len(preds)), "score": s}))
        elif how == 4:
            import json
            preds.append(data.PredictedTag.model_validate_json(
                json.dumps({"score": s, "tag": _plain(_tag_tree(p["tag"]), len(preds) + 1)})))
        else:
            preds.append(data.PredictedTag(tag=mk_tag(p["tag"]), score=_as_num(s, inp.get("num"))))
        assert type(preds[-1].score) is float and preds[-1].score == s, "the score was not stored as the float given"
    r = _twice(encoding.prediction_encoding, preds, enc if itags is not None else _encoder(inp), same=_arr_same,
               salt=_salt(inp), kw=ENC_SIG)
    assert r.ndim == 1 and r.dtype == np.float32
    return [rat(float(x)) for x in r]


NUM_STYLES = ["float", "int", "bool", "np.float64", "np.float32", "np.int64"]


def _as_num(x, style):
    """the same number handed over as another numeric type, where that type holds it exactly (else as the float)"""
    import numpy as np
    if style in (None, "float"):
        return x
    if style == "int" and x == int(x):
        return int(x)
    if style == "bool" and x in (0.0, 1.0):
        return bool(x)
    if style == "np.float64":
        return np.float64(x)
    if style == "np.float32" and f32(x) == x:
        return np.float32(x)
    if style == "np.int64" and x == int(x):
        return np.int64(int(x))
    return x


def _open_prediction(inp):
    """some tag is predicted with two different stored scores: the property leaves the entry open"""
    seen = {}
    for p in inp["preds"]:
        k = jkey(p["tag"])
        if seen.setdefault(k, p["score32"]) != p["score32"]:
            return True
    return False


_OPEN_DIFF = [0]


def _cmp_prediction(inp, io, mo):
    if isinstance(io, list) and _open_prediction(inp):
        if io != mo:
            _OPEN_DIFF[0] += 1
        return None
    return None if io == mo else "implementation and model disagree"


def _holds_prediction(ctx, inp, io):
    if not isinstance(io, list):
        return "prediction_encoding raised on a valid input: %r" % (io,)
    if _open_prediction(inp) or ctx.searching:
        ctx.tally("holds_prediction")
        if not ctx.model("holds_prediction", {**inp, "out": io}):
            return "an entry is neither 0-for-absent nor a score predicted for that vocabulary tag"
    return None


def _holds_multilabel(ctx, inp, io):
    if ctx.searching or inp.get("monitor"):
        ctx.tally("holds_multilabel")
        if not isinstance(io, list) or not ctx.model("holds_multilabel", {**inp, "out": io}):
            return "not the indicator vector of the vocabulary tags present"
    return None


def _holds_classification(ctx, inp, io):
    if ctx.searching or inp.get("monitor"):
        ctx.tally("holds_classification")
        if isinstance(io, dict) or not ctx.model("holds_classification", {**inp, "out": io}):
            return "not the index of the first tag that is in the vocabulary"
    return None


def _impl_tag_eq(inp):
    from soundevent.evaluation import encoding
    a, b = mk_tag(inp["a"]), mk_tag(inp["b"])
    # second, independently constructed copy: equality must not depend on identity
    b2 = _new_tag(inp["b"])
    r = (a == b)
    if (b == a) != r or (a == b2) != r:
        raise AssertionError("Tag.__eq__ is not symmetric / depends on identity")
    return {"eq": bool(r), "hash_eq": hash(a) == hash(b2) and hash(a) == hash(b),
            "encodes": encoding.create_tag_encoder([a]).encode(b2) == 0}


def _cmp_tag_eq(inp, io, mo):
    if "raise" in io:
        return "comparing two tags raised"
    return None if io["eq"] == mo else "Tag.__eq__ differs from equality of term (all fields, extras) and value"


def _holds_tag_eq(ctx, inp, io):
    if not isinstance(io, dict) or "raise" in io:
        return None
    if io["eq"] and not io["hash_eq"]:
        return "a == b but hash(a) != hash(b)"
    if io["eq"] != io["encodes"]:
        return "encoder of the vocabulary [a] encodes b although a != b" if io["encodes"] else \
            "encoder of the vocabulary [a] does not encode b although a == b"
    return None


# (re-validating a dump is not among them: a Term dumps under its field names but validates under its aliases,
#  so `Tag.model_validate(tag.model_dump())` is a different object on the pinned tree — outside this property)
HOWS = ["setattr", "model_copy_update", "model_copy", "copy", "deepcopy", "pickle",
        # follow-up 3 (HISTORIES.md section 1): a deep copy with an update, a shallow copy.copy that is then assigned to, a
        # detour (changed to the origin's content, hashed, changed back), list fields rewritten in place
        "deep_copy_update", "copycopy_assign", "detour", "inplace_list"]
DERIVED_HOWS = ("setattr", "model_copy_update", "deep_copy_update", "copycopy_assign", "detour", "inplace_list")
MUTATING_HOWS = ("setattr", "copycopy_assign", "detour")


def _derive(tree, origin, how):
    """the object described by `tree`, brought about in a particular way from an object that was
    already hashed once (`origin`; for the plain copies `origin` is `tree` itself)"""
    import copy
    import pickle
    src = build(origin if origin is not None else tree)
    hash(src)                                            # e.g. it sat in a set before
    cls = type(src)
    if how in DERIVED_HOWS:
        target = build(tree)
        diff = {n: target.__dict__[n] for n in cls.model_fields if walk(target.__dict__[n]) != walk(src.__dict__[n])}
        if how == "setattr":
            for n, v in diff.items():
                setattr(src, n, v)
            return src
        if how == "model_copy_update":
            return src.model_copy(update=diff)
        if how == "deep_copy_update":
            return src.model_copy(update=diff, deep=True)
        if how == "copycopy_assign":
            c = copy.copy(src)
            for n, v in diff.items():
                setattr(c, n, v)
            hash(src)
            return c
        if how == "detour":
            # `src` carries the origin's content; the object we want starts with the content of `tree`, takes the
            # detour through the origin's content (and is hashed there), and comes back
            obj = build(tree)
            hash(obj)
            back = {n: obj.__dict__[n] for n in diff}
            for n in diff:
                setattr(obj, n, src.__dict__[n])
            hash(obj)
            for n, v in back.items():
                setattr(obj, n, v)
            return obj
        if how == "inplace_list":
            # list fields are rewritten in place (`lst[:] = ...`), the other fields are assigned
            for n, v in diff.items():
                if isinstance(src.__dict__[n], list) and isinstance(v, list):
                    src.__dict__[n][:] = v
                else:
                    setattr(src, n, v)
            return src
    if how == "model_copy":
        return src.model_copy()
    if how == "copy":
        return copy.copy(src)
    if how == "deepcopy":
        return copy.deepcopy(src)
    if how == "pickle":
        return pickle.loads(pickle.dumps(src))
    raise ValueError(how)


def _strip_omit(t):
    if isinstance(t, dict):
        return {k: _strip_omit(v) for k, v in t.items() if k != "omit"}
    if isinstance(t, list):
        return [_strip_omit(v) for v in t]
    return t


def _impl_eq_hash(inp):
    if inp.get("pa") or inp.get("pb"):
        # follow-up 3: both objects through a construction path; a path that does not reproduce the content (the
        # library's validation changed it) is not this property's business: the case is skipped, and tallied
        objs = []
        for side, rk in (("a", "pa"), ("b", "pb")):
            o = obtain(inp[side], inp.get(rk) or {})
            if _strip_omit(walk(o)) != _strip_omit(inp[side]):
                return {"skip": f"path {jkey(inp.get(rk))} does not reproduce the content of {side}"}
            objs.append(o)
        a, b = objs
        r = (a == b)
        if (b == a) != r:
            raise AssertionError("__eq__ is not symmetric")
        return {"eq": bool(r), "hash_eq": hash(a) == hash(b), **_membership(a, b), **_encoder_follows(a, b),
                "extras_order": [_extras_items(a), _extras_items(b)]}
    if inp.get("how"):
        a = _derive(inp["a"], inp.get("origin"), inp["how"])
        if _strip_omit(walk(a)) != _strip_omit(inp["a"]):
            raise AssertionError("descriptor does not describe the derived object")
    else:
        a = build(inp["a"])
        if walk(a) != inp["a"]:
            raise AssertionError("descriptor does not describe the constructed object")
    b = build(inp["b"])
    if walk(b) != inp["b"]:
        raise AssertionError("descriptor does not describe the constructed object")
    r = (a == b)
    if (b == a) != r:
        raise AssertionError("__eq__ is not symmetric")
    return {"eq": bool(r), "hash_eq": hash(a) == hash(b), **_membership(a, b),
            **(_encoder_follows(a, b) if type(a).__name__ == "Tag" else {})}


def _membership(a, b):
    """what the contract is for: b as a member of {a}, as a key of {a: …}, the size of {a, b}"""
    return {"in_set": b in {a}, "in_frozenset": b in frozenset([a]), "dict_get": {a: 1}.get(b) == 1,
            "set_size": len({a, b}), "dict_size": len(dict.fromkeys([a, b]))}


def _cmp_eq_hash(inp, io, mo):
    if "skip" in io:
        _SKIPPED[0] += 1
        return None
    if "raise" in io:
        return "constructing / comparing the objects raised"
    if not mo["has_key"]:
        return "model has no hash key for this class"
    if io["eq"] != mo["eq"]:
        return "__eq__ differs from structural equality of the compared fields"
    return None


_SKIPPED = [0]


def _holds_eq_hash(ctx, inp, io):
    if not isinstance(io, dict) or "eq" not in io:
        return None
    how = f" (a obtained by {inp['how']} from an object hashed before)" if inp.get("how") else ""
    if inp.get("pa") or inp.get("pb"):
        how = f" (a via {jkey(inp.get('pa') or {})}, b via {jkey(inp.get('pb') or {})})"
    if io["eq"] and not io.get("hash_eq"):
        return "a == b but hash(a) != hash(b)" + how
    if "in_set" in io:
        if io["eq"] and not (io["in_set"] and io["in_frozenset"] and io["dict_get"]):
            return "a == b but b is not found in {a} / as a key of {a: …}" + how
        if io["eq"] and (io["set_size"] != 1 or io["dict_size"] != 1):
            return "a == b but {a, b} has two members" + how
        if not io["eq"] and (io["in_set"] or io["dict_get"] or io["set_size"] != 2):
            return "a != b but b is found in {a}" + how
    for k, what in (("encodes", "encoder.encode"), ("classifies", "classification_encoding"),
                    ("multilabel", "multilabel_encoding"), ("prediction", "prediction_encoding")):
        if k in io and io[k] != io["eq"]:
            return (f"{what} over the vocabulary [other, a] " + ("does not treat b as a although a == b" if io["eq"]
                    else "treats b as a although a != b") + how)
    return None

# ------------------------------------------------------------------ follow-up 3: construction paths
# The same content reached in every legitimate way (HISTORIES.md section 2): constructor with the keywords in
# another order, `model_validate` of a dict (nested objects as objects / as plain dicts), `model_validate_json`
# of a document written by hand under the validation aliases, the extras of a term supplied in another order
# (keyword order, dict order, JSON key order, `model_copy(update=...)` order), optional fields passed
# explicitly as None instead of omitted, copies of an object that was hashed before.
VIA_FRESH = ["init", "init_rev", "validate", "validate_plain", "json", "explicit_none", "extras_update"]
VIA_COPY = ["copy", "deepcopy", "pickle", "model_copy", "model_copy_deep"]
VIAS = VIA_FRESH + VIA_COPY


def _perm(items, k):
    """the k-th permutation of a short list (k = 0: as given)"""
    items = list(items)
    if k == 0 or len(items) < 2:
        return items
    perms = list(itertools.islice(itertools.permutations(items), 0, 720))
    return list(perms[k % len(perms)])


def _as_none(explicit_none, field):
    return explicit_none is True or (isinstance(explicit_none, (list, tuple)) and field in explicit_none)


def _plain(tree, k=0, explicit_none=False):
    """value tree -> plain Python data (dicts under the validation aliases, lists, numbers, strings): what a
    document handed to model_validate / json.dumps looks like"""
    from soundevent import data
    if tree is None or isinstance(tree, bool):
        return tree
    if "s" in tree:
        return tree["s"]
    if "q" in tree:
        if tree.get("neg0"):
            return -0.0
        f = Fraction(tree["q"])
        return int(f) if f.denominator == 1 else float(f)
    if "l" in tree:
        return [_plain(y, k, explicit_none) for y in tree["l"]]
    if "t" in tree:
        return [_plain(y, k, explicit_none) for y in tree["t"]]
    cls = getattr(data, tree["o"])
    fields, extras = [], []
    for n, v in zip(tree["n"], tree["v"]):
        if n in tree.get("omit", ()):
            if _as_none(explicit_none, n) and v is None and cls.model_fields[n].default is None:
                fields.append((cls.model_fields[n].alias or n, None))
            continue
        if n.startswith("+"):
            extras.append((n[1:], _plain(v, k, explicit_none)))
        else:
            fields.append((cls.model_fields[n].alias or n, _plain(v, k, explicit_none)))
    return dict(fields + _perm(extras, k))


def _kwargs(tree, k=0, rev=False, explicit_none=False, extras=True):
    """constructor keywords for the object a tree describes (nested models as real objects)"""
    from soundevent import data
    cls = getattr(data, tree["o"])
    fields, ex = [], []
    for n, v in zip(tree["n"], tree["v"]):
        if n in tree.get("omit", ()):
            if _as_none(explicit_none, n) and v is None and cls.model_fields[n].default is None:
                fields.append((cls.model_fields[n].alias or n, None))
            continue
        if n.startswith("+"):
            ex.append((n[1:], _via_value(v, k, rev, explicit_none)))
        else:
            fields.append((cls.model_fields[n].alias or n, _via_value(v, k, rev, explicit_none)))
    if rev:
        fields.reverse()
    return cls, fields, (_perm(ex, k) if extras else []), ex


def _via_value(tree, k, rev, explicit_none):
    if tree is None or isinstance(tree, bool) or "s" in tree or "q" in tree:
        return build(tree)
    if "l" in tree:
        return [_via_value(y, k, rev, explicit_none) for y in tree["l"]]
    if "t" in tree:
        return tuple(_via_value(y, k, rev, explicit_none) for y in tree["t"])
    cls, fields, ex, _ = _kwargs(tree, k, rev, explicit_none)
    return cls(**dict(fields + ex))


def _fresh_via(tree, via, k=0, none_fields=None):
    """a new object with the content of `tree`, constructed in the way `via` names; k = order of the extras;
    none_fields = the omitted optional fields passed explicitly as None (all of them for via = explicit_none)"""
    import json
    from soundevent import data
    cls = getattr(data, tree["o"])
    if none_fields and via in ("init", "validate_plain", "json"):
        if via == "init":
            c, fields, ex, _ = _kwargs(tree, k, explicit_none=list(none_fields))
            return c(**dict(fields + ex))
        doc = _plain(tree, k, explicit_none=list(none_fields))
        return cls.model_validate(doc) if via == "validate_plain" else cls.model_validate_json(json.dumps(doc))
    if via == "init":
        c, fields, ex, _ = _kwargs(tree, k)
        return c(**dict(fields + ex))
    if via == "init_rev":                    # keywords in reverse order, extras first
        c, fields, ex, _ = _kwargs(tree, k, rev=True)
        return c(**dict(ex + fields))
    if via == "validate":                    # a dict holding real nested objects
        c, fields, ex, _ = _kwargs(tree, k)
        return c.model_validate(dict(fields + ex))
    if via == "validate_plain":              # a dict of plain data (what a parsed document looks like)
        return cls.model_validate(_plain(tree, k))
    if via == "json":
        return cls.model_validate_json(json.dumps(_plain(tree, k)))
    if via == "explicit_none":               # optional fields that were left out are passed as None
        c, fields, ex, _ = _kwargs(tree, k, explicit_none=True)
        return c(**dict(fields + ex))
    if via == "extras_update":               # the extras arrive later, through model_copy(update=...)
        c, fields, ex, _ = _kwargs(tree, k, extras=False)
        _, _, exs, _ = _kwargs(tree, k)
        o = c(**dict(fields))
        hash(o) if c.__hash__ is not None else None
        return o.model_copy(update=dict(exs)) if exs else o
    raise ValueError(via)


def obtain(tree, recipe):
    """the object described by `tree`, obtained as `recipe` says: {"via": one of VIAS, "k": order of the extras,
    "from": the fresh path a copy starts from}.  Copies are taken from an object that was hashed before."""
    import copy
    import pickle
    via = recipe.get("via", "init")
    k = recipe.get("k", 0)
    if via in VIA_FRESH:
        return _fresh_via(tree, via, k, recipe.get("none"))
    src = _fresh_via(tree, recipe.get("from", "init"), k)
    if type(src).__hash__ is not None:
        hash(src)
    if via == "copy":
        return copy.copy(src)
    if via == "deepcopy":
        return copy.deepcopy(src)
    if via == "pickle":
        return pickle.loads(pickle.dumps(src))
    if via == "model_copy":
        return src.model_copy()
    if via == "model_copy_deep":
        return src.model_copy(deep=True)
    raise ValueError(via)


def _extras_items(x):
    """the extras of every term inside an object, in insertion order (for the evidence / replays only)"""
    from pydantic import BaseModel
    out = []
    if isinstance(x, BaseModel):
        if x.__pydantic_extra__:
            out.append(list(x.__pydantic_extra__))
        for v in x.__dict__.values():
            out.extend(_extras_items(v))
    elif isinstance(x, (list, tuple)):
        for v in x:
            out.extend(_extras_items(v))
    return out


def _encoder_follows(a, b):
    """for tags (and terms, wrapped into tags): the encoder of the vocabulary [a] and the three encodings
    treat b as that vocabulary tag iff ... (judged by the caller against a == b)"""
    from soundevent import data
    from soundevent.evaluation import encoding
    if type(a).__name__ == "Term" and type(b).__name__ == "Term":
        a, b = data.Tag(term=a, value="v"), data.Tag(term=b, value="v")
    if type(a).__name__ != "Tag" or type(b).__name__ != "Tag":
        return {}
    other = data.Tag(term=data.Term(label="call", name="custom:callType", definition="c"), value="social")
    enc = encoding.create_tag_encoder([other, a])
    ml = encoding.multilabel_encoding([b], enc)
    pr = encoding.prediction_encoding([data.PredictedTag(tag=b, score=0.5)], enc)
    return {"encodes": enc.encode(b) == 1, "classifies": encoding.classification_encoding([other, b][::-1], enc) == 1,
            "multilabel": [int(x) for x in ml] == [0, 1], "prediction": [float(x) for x in pr] == [0.0, 0.5]}


# ------------------------------------------------------------------ review additions: implementations
GPOOL = POOL[:4]          # the tags the user-defined encoders of the generic ops are tables over


class _TableEncoder:
    """a user-defined Encoder (the Protocol of encoding.py): a table over the objects of a fixed pool"""

    def __init__(self, objs, table, n, np_int=False):
        self._objs = objs                                  # kept alive: ids stay valid
        self._pos = {id(o): i for i, o in enumerate(objs)}
        self._table = table
        self.num_classes = n
        self._np = np_int
        self.calls = 0

    def encode(self, tag):
        self.calls += 1
        r = self._table[self._pos[id(tag)]]
        if r is None:
            return None
        if self._np:
            import numpy as np
            return np.int64(r)
        return r

    def decode(self, index):
        raise NotImplementedError


ATTR_KINDS = ["instance", "class", "property", "slots", "namedtuple", "dataclass"]


def _encoder_flavour(kind, objs, table, n, np_int):
    """the same user-defined encoder with `num_classes` / `encode` living in another kind of attribute: an instance
    attribute, a class attribute, a property, __slots__, a namedtuple, a frozen dataclass (HISTORIES.md section 2:
    attribute objects that are not plain namespaces)"""
    core = _TableEncoder(objs, table, n, np_int)
    if kind == "instance":
        return core
    if kind == "class":
        return type("ClassAttrEncoder", (), {"num_classes": n, "encode": staticmethod(core.encode),
                                             "decode": staticmethod(core.decode)})()
    if kind == "property":
        class PropEncoder:
            @property
            def num_classes(self):
                return n

            def encode(self, tag):
                return core.encode(tag)

            def decode(self, index):
                return core.decode(index)
        return PropEncoder()
    if kind == "slots":
        class SlotEncoder:
            __slots__ = ("num_classes", "_core")

            def __init__(self):
                self.num_classes = n
                self._core = core

            def encode(self, tag):
                return self._core.encode(tag)

            def decode(self, index):
                return self._core.decode(index)
        return SlotEncoder()
    if kind == "namedtuple":
        import collections
        return collections.namedtuple("TupleEncoder", ["num_classes", "encode", "decode"])(n, core.encode, core.decode)
    import dataclasses

    @dataclasses.dataclass(frozen=True)
    class DataEncoder:
        num_classes: int
        encode: object
        decode: object
    return DataEncoder(n, core.encode, core.decode)


def _g_setup(inp):
    objs = [mk_tag(t) for t in GPOOL]
    enc = _TableEncoder(objs, inp["enc"], inp["n"], bool(inp.get("np")))
    if inp.get("proto"):
        # the same, declared as an implementation of the Protocol class
        from soundevent.evaluation import encoding
        cls = type("ProtoEncoder", (_TableEncoder, encoding.Encoder), {})
        enc = cls(objs, inp["enc"], inp["n"], bool(inp.get("np")))
    elif inp.get("attr"):
        enc = _encoder_flavour(inp["attr"], objs, inp["enc"], inp["n"], bool(inp.get("np")))
    return objs, enc


def _fingerprint(x):
    """what a Tag / Feature / PredictedTag carries, cheaply (terms are frozen: their identity stands for their content)"""
    t = getattr(x, "tag", x)
    return (id(t), id(getattr(t, "term", None)), getattr(t, "value", None), getattr(x, "score", None))


ENC_SIG = ["tags", "encoder"]        # = encodingSig of the model; compared with inspect.signature on every run
_SIG_OK = {}                          # function name -> the code has the documented parameter names (set by _stage_signatures)


def _twice(f, seq, *rest, same=lambda a, b: a == b, salt=None, kw=None):
    """call f(seq, …) on a list, again on the same list, and on a tuple: the answer is a function of the arguments;
    with `salt` also on another kind of Sequence, with `kw` (the documented parameter names) also by keyword, the
    keywords in reverse order"""
    snapshot = list(seq)
    before = [_fingerprint(x) for x in snapshot]
    r1 = f(seq, *rest)
    if len(seq) != len(snapshot) or any(a is not b for a, b in zip(seq, snapshot)):
        raise AssertionError("the function changed the list it was given")
    if [_fingerprint(x) for x in snapshot] != before:
        _BY_ID.clear()                      # the shared pool objects are spoilt: later cases build their own
        raise AssertionError("the function changed one of the objects in the list it was given")
    r2 = f(seq, *rest)
    r3 = f(tuple(snapshot), *rest)
    if not same(r1, r2):
        raise AssertionError("a second call with the same arguments gives another result")
    if not same(r1, r3):
        raise AssertionError("a tuple of the same tags gives another result than the list")
    if salt is not None and salt % 2:
        r4 = f(_container(snapshot, 2 + salt % 3), *rest)
        if not same(r1, r4):
            raise AssertionError("a %s of the same tags gives another result than the list" % CONTAINERS[2 + salt % 3])
    if kw is not None and salt is not None and salt % 3 == 0:
        r5 = f(**dict(reversed(list(zip(kw, (seq,) + rest)))))
        if not same(r1, r5):
            raise AssertionError("the call with keywords gives another result than the positional call")
    return r1


def _arr_same(a, b):
    import numpy as np
    return a is not b and a.dtype == b.dtype and a.shape == b.shape and bool(np.array_equal(a, b))


def _impl_classification_g(inp):
    from soundevent.evaluation import encoding
    objs, enc = _g_setup(inp)
    r = _twice(encoding.classification_encoding, [objs[i] for i in inp["tags"]], enc)
    return None if r is None else int(r)


def _impl_multilabel_g(inp):
    from soundevent.evaluation import encoding
    objs, enc = _g_setup(inp)
    r = _twice(encoding.multilabel_encoding, [objs[i] for i in inp["tags"]], enc, same=_arr_same)
    assert r.ndim == 1
    return [int(x) for x in r]


def _impl_prediction_g(inp):
    from soundevent import data
    from soundevent.evaluation import encoding
    import numpy as np
    objs, enc = _g_setup(inp)
    preds = []
    for p in inp["preds"]:
        s = float(Fraction(p["score"]))
        assert rat(f32(s)) == p["score32"], "stale score32 in input"
        preds.append(data.PredictedTag(tag=objs[p["i"]], score=s))
        # pydantic copies nothing here: the encoder is asked about the pool object itself
        assert preds[-1].tag is objs[p["i"]]
    r = _twice(encoding.prediction_encoding, preds, enc, same=_arr_same)
    assert r.ndim == 1 and r.dtype == np.float32
    return [rat(float(x)) for x in r]


def _open_prediction_g(inp):
    """two predictions land on one index with different stored scores: the entry is left open"""
    n = inp["n"]
    seen = {}
    for p in inp["preds"]:
        e = inp["enc"][p["i"]]
        if e is None:
            continue
        k = e if e >= 0 else e + n
        if seen.setdefault(k, p["score32"]) != p["score32"]:
            return True
    return False


def _cmp_prediction_g(inp, io, mo):
    if isinstance(io, list) and isinstance(mo, list) and _open_prediction_g(inp):
        # every entry must still be 0 or one of the stored scores sent to that index
        n = inp["n"]
        for k, x in enumerate(io):
            cands = {p["score32"] for p in inp["preds"]
                     if inp["enc"][p["i"]] is not None and inp["enc"][p["i"]] % n == k}
            if (x not in cands) if cands else (x != "0"):
                return "an entry is neither 0-for-absent nor a score sent to that index"
        return None if len(io) == n else "wrong length"
    return None if io == mo else "implementation and model disagree"


def _cmp_oor(inp, io, mo):
    """index rule of the stores behind a user-defined encoder: both raise, or the same vector"""
    ie = isinstance(io, dict) and "raise" in io
    me = isinstance(mo, dict) and "raise" in mo
    if ie or me:
        return None if ie and me else "IndexError on one side only"
    return None if io == mo else "implementation and model disagree"


def _impl_decode_i(inp):
    enc = _encoder(inp)
    enc_t = _encoder_of(tuple(mk_tag(t) for t in inp["vocab"]))
    out = []
    for i in inp["idx"]:
        rs = []
        for e in (enc, enc_t):
            try:
                rs.append({"val": _full(tag_to_desc(e.decode(i)))})
            except IndexError:
                rs.append({"raise": "index"})
        if rs[0] != rs[1]:
            raise AssertionError("decode differs between a list and a tuple vocabulary")
        out.append(rs[0])
    return out


def _encoder_of(seq):
    from soundevent.evaluation import encoding
    return encoding.create_tag_encoder(seq)


def _opt(inp, k, f):
    return None if inp.get(k) is None else f(inp[k])


CALL_STYLES = ["kw", "kw_rev", "pos", "mixed", "pos_prefix"]


def _find_call(fn, seq, kw, style, sig_ok):
    """find_tag / find_feature called as `style` says: keywords (in the documented or the reverse order), all
    positional in the documented order (absent arguments as their documented default None), the first optional
    argument positional and the rest by keyword, the shortest positional prefix that carries every given argument.
    The documented names and order are the contract (findTagSig / findFeatureSig of the model, compared with
    inspect.signature by an obligation): a call that no longer binds (TypeError) or binds otherwise shows up as a
    disagreement with the model on that very input."""
    order = ["label", "term", "default"]
    if style in (None, "kw"):
        return fn(seq, **kw)
    if style == "kw_rev":
        return fn(**dict(reversed([(k, kw[k]) for k in order if k in kw])), **{FIND_FIRST[fn.__name__]: seq})
    if style == "pos":
        return fn(seq, *[kw.get(k) for k in order])
    if style == "mixed":
        return fn(seq, kw.get("label"), **{k: v for k, v in kw.items() if k != "label"})
    n = max([i + 1 for i, k in enumerate(order) if k in kw] or [0])
    return fn(seq, *[kw.get(k) for k in order[:n]])


FIND_FIRST = {"find_tag": "tags", "find_feature": "features"}


def _impl_find_tag(inp):
    from soundevent import data
    tags = [mk_tag(t) for t in inp["tags"]]
    kw = {}
    if "label" in inp:
        kw["label"] = inp["label"]
    if "term" in inp:
        kw["term"] = _opt(inp, "term", _fresh_term)
    if "default" in inp:
        kw["default"] = _opt(inp, "default", mk_tag)
    ok = _SIG_OK.get("find_tag", False)
    r = _twice(lambda seq: _find_call(data.find_tag, seq, kw, inp.get("call"), ok), tags, same=lambda a, b: a is b,
               salt=_salt(inp))
    if r is not None and not any(r is t for t in tags) and r is not kw.get("default"):
        raise AssertionError("find_tag returned an object that is neither in the list nor the default")
    return {"val": None if r is None else _full(tag_to_desc(r))}


def _fresh_term(d):
    return _new_term(d)


def _feat_desc(f):
    d = tag_to_desc(f)          # reads .term and .value only
    return {"term": _full(d)["term"], "value": rat(f.value)}


def _mk_feature(d):
    from soundevent import data
    return data.Feature(term=_fresh_term(d["term"]), value=float(Fraction(d["value"])))


def _impl_find_feature(inp):
    from soundevent import data
    feats = [_mk_feature(f) for f in inp["features"]]
    kw = {}
    if "label" in inp:
        kw["label"] = inp["label"]
    if "term" in inp:
        kw["term"] = _opt(inp, "term", _fresh_term)
    if "default" in inp:
        kw["default"] = _opt(inp, "default", _mk_feature)
    ok = _SIG_OK.get("find_feature", False)
    r = _twice(lambda seq: _find_call(data.find_feature, seq, kw, inp.get("call"), ok), feats, same=lambda a, b: a is b,
               salt=_salt(inp))
    if r is not None and not any(r is f for f in feats) and r is not kw.get("default"):
        raise AssertionError("find_feature returned an object that is neither in the list nor the default")
    return {"val": None if r is None else _feat_desc(r)}


def _impl_tag_init(inp):
    from soundevent import data
    from soundevent.evaluation import encoding
    kw = {"value": inp["value"]}
    if inp.get("key") is not None:
        kw["key"] = inp["key"]
    if inp.get("term") is not None:
        kw["term"] = _fresh_term(inp["term"])
    how = inp.get("how", "init")
    if how == "init":
        t = data.Tag(**kw)
    else:
        t = data.Tag.model_validate(kw)
    # the same tag spelled with the term: equal, same hash, same index (the two halves of the property)
    twin = data.Tag(term=data.Term(**{(data.Term.model_fields[f].alias or f): v
                                      for f, v in tag_to_desc(t)["term"].items() if f != "extra"},
                                   **dict(tag_to_desc(t)["term"]["extra"])), value=inp["value"])
    if not (t == twin and twin == t):
        raise AssertionError("a tag built from key= differs from the tag with the same term and value")
    if hash(t) != hash(twin):
        raise AssertionError("a == b but hash(a) != hash(b) (a built from key=)")
    if encoding.create_tag_encoder([twin]).encode(t) != 0 or encoding.create_tag_encoder([t]).encode(twin) != 0:
        raise AssertionError("a tag built from key= is not encoded as the equal tag of the vocabulary")
    import warnings
    with warnings.catch_warnings():
        warnings.simplefilter("ignore")
        key = t.key
    return {"val": {"tag": _full(tag_to_desc(t)), "key": key}}


def _impl_feature_init(inp):
    from soundevent import data
    kw = {"value": float(Fraction(inp["value"]))}
    if inp.get("name") is not None:
        kw["name"] = inp["name"]
    if inp.get("term") is not None:
        kw["term"] = _fresh_term(inp["term"])
    f = data.Feature(**kw) if inp.get("how", "init") == "init" else data.Feature.model_validate(kw)
    twin = data.Feature(term=f.term.model_copy(), value=f.value)
    if not (f == twin) or hash(f) != hash(twin):
        raise AssertionError("a feature built from name= differs (== / hash) from its twin")
    import warnings
    with warnings.catch_warnings():
        warnings.simplefilter("ignore")
        name = f.name
    return {"val": {"feature": _feat_desc(f), "name": name}}


# ---- raw values: what Python keeps apart although == identifies it (1 / 1.0, 0.0 / -0.0) ---------
def walk_raw(x):
    """as `walk`, numbers left as they are: {"i": int} | {"f": rat, "neg0": bool}"""
    from pydantic import BaseModel
    if x is None or isinstance(x, bool):
        return x
    if isinstance(x, enum.Enum):
        return walk_raw(x.value)
    if isinstance(x, int):
        return {"i": int(x)}
    if isinstance(x, float):
        if not math.isfinite(x):
            raise RuntimeError("non-finite float is not modelled")
        return {"f": rat(x), "neg0": x == 0 and math.copysign(1.0, x) < 0}
    if isinstance(x, (list, tuple)):
        return {"l" if isinstance(x, list) else "t": [walk_raw(y) for y in x]}
    if isinstance(x, BaseModel):
        w = walk(x)
        names = list(type(x).model_fields)
        vals = [walk_raw(x.__dict__[n]) for n in names]
        extra = x.__pydantic_extra__ or {}
        for k in sorted(extra):
            vals.append(walk_raw(extra[k]))
        return {"o": w["o"], "n": w["n"], "v": vals}
    return walk(x)


RAW_HOWS = ["model_copy_update", "setattr", "model_construct"]


def _raw_variant(obj, field, value, how):
    """`obj` with `field` holding `value` *as given* (no validation: an int stays an int)"""
    if how == "model_copy_update":
        return obj.model_copy(update={field: value})
    if how == "setattr":
        o = obj.model_copy()
        setattr(o, field, value)
        return o
    vals = dict(obj.__dict__)
    vals[field] = value
    return type(obj).model_construct(**vals)


RAW_NUMS = {"0": [0, 0.0, -0.0], "1": [1, 1.0], "big": [2 ** 53, float(2 ** 53)], "half": [0.5],
            "m1": [-1, -1.0], "2": [2, 2.0]}


def _raw_specs():
    """(class, base builder, numeric field) for the hashable classes with a numeric field in reach of the hash
    or of ==; Feature.value is hashed, the scores are compared only"""
    B = _bases()
    return [("Feature", B["Feature"][0], "value"), ("SoundEventPrediction", B["SoundEventPrediction"][0], "score")]


def _impl_py_eq_hash(inp):
    specs = {c: (b, f) for c, b, f in _raw_specs()}
    out = []
    objs = []
    for side in ("a", "b"):
        sp = inp[side]
        base, field = specs[sp["cls"]]
        o = _construct(sp["cls"], base())
        hash(o)
        v = RAW_NUMS[sp["num"]][sp["k"]]
        o = _raw_variant(o, field, v, sp["how"])
        if type(o.__dict__[field]) is not type(v):
            raise AssertionError("the raw value was converted")
        if walk_raw(o) != sp["tree"]:
            raise AssertionError("descriptor does not describe the derived object")
        objs.append(o)
    a, b = objs
    r = (a == b)
    if (b == a) != r:
        raise AssertionError("__eq__ is not symmetric")
    return {"eq": bool(r), "hash_eq": hash(a) == hash(b), **_membership(a, b)}


def _cmp_py_eq_hash(inp, io, mo):
    if "raise" in io:
        return "constructing / comparing the objects raised"
    if not mo["has_key"]:
        return "model has no hash key for this class"
    if mo["eq"] != mo["canon_eq"]:
        return "model: == on raw values differs from equality of canonical trees"
    if io["eq"] != mo["eq"]:
        return "__eq__ differs from Python equality of the field values (1 == 1.0, 0.0 == -0.0)"
    return None


def _to_model_py(inp):
    return {"a": inp["a"]["tree"], "b": inp["b"]["tree"]}


OPS = {
    "encoder": Op("encoder", _impl_encoder,
                  nontrivial=lambda i, o: isinstance(o, dict) and any(e is not None for e in o.get("encode", []))),
    "classification": Op("classification", _impl_classification, holds=_holds_classification,
                         nontrivial=lambda i, o: isinstance(o, int)),
    "multilabel": Op("multilabel", _impl_multilabel, holds=_holds_multilabel,
                     nontrivial=lambda i, o: isinstance(o, list) and any(o)),
    "prediction": Op("prediction", _impl_prediction, compare=_cmp_prediction, holds=_holds_prediction,
                     nontrivial=lambda i, o: isinstance(o, list) and any(x != "0" for x in o)),
    # the property does not fix `==` itself (only: equal => same hash, and the encoder follows `==`), so a
    # disagreement with the model's structural equality is a broken correspondence, not yet a violation
    "tag_eq": Op("tag_eq", _impl_tag_eq, compare=_cmp_tag_eq, holds=_holds_tag_eq, determined=False,
                 nontrivial=lambda i, o: isinstance(o, dict) and "eq" in o),
    "eq_hash": Op("eq_hash", _impl_eq_hash, compare=_cmp_eq_hash, holds=_holds_eq_hash, determined=False,
                  nontrivial=lambda i, o: isinstance(o, dict) and "eq" in o),
}
for _n in ("classification", "multilabel", "prediction"):
    OPS[_n].to_model = lambda inp: {k: v for k, v in inp.items() if k not in ("monitor", "xk", "num", "ident")}
OPS["encoder"].to_model = lambda inp: {k: v for k, v in inp.items() if k not in ("paths", "ident")}

# review additions
_G = lambda inp: {k: v for k, v in inp.items() if k not in ("np", "proto", "attr")}  # noqa: E731
OPS.update({
    # the three encodings behind a user-defined encoder (any table tag -> index in range): determined
    "classification_g": Op("classification_g", _impl_classification_g, to_model=_G,
                           nontrivial=lambda i, o: isinstance(o, int)),
    "multilabel_g": Op("multilabel_g", _impl_multilabel_g, to_model=_G,
                       nontrivial=lambda i, o: isinstance(o, list) and any(o)),
    "prediction_g": Op("prediction_g", _impl_prediction_g, to_model=_G, compare=_cmp_prediction_g,
                       nontrivial=lambda i, o: isinstance(o, list) and any(x != "0" for x in o)),
    # indices outside [0, n): numpy's / the list's index rule shows through; not fixed by the property
    "multilabel_oor": Op("multilabel_oor", _impl_multilabel_g, to_model=_G, compare=_cmp_oor, determined=False,
                         model_op="multilabel_g", nontrivial=lambda i, o: True),
    "prediction_oor": Op("prediction_oor", _impl_prediction_g, to_model=_G, compare=_cmp_oor, determined=False,
                         model_op="prediction_g", nontrivial=lambda i, o: True),
    "decode_i": Op("decode_i", _impl_decode_i, determined=False, nontrivial=lambda i, o: isinstance(o, list)),
    "find_tag": Op("find_tag", _impl_find_tag, to_model=lambda i: {k: v for k, v in i.items() if k != "call"}),
    "find_feature": Op("find_feature", _impl_find_feature, to_model=lambda i: {k: v for k, v in i.items() if k != "call"}),
    "tag_init": Op("tag_init", _impl_tag_init, to_model=lambda i: {k: v for k, v in i.items() if k != "how"}),
    "feature_init": Op("feature_init", _impl_feature_init,
                       to_model=lambda i: {k: v for k, v in i.items() if k != "how"}),
    "py_eq_hash": Op("py_eq_hash", _impl_py_eq_hash, to_model=_to_model_py, compare=_cmp_py_eq_hash,
                     holds=_holds_eq_hash, determined=False,
                     nontrivial=lambda i, o: isinstance(o, dict) and "eq" in o),
})



# ------------------------------------------------------------------ follow-up 3: histories (HISTORIES.md section 1)
# Consecutive calls in one process on shared identities, through harness/history.py: every step is judged by the
# base operation's model on the content the objects carry at that step (the model is pure; what a cache inside the
# library may and may not do is `C19_history_cache_sound` / `_stale`, `C19_history_hash_now` / `_stale`).
H_REUSE = ("assign", "copy_update", "deep_copy_update", "copycopy_assign", "same_list")


def _retag(old, d, how):
    """a Tag object that was used (and hashed) before, made to carry the descriptor d"""
    import copy
    if old is None or how == "same_list":
        t = _fresh_tag(d)
        hash(t)
        return t
    term = _fresh_term(d["term"])
    if how == "assign":
        old.term = term
        old.value = d["value"]
        t = old
    elif how == "copy_update":
        t = old.model_copy(update={"term": term, "value": d["value"]})
    elif how == "deep_copy_update":
        t = old.model_copy(update={"term": term, "value": d["value"]}, deep=True)
    else:                                        # copycopy_assign
        t = copy.copy(old)
        t.value = d["value"]
        t.term = term
    hash(t)
    return t


def _relist(lst, objs):
    """the same list object with new content (a caller that keeps one list and refills it)"""
    lst[:] = objs
    return lst


def _hashed_tags(ds):
    out = [_fresh_tag(d) for d in ds]
    len(set(out))                                # the caller de-duplicated them once: every tag was hashed
    return out


def _eh_build(inp):
    return {"vocab": _hashed_tags(inp["vocab"]), "probes": _hashed_tags(inp["tags"])}


def _eh_call(args):
    from soundevent.evaluation import encoding
    return {"enc": encoding.create_tag_encoder(args["vocab"])}


def _eh_canon(inp, args, res):
    enc = res["enc"]
    if "decode" not in res:
        # first reading, with the live objects of the step; decode hands back the caller's own vocabulary objects
        # (which later steps may change), so it is read once
        res["decode"] = [_full(tag_to_desc(enc.decode(i))) for i in range(len(inp["vocab"]))]
        res["live"] = [enc.encode(p) for p in args["probes"]]
    out = {"num_classes": enc.num_classes, "encode": [enc.encode(_fresh_tag(d)) for d in inp["tags"]],
           "decode": res["decode"]}
    if res["live"] != out["encode"]:
        out["live_encode"] = res["live"]         # never equal to the model's reply: the step fails with both shown
    return out


def _eh_snapshot(args):
    return [[tag_to_desc(t) for t in args["vocab"]], [id(t) for t in args["vocab"]],
            [tag_to_desc(t) for t in args["probes"]]]


def _eh_modify(args, inp, how):
    old_v, old_p = args["vocab"], args["probes"]
    vocab = [_retag(old_v[i] if i < len(old_v) else None, d, how) for i, d in enumerate(inp["vocab"])]
    probes = [_retag(old_p[i] if i < len(old_p) else None, d, how) for i, d in enumerate(inp["tags"])]
    if how in ("assign", "same_list"):
        vocab, probes = _relist(old_v, vocab), _relist(old_p, probes)
    return {"vocab": vocab, "probes": probes}


def _eh_variants(x, rng):
    """neighbours of an encoder case: the vocabulary reordered / cut / with one tag replaced by a near twin"""
    out = []
    v = x["vocab"]
    if len(v) > 1:
        out.append({**x, "vocab": v[::-1]})
        out.append({**x, "vocab": v[1:]})
        out.append({**x, "vocab": v[1:] + v[:1]})
    absent = [t for t in POOL if t not in v]
    if absent:
        out.append({**x, "vocab": v + [rng.choice(absent)]})
        if v:
            i = rng.randrange(len(v))
            out.append({**x, "vocab": v[:i] + [rng.choice(absent)] + v[i + 1:]})
    out.append({**x, "tags": x["tags"][::-1]})
    return out


OPS["encoder_history"] = history.history_op(
    "encoder_history", Op("encoder", None), _eh_build, _eh_call, _eh_canon, snapshot=_eh_snapshot, modify=_eh_modify)


def _items_of(inp, old=None, how=None):
    """live Tag / PredictedTag objects for a classification / multilabel / prediction input"""
    from soundevent import data
    old = old or []
    if "preds" in inp:
        out = []
        for i, p in enumerate(inp["preds"]):
            s = float(Fraction(p["score"]))
            o = old[i] if i < len(old) else None
            if o is None or how in (None, "same_list"):
                out.append(data.PredictedTag(tag=_retag(None, p["tag"], None), score=s))
            elif how == "assign":
                o.tag = _retag(o.tag, p["tag"], how)
                o.score = s
                out.append(o)
            elif how == "copycopy_assign":
                import copy
                c = copy.copy(o)
                c.score = s
                c.tag = _retag(o.tag, p["tag"], how)
                out.append(c)
            else:
                out.append(o.model_copy(update={"tag": _retag(o.tag, p["tag"], how), "score": s},
                                        deep=(how == "deep_copy_update")))
        return out
    return [_retag(old[i] if i < len(old) else None, d, how) for i, d in enumerate(inp["tags"])]


def _item_desc(x):
    if hasattr(x, "score"):
        return [tag_to_desc(x.tag), rat(x.score)]
    return tag_to_desc(x)


def _xh_build(inp):
    from soundevent.evaluation import encoding
    vocab = _hashed_tags(inp["vocab"])
    return {"vocab": vocab, "vocab_desc": jkey(inp["vocab"]), "enc": encoding.create_tag_encoder(vocab),
            "items": _items_of(inp)}


def _xh_snapshot(args):
    return [[_item_desc(x) for x in args["items"]], [id(x) for x in args["items"]],
            [tag_to_desc(t) for t in args["vocab"]], args["enc"].num_classes]


def _xh_modify(args, inp, how):
    from soundevent.evaluation import encoding
    items = _items_of(inp, args["items"], how)
    if how in ("assign", "same_list"):
        items = _relist(args["items"], items)
    if args["vocab_desc"] == jkey(inp["vocab"]):
        return {**args, "items": items}              # the very same encoder object is used again
    vocab = _hashed_tags(inp["vocab"])
    return {"vocab": vocab, "vocab_desc": jkey(inp["vocab"]), "enc": encoding.create_tag_encoder(vocab), "items": items}


def _xh_poison(res):
    """the caller writes into the array it got back"""
    import numpy as np
    if not isinstance(res, np.ndarray) or res.size == 0:
        return False
    res[...] = 7 if res.dtype.kind in "iu" else 0.75
    return True


def _xh_variants(x, rng):
    out = []
    for v in _eh_variants({"vocab": x["vocab"], "tags": []}, rng):
        out.append({**x, "vocab": v["vocab"]})
    key = "preds" if "preds" in x else "tags"
    seq = x[key]
    if seq:
        out.append({**x, key: seq[::-1]})
        out.append({**x, key: seq[1:]})
        i = rng.randrange(len(seq))
        twin = rng.choice(POOL)
        out.append({**x, key: seq[:i] + [pred_desc(twin, rng.choice(SCORES)) if key == "preds" else twin] + seq[i + 1:]})
    out.append({**x, key: seq + ([pred_desc(rng.choice(POOL), rng.choice(SCORES))] if key == "preds" else [rng.choice(POOL)])})
    return out


def _xh_op(name, fn_name, canon):
    def call(args):
        from soundevent.evaluation import encoding
        return getattr(encoding, fn_name)(args["items"], args["enc"])
    return history.history_op(name + "_history", OPS[name], _xh_build, call, lambda inp, args, res: canon(res),
                              snapshot=_xh_snapshot, modify=_xh_modify, poison=_xh_poison)


OPS["classification_history"] = _xh_op("classification", "classification_encoding", lambda r: None if r is None else int(r))
OPS["multilabel_history"] = _xh_op("multilabel", "multilabel_encoding", lambda r: [int(x) for x in r])
OPS["prediction_history"] = _xh_op("prediction", "prediction_encoding", lambda r: [rat(float(x)) for x in r])


def _fh_kw(inp, mk_default):
    kw = {}
    if "label" in inp:
        kw["label"] = inp["label"]
    if "term" in inp:
        kw["term"] = _opt(inp, "term", _fresh_term)
    if "default" in inp:
        kw["default"] = _opt(inp, "default", mk_default)
    return kw


def _fh_op(name, key, mk, fn_name, desc):
    def build(inp):
        return {"seq": [mk(d) for d in inp[key]], "kw": _fh_kw(inp, mk)}

    def call(args):
        from soundevent import data
        return getattr(data, fn_name)(args["seq"], **args["kw"])

    def canon(inp, args, res):
        return {"val": None if res is None else desc(res)}

    def snapshot(args):
        return [[desc(x) for x in args["seq"]], [id(x) for x in args["seq"]], sorted(args["kw"])]

    def modify(args, inp, how):
        # the caller keeps one list and refills it (with new objects: a returned element is the caller's own object,
        # and earlier results are read again at the end)
        return {"seq": _relist(args["seq"], [mk(d) for d in inp[key]]), "kw": _fh_kw(inp, mk)}

    return history.history_op(name + "_history", OPS[name], build, call, canon, snapshot=snapshot, modify=modify)


OPS["find_tag_history"] = _fh_op("find_tag", "tags", _fresh_tag, "find_tag",
                                 lambda t: _full(tag_to_desc(t)))
OPS["find_feature_history"] = _fh_op("find_feature", "features", _mk_feature, "find_feature", _feat_desc)


def _fh_variants(key, pool):
    def variants(x, rng):
        out = []
        for k in ("label", "term", "default"):
            if k in x:
                out.append({a: b for a, b in x.items() if a != k})
        if "default" not in x:
            out.append({**x, "default": rng.choice(pool)})
        if "label" not in x:
            out.append({**x, "label": rng.choice(["species", "Species", "colour"])})
        if "term" not in x:
            out.append({**x, "term": rng.choice([T0, T1, T2, T4])})
        seq = x[key]
        if seq:
            out.append({**x, key: seq[::-1]})
            out.append({**x, key: seq[1:]})
        out.append({**x, key: seq + [rng.choice(pool)]})
        return out
    return variants


_H_BASE = {"encoder_history": Op("encoder", None), "classification_history": OPS["classification"],
           "multilabel_history": OPS["multilabel"], "prediction_history": OPS["prediction"],
           "find_tag_history": OPS["find_tag"], "find_feature_history": OPS["find_feature"]}


def _stage_histories(ctx):
    rng = ctx.rng

    def run(opname, base, n, variants, hows, poison=False):
        hs = history.sequences(rng, base, n, variants=variants, reuse_hows=hows, poison=poison)
        for h in hs:
            for st in h["seq"]:
                ctx.tally(f"history {opname}:" + (st.get("reuse") or "fresh") + ("+poison" if st.get("poison") else ""))
        history.prefetch(ctx, _H_BASE[opname], hs)
        ctx.run_cases(OPS[opname], hs)
        ctx.__dict__.pop("_history_model_cache", None)

    probes = POOL[:8]
    base = [{"vocab": _random_vocab(rng, POOL, 5), "tags": probes} for _ in range(ctx.budget(60, 600))]
    base += [{"vocab": [CORE[0], CORE[3]], "tags": probes}, {"vocab": [CORE[1]], "tags": probes}]
    run("encoder_history", base, ctx.budget(90, 900), _eh_variants, H_REUSE)
    tcases = [_random_case(rng, "tags") for _ in range(ctx.budget(60, 600))]
    pcases = [_random_case(rng, "preds") for _ in range(ctx.budget(60, 600))]
    run("classification_history", tcases, ctx.budget(70, 700), _xh_variants, H_REUSE)
    run("multilabel_history", tcases, ctx.budget(90, 900), _xh_variants, H_REUSE, poison=True)
    run("prediction_history", pcases, ctx.budget(90, 900), _xh_variants, H_REUSE, poison=True)
    fcases = []
    for _ in range(ctx.budget(50, 500)):
        c = {"tags": [rng.choice(POOL[:8]) for _ in range(rng.choice([0, 1, 2, 3, 5]))]}
        for k, vals in (("term", [T0, T1, T2, T4, None]), ("label", ["species", "Species", "colour", "zz", None]),
                        ("default", POOL[:6] + [None])):
            if rng.random() < 0.5:
                c[k] = rng.choice(vals)
        fcases.append(c)
    run("find_tag_history", fcases, ctx.budget(70, 700), _fh_variants("tags", POOL[:8]), ("same_list",))
    ffeat = [{"term": t, "value": rat(v)} for t in (T0, T1, T2, T5) for v in (0.0, 1.0)]
    gcases = []
    for _ in range(ctx.budget(40, 400)):
        c = {"features": [rng.choice(ffeat) for _ in range(rng.choice([0, 1, 2, 3]))]}
        for k, vals in (("term", [T0, T1, T2, None]), ("label", ["species", "Species", "colour", None]),
                        ("default", ffeat + [None])):
            if rng.random() < 0.5:
                c[k] = rng.choice(vals)
        gcases.append(c)
    run("find_feature_history", gcases, ctx.budget(50, 500), _fh_variants("features", ffeat), ("same_list",))


# ------------------------------------------------------------------ generators
def _vocabs(pool, maxlen):
    for n in range(maxlen + 1):
        for perm in itertools.permutations(range(len(pool)), n):
            yield [pool[i] for i in perm]


def _lists(pool, maxlen, minlen=0):
    for n in range(minlen, maxlen + 1):
        for combo in itertools.product(range(len(pool)), repeat=n):
            yield [pool[i] for i in combo]


def _random_vocab(rng, pool, maxlen):
    return rng.sample(pool, rng.randint(0, min(maxlen, len(pool))))


def _random_case(rng, kind):
    vocab = _random_vocab(rng, POOL, 7)
    n = rng.choice([0, 1, 2, 3, 5, 8, 12])
    # bias towards in-vocabulary members with repeats, plus OOV members
    src = (vocab * 2 + POOL) if vocab else POOL
    tags = [rng.choice(src) for _ in range(n)]
    if kind == "tags":
        return {"vocab": vocab, "tags": tags}
    return {"vocab": vocab, "preds": [pred_desc(t, rng.choice(SCORES)) for t in tags]}


def _term_perturbations():
    """terms differing from T0 in exactly one field (every declared field, and the extras)"""
    out = [T0]
    for f in TERM_FIELDS:
        if f in ("label", "definition", "name", "type_of_term"):
            for alt in ("", "zz"):
                d = dict(T0)
                d[f] = alt
                out.append(d)
        else:
            for alt in ("", "zz"):
                d = dict(T0)
                d[f] = alt
                out.append(d)
    out.append(term_desc("species", "dwc:species", extra={"note": "n"}))
    out.append(term_desc("species", "dwc:species", extra={"note": "m"}))
    out.append(term_desc("species", "dwc:species", extra={"other": "n"}))
    out.append(term_desc("species", "dwc:species", extra={"note": "n", "other": "n"}))
    return out


# ---- hashable classes: base objects and one-field variants ---------------------------------------
def _bases():
    """class name -> (base kwargs, {field: [alternative values]}); nested objects are real objects"""
    from soundevent import data
    U = [str(_uuid.UUID(int=i + 1)) for i in range(40)]
    t0, t1, t2, t3 = (mk_term(T0), mk_term(T1), mk_term(T2), mk_term(T4))
    dt0, dt1 = datetime.datetime(2020, 1, 2, 3, 4, 5), datetime.datetime(2020, 1, 2, 3, 4, 6)
    user0 = dict(uuid=U[0], username="u", name="N")
    user1 = dict(uuid=U[0], username="v", name="N")
    rec0 = dict(uuid=U[1], path="a/rec.wav", duration=10.0, channels=1, samplerate=8000)
    rec1 = dict(uuid=U[1], path="a/rec.wav", duration=11.0, channels=1, samplerate=8000)
    mk = lambda c, kw: getattr(data, c)(**kw)  # noqa: E731
    tag = lambda t, v: data.Tag(term=t, value=v)  # noqa: E731
    feat = lambda t, v: data.Feature(term=t, value=v)  # noqa: E731
    box0 = lambda: data.BoundingBox(coordinates=[1.0, 100.0, 2.0, 200.0])  # noqa: E731
    box1 = lambda: data.BoundingBox(coordinates=[1.0, 100.0, 2.0, 250.0])  # noqa: E731
    ti = lambda: data.TimeInterval(coordinates=[1.0, 2.0])  # noqa: E731
    se = lambda u=U[2], g=box0, r=rec0, fs=(): data.SoundEvent(  # noqa: E731
        uuid=u, geometry=g() if g else None, recording=mk("Recording", r), features=list(fs))
    note = lambda u=U[3], m="hello", by=user0, iss=False, on=dt0: data.Note(  # noqa: E731
        uuid=u, message=m, created_by=mk("User", by) if by else None, is_issue=iss, created_on=on)
    ptag = lambda t, v, s: data.PredictedTag(tag=tag(t, v), score=s)  # noqa: E731
    sep = lambda u=U[5], s=0.5, e=None, tags=(): data.SoundEventPrediction(  # noqa: E731
        uuid=u, sound_event=e or se(), score=s, tags=list(tags))
    clip = lambda u=U[6], st=0.0, en=5.0: data.Clip(uuid=u, recording=mk("Recording", rec0),  # noqa: E731
                                                    start_time=st, end_time=en)
    seq = lambda u=U[7]: data.Sequence(uuid=u, sound_events=[se()])  # noqa: E731
    seqp = lambda u=U[8], s=0.5: data.SequencePrediction(uuid=u, sequence=seq(), score=s)  # noqa: E731
    B = {}
    B["Term"] = (lambda: dict(label="species", definition="d", name="dwc:species"),
                 {**{f: [lambda: "", lambda: "zz"] for f in TERM_FIELDS},
                  "+note": [lambda: "n", lambda: "m"],
                  # same field values, constructed differently (a default passed explicitly)
                  "<construction>": [lambda: {"uri": None, "comment": None}]})
    B["Tag"] = (lambda: dict(term=mk_term(T0), value="dog"),
                {"term": [lambda: t1, lambda: t2, lambda: t3], "value": [lambda: "cat", lambda: ""]})
    B["Feature"] = (lambda: dict(term=mk_term(T0), value=0.0),
                    {"term": [lambda: t1, lambda: t2, lambda: t3],
                     "value": [lambda: -0.0, lambda: 1.0, lambda: 1, lambda: 2.0 ** -52, lambda: -1.5]})
    B["Note"] = (lambda: dict(uuid=U[3], message="hello", created_by=mk("User", user0), is_issue=False, created_on=dt0),
                 {"uuid": [lambda: U[13]], "message": [lambda: "", lambda: "Hello"],
                  "created_by": [lambda: None, lambda: mk("User", user1)], "is_issue": [lambda: True],
                  "created_on": [lambda: dt1],
                  "<construction>": [lambda: {"is_issue": _DROP}]})
    B["SoundEvent"] = (lambda: dict(uuid=U[2], geometry=box0(), recording=mk("Recording", rec0), features=[feat(t0, 1.0)]),
                       {"uuid": [lambda: U[12]], "geometry": [lambda: None, box1, ti],
                        "recording": [lambda: mk("Recording", rec1)],
                        "features": [lambda: [], lambda: [feat(t0, 2.0)], lambda: [feat(t1, 1.0)],
                                     lambda: [feat(t0, 1.0), feat(t0, 1.0)]]})
    B["SoundEventAnnotation"] = (
        lambda: dict(uuid=U[4], sound_event=se(), notes=[note()], tags=[tag(t0, "dog")],
                     created_by=mk("User", user0), created_on=dt0),
        {"uuid": [lambda: U[14]], "sound_event": [lambda: se(u=U[12]), lambda: se(g=box1), lambda: se(g=None)],
         "notes": [lambda: [], lambda: [note(m="")], lambda: [note(iss=True)]],
         "tags": [lambda: [], lambda: [tag(t1, "dog")], lambda: [tag(t0, "cat")], lambda: [tag(t0, "dog"), tag(t0, "dog")]],
         "created_by": [lambda: None, lambda: mk("User", user1)], "created_on": [lambda: dt1]})
    B["SoundEventPrediction"] = (
        lambda: dict(uuid=U[5], sound_event=se(), score=0.5, tags=[ptag(t0, "dog", 0.5)]),
        {"uuid": [lambda: U[15]], "sound_event": [lambda: se(u=U[12]), lambda: se(fs=[feat(t0, 1.0)])],
         "score": [lambda: 0.0, lambda: 1.0, lambda: 1],
         "tags": [lambda: [], lambda: [ptag(t0, "dog", 0.0)], lambda: [ptag(t1, "dog", 0.5)], lambda: [ptag(t0, "", 0.5)]]})
    B["ClipPrediction"] = (
        lambda: dict(uuid=U[9], clip=clip(), sound_events=[sep()], sequences=[seqp()], tags=[ptag(t0, "dog", 0.5)],
                     features=[feat(t0, 1.0)]),
        {"uuid": [lambda: U[19]], "clip": [lambda: clip(u=U[16]), lambda: clip(en=6.0), lambda: clip(st=0.5)],
         "sound_events": [lambda: [], lambda: [sep(s=0.0)], lambda: [sep(u=U[15])], lambda: (sep(),)],
         "sequences": [lambda: [], lambda: [seqp(s=1.0)]],
         "tags": [lambda: [], lambda: [ptag(t0, "dog", 1.0)], lambda: [ptag(t2, "dog", 0.5)]],
         "features": [lambda: [], lambda: [feat(t0, 0.0)]]})
    return B


_DROP = object()


def _construct(cls_name, kw):
    from soundevent import data
    cls = getattr(data, cls_name)
    real = {}
    kw = dict(kw)
    for k, v in (kw.pop("<construction>", None) or {}).items():
        if v is _DROP:
            kw.pop(k)
        else:
            kw[k] = v
    for k, v in kw.items():
        if k.startswith("+"):
            real[k[1:]] = v
        else:
            real[cls.model_fields[k].alias or k] = v
    return cls(**real)


def _class_pool(cls_name, base, variants):
    """[(label, tree)] — base, an independently constructed copy, every one-field variant twice"""
    out = [("base", walk(_construct(cls_name, base()))), ("copy", walk(_construct(cls_name, base())))]
    for f, alts in variants.items():
        for j, alt in enumerate(alts):
            for rep in ("", "'"):
                kw = base()
                kw[f] = alt()
                out.append((f"{f}#{j}{rep}", walk(_construct(cls_name, kw))))
    return out


# ---- nearly equal values: 1 ulp, relative 1e-12 .. 1e-9, absolute 1e-12, other spellings -------------
def _ulp_up(x):
    return math.nextafter(x, math.inf)


NEAR_F = [0.3, 0.1 + 0.2, 1.0, _ulp_up(1.0), 1.0 - 2.0 ** -53, 1.0 + 1e-12, 1.0 + 1e-10, 1.0 + 1e-9, 1.0 + 2e-9,
          1e9, 1e9 + 1e-6, 1e9 * (1 + 1e-12), 1, 1e-12, 2e-12, 0.0, -0.0, 5e-324, -0.3, -(0.1 + 0.2)]
# the same for fields restricted to [0, 1]
NEAR_01 = [0.3, 0.1 + 0.2, 1.0, 1.0 - 2.0 ** -53, 1.0 - 1e-12, 1.0 - 1e-10, 1.0 - 1e-9, 1, 0.5, _ulp_up(0.5),
           0.5 * (1 + 1e-12), 0.5 + 1e-12, 1e-12, 2e-12, 0.0, -0.0, 5e-324, 0]
# positive times
NEAR_T = [0.3, 0.1 + 0.2, 1.0, _ulp_up(1.0), 1.0 + 1e-12, 1.0 + 1e-10, 1.0 + 1e-9, 1, 1e-12, 2e-12, 3600.0,
          _ulp_up(3600.0), 3600.0 * (1 + 1e-11)]
NEAR_S = ["dog", "Dog", "DOG", "dog ", " dog", "dog\t", "caf\u00e9", "cafe\u0301", "CAF\u00c9", "stra\u00dfe", "strasse",
          "\ufb01n", "fin", "", " "]


def _near_specs():
    """class -> [(label, values, builder(value) -> kwargs)]: objects that differ in one scalar only, by very little"""
    from soundevent import data
    U = [str(_uuid.UUID(int=i + 101)) for i in range(12)]
    t0 = lambda: mk_term(T0)  # noqa: E731
    rec = lambda: data.Recording(uuid=U[0], path="a/rec.wav", duration=7200.0, channels=1, samplerate=8000)  # noqa: E731
    feat = lambda v: data.Feature(term=t0(), value=v)  # noqa: E731
    tag = lambda v: data.Tag(term=t0(), value=v)  # noqa: E731
    ptag = lambda s: data.PredictedTag(tag=tag("dog"), score=s)  # noqa: E731
    se = lambda fs=(), g=None: data.SoundEvent(  # noqa: E731
        uuid=U[1], recording=rec(), features=list(fs), geometry=g or data.TimeInterval(coordinates=[0.0, 1.0]))
    user = lambda n: data.User(uuid=U[2], username=n, name="N")  # noqa: E731
    note = lambda m: data.Note(uuid=U[3], message=m, created_by=user("u"),  # noqa: E731
                               created_on=datetime.datetime(2020, 1, 2, 3, 4, 5))
    clip = lambda en: data.Clip(uuid=U[4], recording=rec(), start_time=0.0, end_time=en)  # noqa: E731
    sep = lambda s: data.SoundEventPrediction(uuid=U[5], sound_event=se(), score=s)  # noqa: E731
    tkw = lambda **kw: {"label": "species", "definition": "d", "name": "dwc:species", **kw}  # noqa: E731
    dt = datetime.datetime(2020, 1, 2, 3, 4, 5)
    S = {}
    S["Term"] = [("name", NEAR_S, lambda v: tkw(name=v)), ("label", NEAR_S, lambda v: tkw(label=v)),
                 ("uri", NEAR_S, lambda v: tkw(uri=v)), ("+note", NEAR_S, lambda v: {**tkw(), "+note": v})]
    S["Tag"] = [("value", NEAR_S, lambda v: dict(term=t0(), value=v)),
                ("term.label", NEAR_S, lambda v: dict(term=data.Term(**tkw(label=v)), value="dog"))]
    S["Feature"] = [("value", NEAR_F, lambda v: dict(term=t0(), value=v)),
                    ("term.name", NEAR_S, lambda v: dict(term=data.Term(**tkw(name=v)), value=0.5))]
    S["Note"] = [("message", NEAR_S, lambda v: dict(uuid=U[3], message=v, created_on=dt)),
                 ("created_by.username", NEAR_S[:8],
                  lambda v: dict(uuid=U[3], message="m", created_by=user(v), created_on=dt))]
    S["SoundEvent"] = [
        ("features.value", NEAR_F, lambda v: dict(uuid=U[1], recording=rec(), features=[feat(v)],
                                                  geometry=data.TimeInterval(coordinates=[0.0, 1.0]))),
        ("geometry.end", NEAR_T, lambda v: dict(uuid=U[1], recording=rec(),
                                                geometry=data.TimeInterval(coordinates=[0.0, v]))),
        ("geometry.high_freq", NEAR_T, lambda v: dict(uuid=U[1], recording=rec(),
                                                      geometry=data.BoundingBox(coordinates=[0.0, 0.0, 1.0, v])))]
    S["SoundEventAnnotation"] = [
        ("tags.value", NEAR_S, lambda v: dict(uuid=U[6], sound_event=se(), tags=[tag(v)], created_on=dt)),
        ("sound_event.features.value", NEAR_F, lambda v: dict(uuid=U[6], sound_event=se(fs=[feat(v)]), created_on=dt)),
        ("notes.message", NEAR_S[:8], lambda v: dict(uuid=U[6], sound_event=se(), notes=[note(v)], created_on=dt))]
    S["SoundEventPrediction"] = [
        ("score", NEAR_01, lambda v: dict(uuid=U[5], sound_event=se(), score=v)),
        ("tags.score", NEAR_01, lambda v: dict(uuid=U[5], sound_event=se(), score=0.5, tags=[ptag(v)])),
        ("sound_event.features.value", NEAR_F, lambda v: dict(uuid=U[5], sound_event=se(fs=[feat(v)]), score=0.5))]
    S["ClipPrediction"] = [
        ("clip.end_time", NEAR_T, lambda v: dict(uuid=U[7], clip=clip(v))),
        ("tags.score", NEAR_01, lambda v: dict(uuid=U[7], clip=clip(5.0), tags=[ptag(v)])),
        ("features.value", NEAR_F, lambda v: dict(uuid=U[7], clip=clip(5.0), features=[feat(v)])),
        ("sound_events.score", NEAR_01, lambda v: dict(uuid=U[7], clip=clip(5.0), sound_events=[sep(v)]))]
    return S


def _near_cases(ctx):
    """all ordered pairs of objects of one class that differ in one scalar by very little (or in its spelling)"""
    cases = []
    for c, specs in _near_specs().items():
        for label, values, mk in specs:
            trees = []
            for v in values:
                trees.append(walk(_construct(c, mk(v))))
            for a in trees:
                for b in trees:
                    cases.append({"a": a, "b": b})
            ctx.tally(f"eq_hash near {c}.{label}", len(trees))
    return cases


# ---- follow-up (wave 6): fully populated terms, one field apart --------------------------------------
# The one-field variants above start from a term whose optional fields are unset, so a pair of them never carries
# the same non-None uri (comment, see, ...) while differing elsewhere.  Here EVERY field of Term is set (non-None)
# on both sides, plus two extras, and exactly one field is changed / emptied / dropped -- for Term, for Tag and
# Feature on such terms and for the uuid-hashed classes holding them.  == is compared with the model's pyEq
# (equality is field equality: C19_eq_structural); whenever the real == says True, hash / set / dict / encoder
# are judged on the real objects.
def _full_term_pool():
    """[(label, field, kwargs)]: the fully populated base, a copy, and per field (declared, read from the class, and
    extras) the base with that one field changed / emptied / dropped"""
    from soundevent import data
    fields = list(data.Term.model_fields)
    base = {f: ("http://x/" + f if f == "uri" else f + "-v") for f in fields}
    base["+note"], base["+other"] = "n", "o"
    out = [("base", None, base), ("copy", None, dict(base))]
    for f in base:
        fi = data.Term.model_fields.get(f)
        for j, alt in enumerate(("zz", "", _DROP)):
            kw = dict(base)
            if alt is _DROP:
                if fi is not None and fi.is_required():
                    continue
                kw.pop(f)
            else:
                kw[f] = alt
            out.append((f"{f}#{j}", f, kw))
    out.append(("+more#0", "+more", {**base, "+more": "m"}))
    return out


def _full_cases(ctx):
    from soundevent import data
    rng = ctx.rng
    B = _bases()
    pool = []
    for label, f, kw in _full_term_pool():
        try:
            _construct("Term", kw)
        except Exception as e:       # a field that no longer takes a string: said, not a failure of the property
            ctx.note(f"fully populated term variant {label} cannot be constructed ({type(e).__name__}); not generated")
            continue
        pool.append((label, f, kw))
    T = lambda kw: _construct("Term", kw)  # noqa: E731
    tag = lambda kw, v="dog": data.Tag(term=T(kw), value=v)  # noqa: E731
    feat = lambda kw, v=1.5: data.Feature(term=T(kw), value=v)  # noqa: E731
    ptag = lambda kw: data.PredictedTag(tag=tag(kw), score=0.5)  # noqa: E731

    def inside(c, field, mk):
        def make(kw):
            base = B[c][0]()
            base[field] = mk(kw)
            return _construct(c, base)
        return make
    makers = {"Term": T, "Tag": tag, "Feature": feat,
              "SoundEvent": inside("SoundEvent", "features", lambda kw: [feat(kw)]),
              "SoundEventAnnotation": inside("SoundEventAnnotation", "tags", lambda kw: [tag(kw)]),
              "SoundEventPrediction": inside("SoundEventPrediction", "tags", lambda kw: [ptag(kw)]),
              "ClipPrediction": inside("ClipPrediction", "features", lambda kw: [feat(kw)])}
    cases = []
    for c, mk in makers.items():
        trees = [(label, f, walk(mk(kw))) for label, f, kw in pool]
        if c == "Tag":
            trees.append(("value#0", "value", walk(tag(pool[0][2], "cat"))))
        if c == "Feature":
            trees.append(("value#0", "value", walk(feat(pool[0][2], 2.5))))
        small = c in ("Term", "Tag", "Feature")
        near, far = [], []
        for (la, fa, a), (lb, fb, b) in itertools.product(trees, repeat=2):
            # one field apart (or equal): base / copy against everything, and the variants of one field among themselves
            (near if fa is None or fb is None or fa == fb else far).append({"a": a, "b": b})
        if small:
            n = ctx.budget(400, len(far))
            far = far if n >= len(far) else rng.sample(far, n)      # two fields apart, the rest shared
        else:
            far = []
        cases += near + far
        ctx.tally(f"eq_hash full {c}: pairs one field apart, every other field set on both sides", len(near))
        ctx.tally(f"eq_hash full {c}: pairs two fields apart", len(far))
    return cases



def _eq_hash_cases(ctx):
    cases = []
    B = _bases()
    pools = {c: _class_pool(c, *B[c]) for c in B}
    for c, pool in pools.items():
        for (la, a), (lb, b) in itertools.product(pool, repeat=2):
            cases.append({"a": a, "b": b})
        ctx.tally("eq_hash pool " + c, len(pool))
    # objects that came to exist in other ways than the constructor, after having been hashed once:
    # changed in place / copied with an update from the base, plain copies, pickles, re-validated dumps
    from soundevent import data
    for c, pool in pools.items():
        frozen = bool(getattr(data, c).model_config.get("frozen"))
        base = pool[0][1]
        for label, tree in pool:
            for how in HOWS:
                if how in MUTATING_HOWS + ("inplace_list",) and frozen:
                    continue
                derived = how in DERIVED_HOWS
                if derived and (label in ("base", "copy") or label.endswith("'") or label.startswith(("+", "<"))):
                    continue
                if not derived and label.endswith("'"):
                    continue
                case = {"a": tree, "b": tree, "how": how}
                if derived:
                    case["origin"] = base
                cases.append(case)
                ctx.tally("eq_hash via " + how)
    # cross-class pairs: same field values, different classes
    for c1, c2 in itertools.permutations(["Tag", "Feature", "SoundEvent", "Note"], 2):
        cases.append({"a": pools[c1][0][1], "b": pools[c2][0][1]})
    # follow-up 3: one uuid shared *across* kinds (a prediction carrying the uuid of an annotation, a note that of a
    # sound event): the hashes may collide, the objects must stay unequal and apart in sets and dicts
    shared = str(_uuid.UUID(int=777))
    uu = ["Note", "SoundEvent", "SoundEventAnnotation", "SoundEventPrediction", "ClipPrediction"]
    twins = {}
    for c in uu:
        kw = B[c][0]()
        kw["uuid"] = shared
        twins[c] = walk(_construct(c, kw))
    for c1, c2 in itertools.permutations(uu, 2):
        cases.append({"a": twins[c1], "b": twins[c2]})
    ctx.tally("eq_hash one uuid across kinds", len(uu) * (len(uu) - 1))
    return cases



# ---- follow-up 3: the same content through every construction path; neighbours through random paths ----
XTRA3 = {"+note": "n", "+other": "o", "+status": "s"}
XTRA2 = {"+note": "n", "+other": "o"}


def _path_contents():
    """class -> [(label, tree, has_extras)]: the base object, and one whose term(s) carry >= 2 extra attributes"""
    from soundevent import data
    B = _bases()
    tx = lambda X: _construct("Term", {**B["Term"][0](), **X})  # noqa: E731
    tag = lambda X, v="dog": data.Tag(term=tx(X), value=v)  # noqa: E731
    feat = lambda X, v=1.0: data.Feature(term=tx(X), value=v)  # noqa: E731
    ptag = lambda X: data.PredictedTag(tag=tag(X), score=0.5)  # noqa: E731
    out = {c: [("base", walk(_construct(c, B[c][0]())), False)] for c in B}
    out["Term"] += [("x2", walk(tx(XTRA2)), True), ("x3", walk(tx(XTRA3)), True)]
    out["Tag"].append(("x3", walk(tag(XTRA3)), True))
    out["Feature"].append(("x3", walk(feat(XTRA3)), True))
    for c, f, v in (("SoundEvent", "features", lambda: [feat(XTRA3)]),
                    ("SoundEventAnnotation", "tags", lambda: [tag(XTRA3), tag(XTRA2, "cat")]),
                    ("SoundEventPrediction", "tags", lambda: [ptag(XTRA3)]),
                    ("ClipPrediction", "tags", lambda: [ptag(XTRA2)])):
        kw = B[c][0]()
        kw[f] = v()
        out[c].append(("x3", walk(_construct(c, kw)), True))
    return out


def _recipes(has_extras, wide):
    ks = ([0, 1, 2, 3, 4, 5] if wide else [0, 3, 4]) if has_extras else [0]
    rs = [{"via": v, "k": k} for v in VIA_FRESH for k in ks]
    rs += [{"via": v, "k": ks[-1], "from": f} for v, f in zip(VIA_COPY, ["init", "json", "validate_plain", "init_rev", "json"])]
    return rs


def _path_cases(ctx):
    rng = ctx.rng
    cases = []
    contents = _path_contents()
    for c, items in contents.items():
        small = c in ("Term", "Tag", "Feature")
        for label, tree, has_x in items:
            rs = _recipes(has_x, wide=(c == "Term" and label == "x3"))
            if small:
                pairs = [(ra, rb) for ra in rs for rb in rs]
            else:
                pairs = [(r, rs[0]) for r in rs] + [(rs[0], r) for r in rs] + [tuple(rng.sample(rs, 2)) for _ in range(30)]
            for ra, rb in pairs:
                cases.append({"a": tree, "b": tree, "pa": ra, "pb": rb})
            ctx.tally(f"eq_hash paths {c}.{label}", len(pairs))
    # one optional field at a time passed explicitly as None (C19-5), through three ways of construction
    for c, items in contents.items():
        tree = items[0][1]
        for f in tree.get("omit", []):
            for via in ("init", "validate_plain", "json"):
                cases.append({"a": tree, "b": tree, "pa": {"via": via, "none": [f]}, "pb": {"via": "init"}})
                cases.append({"a": tree, "b": tree, "pa": {"via": "init"}, "pb": {"via": via, "none": [f]}})
                ctx.tally("eq_hash explicit None " + c)
    # neighbours (one-field variants of the pools) through random paths: == must stay false / true as modelled
    B = _bases()
    for c in B:
        pool = _class_pool(c, *B[c])
        n = ctx.budget(260, 2600) if c == "Term" else ctx.budget(90, 900)
        for _ in range(n):
            (la, a), (lb, b) = rng.choice(pool), rng.choice(pool)
            ra, rb = ({"via": rng.choice(VIAS), "k": rng.randrange(6), "from": rng.choice(VIA_FRESH[:5])} for _ in range(2))
            cases.append({"a": a, "b": b, "pa": ra, "pb": rb})
        ctx.tally("eq_hash pool pairs through random paths " + c, n)
    return cases


# ---- follow-up 3: the extras of a term as the insertion-ordered dict they are (model: RawTerm) -------
XVIAS = ["init", "validate", "json", "update"]


def _term_with_items(desc, items, via):
    import json
    from soundevent import data
    kw = {}
    for f, v in desc.items():
        if f != "extra":
            kw[data.Term.model_fields[f].alias or f] = v
    if via == "init":
        return data.Term(**kw, **dict(items))
    if via == "validate":
        return data.Term.model_validate({**kw, **dict(items)})
    if via == "json":
        return data.Term.model_validate_json(json.dumps({**kw, **dict(items)}))
    t = data.Term(**kw)
    hash(t)
    return t.model_copy(update=dict(items))


def _impl_extras_eq(inp):
    from soundevent import data
    objs = []
    for side in ("a", "b"):
        d = inp[side]
        t = _term_with_items(d["term"], [tuple(x) for x in d["items"]], d.get("via", "init"))
        if [list(x) for x in (t.__pydantic_extra__ or {}).items()] != d["items"]:
            return {"skip": "the extras are not kept in the order they were given"}
        if tag_to_desc(data.Tag(term=t, value="v"))["term"] != d["term"]:
            raise AssertionError("descriptor does not describe the constructed term")
        objs.append(t)
    a, b = objs
    r = (a == b)
    if (b == a) != r:
        raise AssertionError("__eq__ is not symmetric")
    ta, tb = data.Tag(term=a, value="v"), data.Tag(term=b, value="v")
    fa, fb = data.Feature(term=a, value=2.5), data.Feature(term=b, value=2.5)
    return {"eq": bool(r), "hash_eq": hash(a) == hash(b), **_membership(a, b), **_encoder_follows(a, b),
            "tag": {"eq": ta == tb, "hash_eq": hash(ta) == hash(tb), **_membership(ta, tb)},
            "feature": {"eq": fa == fb, "hash_eq": hash(fa) == hash(fb), **_membership(fa, fb)}}


def _cmp_extras_eq(inp, io, mo):
    if "skip" in io:
        _SKIPPED[0] += 1
        return None
    if "raise" in io:
        return "constructing / comparing the terms raised"
    if not (mo["wf"] and mo["canon_is_sent"]):
        return "harness: the descriptor sent is not the canonical form of the term as constructed"
    if not (mo["py_eq"] == mo["canon_eq"] == mo["sent_eq"]):
        return "model: dict equality of the extras differs from equality of the key-sorted items"
    if io["eq"] != mo["py_eq"]:
        return "Term.__eq__ differs from field equality with the extras compared as a dict (order-insensitive)"
    if io["tag"]["eq"] != mo["py_eq"] or io["feature"]["eq"] != mo["py_eq"]:
        return "== of the tags / features built on the two terms differs from == of the terms"
    return None


def _holds_extras_eq(ctx, inp, io):
    if not isinstance(io, dict) or "eq" not in io:
        return None
    for what, d in (("Term", io), ("Tag on the term", io["tag"]), ("Feature on the term", io["feature"])):
        msg = _holds_eq_hash(ctx, {}, d)
        if msg:
            return f"{what}: {msg} (extras given as {jkey(inp['a']['items'])} via {inp['a'].get('via')} / "\
                   f"{jkey(inp['b']['items'])} via {inp['b'].get('via')})"
    return None


def _extras_cases(ctx):
    base = {f: v for f, v in _full({"term": T0, "value": ""})["term"].items() if v is not None and f != "extra"}
    vals = {"note": ["n", "m"], "other": ["o"], "status": ["s"]}
    lists = []
    for r in range(4):
        for keys in itertools.permutations(sorted(vals), r):
            for nv in (vals["note"] if "note" in keys else [None]):
                lists.append([[k, (nv if k == "note" else vals[k][0])] for k in keys])
    lists += [[["note", "o"], ["other", "n"]], [["other", "n"], ["note", "o"]]]      # the values swapped
    cases = []
    for i, a in enumerate(lists):
        for j, b in enumerate(lists):
            mk = lambda items, via: {"term": {**base, "extra": sorted(items)}, "items": items, "via": via}  # noqa: E731
            cases.append({"a": mk(a, XVIAS[(i + j) % 4]), "b": mk(b, XVIAS[(i // 2 + 3 * j) % 4])})
    ctx.tally("extras_eq item lists", len(lists))
    return cases


# two terms whose extras were supplied in given orders / ways, against the RawTerm model of Encoding.lean
OPS["extras_eq"] = Op("extras_eq", _impl_extras_eq, compare=_cmp_extras_eq, holds=_holds_extras_eq, determined=False,
                      to_model=lambda i: {k: {"term": i[k]["term"], "items": i[k]["items"]} for k in ("a", "b")},
                      nontrivial=lambda i, o: isinstance(o, dict) and "eq" in o)


# ------------------------------------------------------------------ tie 1: tables
def _lean_strs(xs):
    return "[" + ", ".join('"%s"' % x for x in xs) + "]"


def _tables(ctx):
    import importlib
    import pkgutil
    from pydantic import BaseModel
    import soundevent.data as D
    # (a) declared fields of Term
    fields = list(D.Term.model_fields)
    ctx.obligation("term_fields", f"example : SE.Encoding.termFieldNames = {_lean_strs(fields)} := by decide")
    # (b) which classes carry a hand-written __hash__ / are hashable at all
    own, hashable = [], []
    for m in pkgutil.iter_modules(D.__path__):
        mod = importlib.import_module("soundevent.data." + m.name)
        for n, c in vars(mod).items():
            if isinstance(c, type) and issubclass(c, BaseModel) and c.__module__ == mod.__name__:
                if _hand_written_hash(c):
                    own.append(n)
                if c.__hash__ is not None:
                    hashable.append(n)
                if "__eq__" in c.__dict__:
                    ctx.note(f"{n} overrides __eq__ (covered only if it is one of the eight pools)")
    own = sorted(set(own))
    hashable = sorted(set(hashable))
    ctx.obligation("hashed_classes",
                   f"example : SE.Encoding.hashedClasses = {_lean_strs(own)} := by decide\n"
                   f"example : ∀ c ∈ {_lean_strs(hashable)}, c ∈ SE.Encoding.hashedClasses := by decide",
                   {"own_hash": own, "hashable": hashable})
    # (c) per class: which fields __eq__ distinguishes, which fields __hash__ depends on (one-field perturbation)
    B = _bases()
    for c in HASHED:
        if c not in B or not hasattr(D, c):
            continue
        base, variants = B[c]
        a = _construct(c, base())
        a2 = _construct(c, base())
        eq_reads, hash_reads = [], []
        if hash(a) != hash(a2):
            hash_reads.append("<identity>")
        if not (a == a2):
            eq_reads.append("<identity>")
        declared = list(getattr(D, c).model_fields)
        missing = [f for f in declared if f not in variants]   # every declared field must be perturbed
        for f, alts in variants.items():
            e = h = False
            for alt in alts:
                kw = base()
                kw[f] = alt()
                b = _construct(c, kw)
                e = e or not (a == b)
                h = h or hash(a) != hash(b)
            if e:
                eq_reads.append(f)
            if h:
                hash_reads.append(f)
        # follow-up 3: the same content through another construction path / with the extras in another order is a
        # pseudo-field too: a hash that tells such twins apart reads something `==` does not
        try:
            twins = [t for _l, t, _x in _path_contents().get(c, [])]
        except Exception:  # noqa: BLE001
            twins = []
        for tree in twins:
            ref = obtain(tree, {"via": "init"})
            for r in _recipes(True, wide=False):
                tw = obtain(tree, r)
                if _strip_omit(walk(tw)) != _strip_omit(tree):
                    continue
                tagname = f"<path:{r['via']}/{r['k']}>"
                if not (ref == tw) and tagname not in eq_reads:
                    eq_reads.append(tagname)
                if hash(ref) != hash(tw) and tagname not in hash_reads:
                    hash_reads.append(tagname)
        row = f'(SE.Encoding.HashRow.mk "{c}" {_lean_strs(eq_reads)} {_lean_strs(hash_reads)})'
        src = (f"example : {row}.wellFormed = true := by decide\n"
               f"example (a b : SE.Encoding.Record) (h : SE.Encoding.agreeOn {_lean_strs(eq_reads)} a b) :\n"
               f"    SE.Encoding.agreeOn {_lean_strs(hash_reads)} a b :=\n"
               f"  SE.Proofs.C19.C19_hash_table {row} (by decide) a b h\n"
               f"example : {_lean_strs(missing)} = ([] : List String) := by decide")
        ctx.obligation("hash_fields_" + c, src, {"cls": c, "eq_reads": eq_reads, "hash_reads": hash_reads,
                                                 "unperturbed_fields": missing})
        ctx.tally(f"table {c}: eq reads {len(eq_reads)} fields, hash reads {','.join(hash_reads) or '-'}")


def _hand_written_hash(c):
    f = c.__dict__.get("__hash__")
    return f is not None and getattr(f, "__module__", "").startswith("soundevent")




# ------------------------------------------------------------------ follow-up 3: sizes, extras in vocabularies
def _big_pool(n):
    """n distinct tags: a few terms (some sharing the name, some the label) x many values"""
    terms = [T0, T1, T2, T4, T5]
    return [{"term": terms[i % len(terms)], "value": "v%d" % (i // len(terms))} for i in range(n)]


def _stage_sizes(ctx):
    """sizes at which an implementation could switch strategy (HISTORIES.md section 4): vocabularies and tag lists of
    15..17, 255..257, 1023..1025 and more elements, repeats beyond those lengths"""
    rng = ctx.rng
    big = _big_pool(1400)
    sizes = [15, 16, 17, 255, 256, 257, 1023, 1024, 1025] + ([1300] if ctx.thorough() else [])
    enc_cases, tag_cases, pred_cases = [], [], []
    for n in sizes:
        vocab = rng.sample(big[:n + 40], n)
        probes = [vocab[0], vocab[-1], vocab[n // 2], big[n + 41], {"term": T3, "value": "v0"}] + rng.sample(big, 3)
        enc_cases.append({"vocab": vocab, "tags": probes})
        # a list as long as the threshold with repeats and out-of-vocabulary members; the first hit late in the list
        for m in (n, 17):
            oov = [t for t in big[n + 40:n + 60]]
            tags = [rng.choice(oov) for _ in range(m - 2)] + [vocab[rng.randrange(n)], vocab[rng.randrange(n)]]
            tag_cases.append({"vocab": vocab, "tags": tags})
            mixed = [rng.choice(vocab + oov) for _ in range(m)]
            tag_cases.append({"vocab": vocab[:17], "tags": mixed + mixed[:3]})
            pred_cases.append({"vocab": vocab[:max(1, n // 4)], "preds": [pred_desc(t, rng.choice(SCORES)) for t in mixed]})
    ctx.run_cases(OPS["encoder"], enc_cases)
    for name in ("classification", "multilabel"):
        ctx.run_cases(OPS[name], tag_cases)
    ctx.run_cases(OPS["prediction"], pred_cases)
    ctx.tally("size cases (vocabulary / list lengths " + ",".join(map(str, sizes)) + ")", len(enc_cases) + 2 * len(tag_cases)
              + len(pred_cases))
    # find_tag / find_feature over long lists: the match at the very end, beyond every threshold
    fc = []
    for n in (17, 257, 1025):
        seq = [big[i] for i in range(5, n + 4)] + [{"term": T3, "value": "last"}]
        fc.append({"tags": seq, "term": T3, "call": "pos"})
        fc.append({"tags": seq, "label": "colour", "default": CORE[0], "call": "kw_rev"})
        fc.append({"tags": seq + seq[:2], "term": T6, "default": CORE[3]})
    ctx.run_cases(OPS["find_tag"], fc)


T7 = term_desc("species", "dwc:species", extra={"note": "n", "other": "o"})
T8 = term_desc("species", "dwc:species", extra={"note": "o", "other": "n"})       # the same keys, the values swapped
T9 = term_desc("species", "dwc:species", extra={"note": "n", "other": "o", "status": "s"})
XPOOL = [{"term": T0, "value": "dog"}, {"term": T4, "value": "dog"}, {"term": T7, "value": "dog"},
         {"term": T8, "value": "dog"}, {"term": T9, "value": "dog"}, {"term": T7, "value": "cat"}]


def _stage_extras(ctx):
    """vocabularies over tags whose terms carry 0..3 extra attributes (the same keys with other values, a subset of
    the keys): every probe also through every construction path and every order of its extras"""
    rng = ctx.rng
    ctx.run_cases(OPS["encoder"], ({"vocab": v, "tags": XPOOL, "paths": "all"} for v in _vocabs(XPOOL, 3)))
    vocs = list(_vocabs(XPOOL, 2)) + [rng.sample(XPOOL, 4) for _ in range(10)] + [XPOOL]
    lists = list(_lists(XPOOL, 2))
    cases = [{"vocab": v, "tags": t, "xk": 1 + (i % 5)} for i, (v, t) in enumerate((v, t) for v in vocs for t in lists)]
    for name in ("classification", "multilabel"):
        ctx.run_cases(OPS[name], cases)
    ctx.exhaustive["extras in vocabularies"] = (f"encoder: all ordered vocabularies of <= 3 of {len(XPOOL)} tags over terms with "
                                                "0..3 extras, every probe through 9 construction recipes; classification / "
                                                f"multilabel: {len(vocs)} vocabularies x {len(lists)} lists, the extras of the "
                                                "probes in each of the 5 non-sorted orders")


# ------------------------------------------------------------------ follow-up (wave 5): object identities
T0F = {"term": T0, "value": "fish"}                                  # a term of the vocabulary with a value that is not
IPOOL = [{"term": T0, "value": "dog"}, {"term": T0, "value": "cat"}, {"term": T0, "value": ""},
         {"term": T1, "value": "dog"}, {"term": T1, "value": "cat"}, {"term": T5, "value": ""},
         {"term": T5, "value": "dog"}, {"term": T4, "value": "dog"}]
IPROBES = IPOOL + [T0F, {"term": T5, "value": "fish"}, {"term": T2, "value": "dog"}]


def _ident_random(rng, n):
    """an identity pattern chosen independently for the vocabulary and for each of n probes"""
    return {"share": rng.choice(IDENT_SHARE), "vcls": rng.choice(["tag", "tag", "sub", "mixed"]),
            "term": [rng.choice(IDENT_TERM) for _ in range(max(n, 1))],
            "obj": [rng.choice(IDENT_OBJ) for _ in range(max(n, 1))], "k": rng.randrange(6)}


def _stage_identity(ctx):
    """which Python objects carry the content must not matter: equal terms of the vocabulary as one shared object or
    as separate equal objects; the probe's term object fresh, the equal vocabulary tag's, or ANOTHER vocabulary tag's;
    the probe itself new, a model_copy(update), the vocabulary's object, a shallow copy, a subclass instance"""
    rng = ctx.rng
    thorough = ctx.thorough()
    _IDENT_SEEN.clear()
    # encoder: every vocabulary of <= 2 (<= 3 thorough) of the 8 tags over 4 terms (3 + 2 + 2 + 1 values) x every
    # (share, term, obj) pattern applied to all probes, the class of the vocabulary tags cycling
    pats = [{"share": s, "term": t, "obj": o} for s in IDENT_SHARE for t in IDENT_TERM for o in IDENT_OBJ]
    cases = []
    for v in _vocabs(IPOOL, 3 if thorough else 2):
        for j, pt in enumerate(pats):
            cases.append({"vocab": v, "tags": IPROBES, "ident": {**pt, "vcls": IDENT_VCLS[(j + len(cases)) % 3 if len(v) else 0],
                                                                "k": len(cases) % 6}})
    nv = len(cases) // len(pats)
    if not thorough:             # three tags over two terms (two of them on equal terms), every pattern
        for v in itertools.permutations(IPOOL[:4], 3):
            for j, pt in enumerate(pats):
                cases.append({"vocab": list(v), "tags": IPROBES, "ident": {**pt, "vcls": IDENT_VCLS[(j + len(cases)) % 3],
                                                                            "k": len(cases) % 6}})
    ctx.run_cases(OPS["encoder"], cases)
    ctx.run_cases(OPS["encoder"], ({"vocab": v, "tags": IPROBES, "ident": _ident_random(rng, len(IPROBES))}
                                   for v in (rng.sample(IPOOL, rng.randint(2, len(IPOOL)))
                                             for _ in range(ctx.budget(300, 6000)))))
    # the three encodings: vocabularies x lists, an independently chosen pattern per vocabulary and per element
    n = ctx.budget(700, 12000)
    for name in ("classification", "multilabel", "prediction"):
        out = []
        for i in range(n):
            v = rng.sample(IPOOL, rng.choice([1, 2, 2, 3, 3, 4, 8]))
            src = v * 2 + IPROBES
            tags = [rng.choice(src) for _ in range(rng.choice([1, 2, 2, 3, 4, 6]))]
            c = {"vocab": v, "ident": _ident_random(rng, len(tags))}
            if name == "prediction":
                c["preds"] = [pred_desc(t, rng.choice([0.25, 0.5, 1.0, 0.1])) for t in tags]
            else:
                c["tags"] = tags
            out.append(c)
        ctx.run_cases(OPS[name], out)
    ctx.exhaustive["object identities"] = (f"encoder: {nv} ordered vocabularies (<= {3 if thorough else 2} of {len(IPOOL)} tags "
                                           f"over 4 terms) x {len(pats)} identity patterns (equal vocabulary terms separate / "
                                           "shared / mixed x probe term object fresh / the equal vocabulary tag's / another "
                                           "vocabulary tag's x probe a new Tag / model_copy(update) / the vocabulary's object / "
                                           f"a shallow copy / a subclass instance), each probed with {len(IPROBES)} tags"
                                           + ("" if thorough else "; the same for the 24 vocabularies of 3 of the first 4 tags"))
    for kq, c in sorted(_IDENT_SEEN.items()):
        ctx.tally("identity: " + kq, c)
    # were the patterns realised?  (pydantic keeps the Term / Tag objects it is handed; if a change of the library made
    # it copy them, the stage would compare less than it says: said in a note - not a failure of the property)
    missing = [need for need in ("probe term object: ANOTHER vocabulary tag's", "vocabulary: equal terms as separate objects",
                                 "vocabulary: one term object on several tags", "probe object: the vocabulary's own",
                                 "probe object: subclass instance") if not _IDENT_SEEN.get(need)]
    if _IDENT_SEEN.get("PredictedTag did not keep the tag object it was given"):
        missing.append("PredictedTag keeps the tag object it is given")
    if missing:
        ctx.note("identity patterns that could not be laid out on the real objects (not exercised in this run): "
                 + "; ".join(missing))


# ------------------------------------------------------------------ follow-up 3: documented signatures (tie 1)
def _stage_signatures(ctx):
    """the parameter names and order of the public functions, re-extracted with inspect.signature, against the
    tables of the model (findTagSig, findFeatureSig, encodingSig); the call styles the check uses, bound by the
    model's `bindCall` (C19_call_binding, C19_find_call_styles)"""
    import inspect
    from soundevent import data
    from soundevent.evaluation import encoding
    table = [("find_tag", data, "find_tag", "findTagSig"), ("find_feature", data, "find_feature", "findFeatureSig"),
             ("classification_encoding", encoding, "encoding", "encodingSig"),
             ("multilabel_encoding", encoding, "encoding", "encodingSig"),
             ("prediction_encoding", encoding, "encoding", "encodingSig")]
    for fname, mod, sig, lean in table:
        fn = getattr(mod, fname, None)
        try:
            ps = list(inspect.signature(fn).parameters.values())
        except Exception as e:  # noqa: BLE001
            ctx.pre_failed.append("signature_" + fname)
            ctx.fail("obligation", "signature_" + fname, detail=f"no signature: {e!r}")
            continue
        # keyword-only parameters added behind the documented ones do not change how the documented calls bind
        names = [q.name for q in ps if q.kind in (q.POSITIONAL_ONLY, q.POSITIONAL_OR_KEYWORD)]
        posonly = [q.name for q in ps if q.kind == q.POSITIONAL_ONLY]
        defaults = [q.name for q in ps[1:] if q.kind == q.POSITIONAL_OR_KEYWORD and q.default is not None
                    and q.default is not q.empty]
        r = ctx.model("bind_call", {"sig": sig, "params": names, "npos": 1, "kw": []})
        _SIG_OK[fname] = bool(r["documented"]) and not posonly and not defaults
        ctx.obligation("signature_" + fname,
                       f"example : SE.Encoding.{lean} = {_lean_strs(names)} := by decide\n"
                       f"example : {_lean_strs(posonly + defaults)} = ([] : List String) := by decide",
                       {"function": fname, "parameters": names, "positional_only": posonly,
                        "defaults_other_than_None": defaults})
    fn = getattr(encoding, "create_tag_encoder", None)
    try:
        _SIG_OK["create_tag_encoder"] = [q.name for q in inspect.signature(fn).parameters.values()
                                         if q.default is q.empty] == ["tags"]
    except Exception:  # noqa: BLE001
        _SIG_OK["create_tag_encoder"] = False
    # the call styles of _find_call, bound by the model: every style binds the given arguments to their own names
    for sig, params in (("find_tag", ["tags", "label", "term", "default"]),):
        for given in itertools.chain.from_iterable(itertools.combinations(params[1:], r) for r in range(4)):
            for style in CALL_STYLES:
                order = params[1:]
                if style == "kw":
                    npos, kws = 1, [k for k in order if k in given]
                elif style == "kw_rev":
                    npos, kws = 0, [k for k in reversed(order) if k in given] + [params[0]]
                elif style == "pos":
                    npos, kws = 4, []
                elif style == "mixed":
                    npos, kws = 2, [k for k in order if k in given and k != "label"]
                else:
                    npos, kws = 1 + max([i + 1 for i, k in enumerate(order) if k in given] or [0]), []
                r = ctx.model("bind_call", {"sig": sig, "params": params, "npos": npos, "kw": kws})
                bound = dict((k, i) for k, i in (r["binding"] or []))
                want = {p: (i if i < npos else npos + kws.index(p)) for i, p in enumerate(params) if i < npos or p in kws}
                ctx.contract("call-style-binding", r["binding"] is not None and bound == want and
                             all(g in bound for g in given) and "tags" in bound,
                             {"style": style, "given": list(given)}, r["binding"])


# ------------------------------------------------------------------ run
def _encoder_cases(pool, maxlen, probe):
    for v in _vocabs(pool, maxlen):
        yield {"vocab": v, "tags": probe}


def _mark(cases, rng, k):
    """ask for the Lean-side `holds` on about one case in k"""
    for c in cases:
        if rng.random() * k < 1:
            c = {**c, "monitor": True}
        yield c


def run(ctx):
    ctx.stage("corpus", ctx.run_corpus, OPS)
    ctx.stage("tables", _tables, ctx)
    ctx.stage("hash-trace", _stage_hash_trace, ctx)
    ctx.stage("signatures", _stage_signatures, ctx)
    ctx.stage("discharge", ctx.discharge, ["SoundeventModel.Encoding", "Proofs.C19"])
    ctx.stage("encoder", _stage_encoder, ctx)
    ctx.stage("encodings", _stage_encodings, ctx)
    ctx.stage("prediction", _stage_prediction, ctx)
    ctx.stage("tag-equality", _stage_tag_eq, ctx)
    ctx.stage("eq-hash", _stage_eq_hash, ctx)
    ctx.stage("construction-paths", _stage_paths, ctx)
    ctx.stage("histories", _stage_histories, ctx)
    ctx.stage("sizes", _stage_sizes, ctx)
    ctx.stage("extras", _stage_extras, ctx)
    ctx.stage("identity", _stage_identity, ctx)
    ctx.stage("generic-encoders", _stage_generic, ctx)
    ctx.stage("find", _stage_find, ctx)
    ctx.stage("init", _stage_init, ctx)
    ctx.stage("raw-values", _stage_raw, ctx)


def _stage_encoder(ctx):
    rng = ctx.rng
    thorough = ctx.thorough()
    # encoder: every vocabulary of <= 4 distinct pool tags, probed with the whole pool
    ctx.run_cases(OPS["encoder"], _encoder_cases(POOL, 3 if not thorough else 4, POOL))
    ctx.run_cases(OPS["encoder"], _encoder_cases(CORE + POOL[5:7], 4, POOL))
    ctx.exhaustive["encoder"] = (f"all ordered vocabularies of <= {4 if thorough else 3} distinct tags from the "
                                 f"{len(POOL)}-tag pool and <= 4 from a 7-tag sub-pool, each probed with every pool tag "
                                 "(encode) and every index (decode)")
    ctx.run_cases(OPS["encoder"], ({"vocab": rng.sample(POOL, len(POOL)), "tags": POOL} for _ in range(20)))


def _stage_encodings(ctx):
    rng = ctx.rng
    thorough = ctx.thorough()
    core = CORE if not thorough else CORE + [POOL[5]]
    vocs = list(_vocabs(core, 4))
    L = 3 if not thorough else 4
    lists = list(_lists(core, L))
    for name in ("classification", "multilabel"):
        ctx.run_cases(OPS[name], _mark(({"vocab": v, "tags": t} for v in vocs for t in lists), rng, 400))
        ctx.run_cases(OPS[name], _mark((_random_case(rng, "tags") for _ in range(ctx.budget(3000, 40000))), rng, 100))
    ctx.exhaustive["classification/multilabel"] = (f"{len(vocs)} vocabularies (<= 4 of {len(core)} tags) x {len(lists)} "
                                                   f"tag lists (length <= {L}, repeats and OOV members)")


def _stage_prediction(ctx):
    rng = ctx.rng
    thorough = ctx.thorough()
    core = CORE if not thorough else CORE + [POOL[5]]
    pv = list(_vocabs(core, 3))
    sc = [0.25, 0.1, 0.0] if not thorough else [0.25, 0.1, 0.0, 1.0]
    items = [pred_desc(t, s) for t in core for s in sc]
    plists = list(_lists(items, 2))
    ctx.run_cases(OPS["prediction"], ({"vocab": v, "preds": p} for v in pv for p in plists))
    ctx.exhaustive["prediction"] = (f"{len(pv)} vocabularies (<= 3 of {len(core)} tags) x {len(plists)} predicted-tag "
                                    f"lists (length <= 2 over {len(core)} tags x {len(sc)} scores)")
    ctx.run_cases(OPS["prediction"], (_random_case(rng, "preds") for _ in range(ctx.budget(4000, 60000))))
    if _OPEN_DIFF[0]:
        ctx.note(f"{_OPEN_DIFF[0]} inputs on which one vocabulary tag is predicted with two different scores gave a vector "
                 "other than the model's last-write-wins one (left open by the property; not a failure)")
    # every score of the pool alone (float32 store of each value)
    ctx.run_cases(OPS["prediction"], ({"vocab": [CORE[0], CORE[1]], "preds": [pred_desc(CORE[1], s)]}
                                      for s in SCORES + SCORES_EDGE))
    import numpy as np
    for s in SCORES + SCORES_EDGE:
        ctx.contract("float32-store", float(np.float32(s)) == f32(s), {"score": rat(s)}, rat(float(np.float32(s))))
    # follow-up 3: the store at its rounding boundaries (ties of binary32, denormals), two predictions of one tag whose
    # scores differ in binary64 but are stored alike (the entry is then determined), the score handed over as an int /
    # bool / numpy scalar where that type holds it exactly
    edge = []
    for s in SCORES_EDGE:
        for t in (CORE[0], CORE[1]):
            edge.append({"vocab": [CORE[1], CORE[0]], "preds": [pred_desc(t, s), pred_desc(CORE[3], 1.0)]})
    for a, b in [(0.1, f32(0.1)), (_T1, 1.0), (_T2, 0.5), (2.0 ** -150, 0.0), (math.nextafter(_T1, 0), 1 - 2.0 ** -24)]:
        edge.append({"vocab": [CORE[0]], "preds": [pred_desc(CORE[0], a), pred_desc(CORE[0], b)]})
        edge.append({"vocab": [CORE[0]], "preds": [pred_desc(CORE[0], b), pred_desc(CORE[1], 0.7), pred_desc(CORE[0], a)]})
    ctx.run_cases(OPS["prediction"], edge)
    nums = []
    for i in range(ctx.budget(400, 4000)):
        c = _random_case(rng, "preds")
        sc = rng.choice([0.0, 1.0, 0.25, 0.5, 0.75])
        c["preds"] = [pred_desc(p["tag"], sc if rng.random() < 0.7 else float(Fraction(p["score"]))) for p in c["preds"]]
        nums.append({**c, "num": NUM_STYLES[i % len(NUM_STYLES)]})
    ctx.run_cases(OPS["prediction"], nums)
    for st in NUM_STYLES:
        ctx.tally("prediction score given as " + st, sum(1 for c in nums if c["num"] == st))


def _stage_tag_eq(ctx):
    # equality of tags against the concrete structure of the model
    terms = _term_perturbations()
    tagsp = [{"term": t, "value": "dog"} for t in terms] + POOL
    ctx.run_cases(OPS["tag_eq"], ({"a": a, "b": b} for a in tagsp for b in tagsp))
    ctx.exhaustive["tag_eq"] = f"all ordered pairs of {len(tagsp)} tags (every Term field perturbed one at a time, extras)"


def _stage_paths(ctx):
    """follow-up 3: equal content through every construction path, extras in every order"""
    ctx.run_cases(OPS["eq_hash"], _path_cases(ctx))
    ctx.run_cases(OPS["extras_eq"], _extras_cases(ctx))
    if _SKIPPED[0]:
        ctx.note(f"{_SKIPPED[0]} construction-path cases skipped: the path did not reproduce the content (validation "
                 "changed it); outside this property")
    ctx.exhaustive["eq_hash paths"] = ("per hashable class, the base object and one whose terms carry 2-3 extra attributes: "
                                       "all ordered pairs of construction recipes (" + ", ".join(VIAS) + "; every order of "
                                       "the extras) for Term / Tag / Feature, every recipe against the plain constructor "
                                       "for the uuid-hashed classes; every omitted optional field passed as None on its own")
    ctx.exhaustive["extras_eq"] = ("all ordered pairs of 29 item lists (every ordering of every subset of 3 extra keys, two "
                                   "values of one key, swapped values) x 4 ways of supplying them, against RawTerm.pyEq")


def _stage_eq_hash(ctx):
    # eq / hash on the eight classes
    ctx.run_cases(OPS["eq_hash"], _eq_hash_cases(ctx))
    ctx.run_cases(OPS["eq_hash"], _near_cases(ctx))
    ctx.run_cases(OPS["eq_hash"], _full_cases(ctx))
    ctx.exhaustive["eq_hash full"] = ("fully populated terms (every declared field non-None, two extras): per field the base "
                                      "with that field changed / emptied / dropped, as Term, inside Tag and Feature and "
                                      "inside the uuid-hashed classes; all ordered pairs one field apart (two fields apart: "
                                      "sampled in quick, all in thorough); judged: == vs field equality (pyEq), == => same "
                                      "hash => set / dict membership => encoder")
    ctx.exhaustive["eq_hash near"] = ("per hashable class and per scalar in reach of == (own fields and nested objects): all "
                                      "ordered pairs of values 1 ulp / relative 1e-12..1e-9 / absolute 1e-12 apart, int vs "
                                      "float spellings, signed zeros; strings differing by case, blanks, NFC/NFD, "
                                      "compatibility forms; judged: == vs exact equality, == => same hash, set / dict membership")
    ctx.exhaustive["eq_hash"] = ("all ordered pairs of {base, copy, every one-field variant twice} per hashable class; every "
                                 "pool object also obtained by " + ", ".join(HOWS) + " from an object hashed before")


# ------------------------------------------------------------------ review additions: stages
def _tables_of(K, P):
    vals = [None] + list(range(K))
    return [list(t) for t in itertools.product(vals, repeat=P)]


def _stage_generic(ctx):
    """the three encodings behind user-defined encoders: every table of P pool tags into {skip, 0..K-1}
    (many-to-one allowed) x every tag list of length <= 3"""
    rng = ctx.rng
    P = 3
    lists = [list(c) for n in range(4) for c in itertools.product(range(P), repeat=n)]
    cases = []
    for K in (0, 1, 2):
        for tbl in _tables_of(K, P):
            for tags in lists:
                cases.append({"n": K, "enc": tbl + [None], "tags": tags})
    extra = []
    for _ in range(ctx.budget(1500, 30000)):
        K = rng.choice([3, 4, 5])
        tbl = [rng.choice([None] + list(range(K))) for _ in range(4)]
        tags = [rng.randrange(4) for _ in range(rng.choice([0, 1, 2, 4, 7]))]
        extra.append({"n": K, "enc": tbl, "tags": tags})
    flags = [{}, {"np": True}, {"proto": True}] + [{"attr": k} for k in ATTR_KINDS] + [{"attr": "slots", "np": True}]
    allc = [{**c, **flags[i % len(flags)]} for i, c in enumerate(cases + extra)]
    for name in ("classification_g", "multilabel_g"):
        ctx.run_cases(OPS[name], allc)
    ctx.exhaustive["generic encoders"] = (f"every table of {P} tags into {{skip, 0..K-1}} for K <= 2 x {len(lists)} tag lists "
                                          "(length <= 3): classification_g, multilabel_g; plain int / numpy.int64 indices, "
                                          "duck-typed / Protocol-derived encoder")
    sc = [0.25, 0.1, 0.0]
    pc = []
    for K in (1, 2):
        for tbl in _tables_of(K, 2):
            for n in range(3):
                for combo in itertools.product(range(2), sc, repeat=n):
                    preds = [{"i": combo[2 * j], **_sc(combo[2 * j + 1])} for j in range(n)]
                    pc.append({"n": K, "enc": tbl + [None, None], "preds": preds})
    for _ in range(ctx.budget(1500, 30000)):
        K = rng.choice([2, 3, 5])
        tbl = [rng.choice([None] + list(range(K))) for _ in range(4)]
        preds = [{"i": rng.randrange(4), **_sc(rng.choice(SCORES))} for _ in range(rng.choice([0, 1, 2, 3, 6]))]
        pc.append({"n": K, "enc": tbl, "preds": preds})
    ctx.run_cases(OPS["prediction_g"], [{**c, **flags[i % len(flags)]} for i, c in enumerate(pc)])
    # indices outside [0, n): the index rule of the store (numpy) behind the Protocol
    oor = []
    for K in (0, 1, 2, 3):
        for e in range(-K - 2, K + 2):
            for other in (None, 0 if K else None):
                oor.append({"n": K, "enc": [e, other, None, None], "tags": [0, 1, 2]})
                oor.append({"n": K, "enc": [other, e, None, None], "tags": [1, 0]})
    ctx.run_cases(OPS["multilabel_oor"], [{**c, **flags[i % 2]} for i, c in enumerate(oor)])
    ctx.run_cases(OPS["prediction_oor"], [{"n": c["n"], "enc": c["enc"], **flags[i % 2],
                                           "preds": [{"i": t, **_sc(0.25 if j else 0.1)} for j, t in enumerate(c["tags"])]}
                                          for i, c in enumerate(oor)])
    # decode for any Python integer
    dc = []
    for n in range(0, 4):
        dc.append({"vocab": POOL[:n], "idx": list(range(-n - 2, n + 2))})
    ctx.run_cases(OPS["decode_i"], dc)
    # the index rules themselves are the library's: contracts on numpy and on list / tuple
    import numpy as np
    for n in range(0, 5):
        idx = list(range(-n - 2, n + 3))
        want = ctx.model("norm_idx", {"n": n, "idx": idx})
        for i, w in zip(idx, want):
            got = []
            for mk, ix in ((lambda: np.zeros(n, dtype=np.int32), i), (lambda: np.zeros(n, dtype=np.float32), np.int64(i)),
                           (lambda: [0] * n, i)):
                a = mk()
                try:
                    a[ix] = 1
                    got.append([k for k in range(n) if a[k] == 1])
                except IndexError:
                    got.append(None)
            try:
                got.append([list(range(n)).index(tuple(range(n))[i])])
            except IndexError:
                got.append(None)
            ok = all(g == (None if w is None else [w]) for g in got)
            ctx.contract("index-rule", ok, {"n": n, "i": i}, got)


def _sc(s):
    return {"score": rat(s), "score32": rat(f32(s))}


def _find_product(key, pool, terms, labels, defaults, rng, maxlen):
    """{no term, terms} x {no label, labels} x {no default, None, defaults} x every list of length <= maxlen, each case
    with one of the call styles (every style for the short lists)"""
    cases = []
    lists = [list(c) for n in range(maxlen + 1) for c in itertools.product(range(len(pool)), repeat=n)]
    i = 0
    for idx in lists:
        seq = [pool[j] for j in idx]
        for term in [_DROP] + terms:
            for label in [_DROP] + labels:
                for default in [_DROP, None] + defaults:
                    c = {key: seq}
                    if term is not _DROP:
                        c["term"] = term
                    if label is not _DROP:
                        c["label"] = label
                    if default is not _DROP:
                        c["default"] = default
                    styles = CALL_STYLES if len(seq) <= 1 else [CALL_STYLES[i % len(CALL_STYLES)]]
                    i += 1
                    for st in styles:
                        cases.append({**c, "call": st})
    return cases, len(lists)


def _stage_find(ctx):
    rng = ctx.rng
    pool = POOL[:6]
    terms = [T0, T1, T2, T4, T5]
    labels = ["species", "Species", "colour", "", "zz"]
    cases, nl = _find_product("tags", pool[:4], terms[:3] + [None], ["species", "Species", None], [pool[0], pool[5]], rng,
                              3 if ctx.thorough() else 2)
    for _ in range(ctx.budget(600, 8000)):
        c = {"tags": [rng.choice(POOL) for _ in range(rng.choice([0, 1, 2, 3, 5, 8, 17, 40]))], "call": rng.choice(CALL_STYLES)}
        if rng.random() < 0.6:
            c["term"] = rng.choice(terms + [None])
        if rng.random() < 0.6:
            c["label"] = rng.choice(labels + [None])
        if rng.random() < 0.5:
            c["default"] = rng.choice(POOL + [None])
        cases.append(c)
    ctx.run_cases(OPS["find_tag"], cases)
    ctx.exhaustive["find_tag"] = (f"{nl} tag lists (length <= {3 if ctx.thorough() else 2} over 4 pool tags) x {{no term, 3 terms, "
                                  "None}} x {no label, 2 labels, None} x {no default, None, a tag of the list, another tag}, "
                                  "called by keyword (both orders), positionally, mixed; random longer ones")
    # the sibling, through the same product (features over name-sharing / label-sharing terms)
    fpool = [{"term": t, "value": rat(v)} for t, v in ((T0, 0.0), (T1, 1.0), (T2, -1.5), (T0, 1.0))]
    fcases, nf = _find_product("features", fpool, terms[:3] + [None], ["species", "Species", None],
                               [fpool[0], {"term": T5, "value": rat(2.0)}], rng, 3 if ctx.thorough() else 2)
    vals = [0.0, 1.0, -1.5]
    for _ in range(ctx.budget(600, 8000)):
        c = {"features": [{"term": rng.choice(terms), "value": rat(rng.choice(vals))}
                          for _ in range(rng.choice([0, 1, 2, 3, 5, 17]))], "call": rng.choice(CALL_STYLES)}
        if rng.random() < 0.6:
            c["term"] = rng.choice(terms + [None])
        if rng.random() < 0.6:
            c["label"] = rng.choice(labels + [None])
        if rng.random() < 0.5:
            c["default"] = rng.choice([None, {"term": T5, "value": rat(2.0)}])
        fcases.append(c)
    fcases.append({"features": []})
    fcases.append({"features": [{"term": T0, "value": "0"}], "label": None, "term": None})
    ctx.run_cases(OPS["find_feature"], fcases)
    ctx.exhaustive["find_feature"] = f"the same product as find_tag over {nf} feature lists"
    for st in CALL_STYLES:
        ctx.tally("find call style " + st, sum(1 for c in cases + fcases if c.get("call") == st))


KEYS = ["animal", "", "a:b", "soundevent:animal", "Animal", " ", "ünï", "species"]


def _stage_init(ctx):
    cases, fcases = [], []
    for how in ("init", "validate"):
        for key in [None] + KEYS:
            for term in (None, T0, T1, term_desc("animal", "soundevent:animal", definition="Unknown")):
                for value in ("dog", ""):
                    cases.append({"key": key, "term": term, "value": value, "how": how})
                for value in (0.0, 1.5):
                    fcases.append({"name": key, "term": term, "value": rat(value), "how": how})
    ctx.run_cases(OPS["tag_init"], cases)
    ctx.run_cases(OPS["feature_init"], fcases)
    ctx.exhaustive["tag_init/feature_init"] = (f"{{no key, {len(KEYS)} keys}} x {{no term, 3 terms}} x 2 values x "
                                               "{constructor, model_validate}")


def _stage_raw(ctx):
    """objects holding an int where a float is declared / a signed zero, reached without validation"""
    cases = []
    from soundevent import data
    for cls, base, field in _raw_specs():
        variants = []
        frozen = bool(getattr(data, cls).model_config.get("frozen"))
        for num, vs in RAW_NUMS.items():
            for k, v in enumerate(vs):
                for how in RAW_HOWS:
                    if how == "setattr" and frozen:
                        continue
                    o = _raw_variant(_construct(cls, base()), field, v, how)
                    variants.append({"cls": cls, "num": num, "k": k, "how": how, "tree": walk_raw(o)})
        for a in variants:
            for b in variants:
                if a["how"] == b["how"] or a["num"] == b["num"]:
                    cases.append({"a": a, "b": b})
        ctx.tally("py_eq_hash variants " + cls, len(variants))
    ctx.run_cases(OPS["py_eq_hash"], cases)
    # CPython's numeric hash invariant (hypothesis `hfi` of C19_pyhash_respects_eq) on the values used
    for vs in RAW_NUMS.values():
        ctx.contract("numeric-hash-invariant", len({hash(v) for v in vs}) == 1 and all(v == vs[0] for v in vs),
                     {"values": [repr(v) for v in vs]}, [hash(v) for v in vs])


# ---- tie 1b for the hand-written hashes: run them on opaque field values ---------------------------
class _Untraceable(Exception):
    pass


class _Leaf:
    """an opaque field value: it can be hashed (logged) and dereferenced, nothing else"""
    __slots__ = ("_path", "_h", "_log")

    def __init__(self, path, h, log):
        object.__setattr__(self, "_path", path)
        object.__setattr__(self, "_h", h)
        object.__setattr__(self, "_log", log)

    def __hash__(self):
        self._log.append(self._path)
        return self._h

    def __getattr__(self, name):
        if name.startswith("__"):
            raise AttributeError(name)
        return _Leaf(self._path + "." + name, hash((self._h, name)), self._log)

    def _no(self, *a, **k):
        raise _Untraceable("a field value is inspected otherwise than by hashing it: " + self._path)

    __eq__ = __ne__ = __lt__ = __le__ = __gt__ = __ge__ = __bool__ = __len__ = __iter__ = _no
    __str__ = __repr__ = __format__ = __int__ = __float__ = __index__ = __bytes__ = __getitem__ = _no


def _hash_trace(cls, seed, xorder=0):
    """hash(obj) for a genuine instance of `cls` whose every field is an opaque leaf; a class that allows extra
    attributes also gets two of them (leaves as well), inserted in the order `xorder` names"""
    import random
    r = random.Random(seed)
    log = []
    names = list(cls.model_fields)
    extras = ["+xa", "+xb"] if cls.model_config.get("extra") == "allow" else []
    hs = {f: r.randrange(1, 2 ** 60) for f in names + extras}
    kw = {f: _Leaf(f, hs[f], log) for f in names}
    for f in (extras if not xorder else extras[::-1]):
        kw[f[1:]] = _Leaf(f, hs[f], log)
    obj = cls.model_construct(**kw)
    return hash(obj), log, hs


def _stage_hash_trace(ctx):
    import soundevent.data as D
    rows = []
    for c in HASHED:
        cls = getattr(D, c, None)
        name = "hash_trace_" + c
        if cls is None:
            ctx.pre_failed.append(name)
            ctx.fail("obligation", name, detail="class is gone")
            continue
        try:
            r1, log1, _ = _hash_trace(cls, 1)
            r1b, log1b, _ = _hash_trace(cls, 1)          # another instance, same field hashes
            r2, log2, _ = _hash_trace(cls, 2)            # other field hashes
            r1c = hash(cls.model_construct(**{f.lstrip("+"): _Leaf(f, h, []) for f, h in _hash_trace(cls, 1)[2].items()}))
            r1x, log1x, _ = _hash_trace(cls, 1, xorder=1)  # the extras inserted in the other order
        except Exception as e:  # noqa: BLE001
            ctx.symbolic_ties[name] = {"error": repr(e)[:300]}
            ctx.pre_failed.append(name)
            ctx.fail("obligation", name, detail=f"the hand-written __hash__ could not be run on opaque field values: {e!r}",
                     extra={"cls": c})
            continue
        heads = sorted({p.split(".")[0] for p in log1})
        det = (r1 == r1b == r1c == r1x) and log1 == log1b == log2 and sorted(log1) == sorted(log1x)
        sens = r1 != r2 if log1 else True
        ctx.symbolic_ties[name] = {"paths": 1, "hashed": log1}
        rows.append((c, heads))
        declared = list(cls.model_fields) + (["+xa", "+xb"] if cls.model_config.get("extra") == "allow" else [])
        src = (f"-- hash({c}) on opaque field values: hashed {log1}; same on another instance / extras reordered: {det}\n"
               f"example : ({'true' if det else 'false'} && {'true' if sens else 'false'}) = true := by decide\n"
               f"example : (SE.Encoding.HashRow.mk \"{c}\" {_lean_strs(declared)} {_lean_strs(heads)}).wellFormed = true "
               f":= by decide")
        ctx.obligation(name, src, {"cls": c, "hashed": log1, "deterministic": det})
        ctx.tally(f"hash trace {c}: hashes {','.join(log1) or '-'}")
    # the theorem `equal objects hash equally` instantiated with the extracted table (for all values)
    tbl = "[" + ", ".join(f'("{c}", {_lean_strs(h)})' for c, h in rows) + "]"
    src = ("example (H : SE.Encoding.PyHasher) (hfi : ∀ n : Int, H.float n = H.int n) (a b : SE.Encoding.PyVal)\n"
           "    (h : SE.Encoding.PyVal.beq a b = true) :\n"
           f"    SE.Encoding.pyHash (SE.Encoding.tableOf {tbl}) H a = SE.Encoding.pyHash (SE.Encoding.tableOf {tbl}) H b :=\n"
           f"  SE.Proofs.C19.C19_pyhash_respects_eq _ H hfi a b h")
    ctx.obligation("hash_trace_table", src, {"table": rows})
    model_tbl = {"Term": ["name"], "Tag": ["term", "value"], "Feature": ["term", "value"]}
    for c, h in rows:
        if h != model_tbl.get(c, ["uuid"]):
            ctx.note(f"{c}.__hash__ now hashes {h} (the model's default table says {model_tbl.get(c, ['uuid'])}); "
                     "the theorem was instantiated with the extracted table")


def search(ctx, failures):
    """something no longer checks: widest scopes, with the Lean-side statements of the property on every case"""
    rng = ctx.rng
    core = CORE + [POOL[5]]
    vocs = list(_vocabs(core, 3))
    lists = list(_lists(core, 3))
    ctx.run_cases(OPS["encoder"], _encoder_cases(POOL, 3, POOL))
    for name in ("classification", "multilabel"):
        ctx.run_cases(OPS[name], ({"vocab": v, "tags": t} for v in vocs for t in rng.sample(lists, 30)))
    items = [pred_desc(t, s) for t in core for s in (0.25, 0.1)]
    plists = list(_lists(items, 2))
    ctx.run_cases(OPS["prediction"], ({"vocab": v, "preds": p} for v in vocs for p in rng.sample(plists, 30)))
    ctx.run_cases(OPS["eq_hash"], _eq_hash_cases(ctx))
    ctx.run_cases(OPS["eq_hash"], _near_cases(ctx))
    ctx.run_cases(OPS["eq_hash"], _full_cases(ctx))
    for st in (_stage_generic, _stage_find, _stage_init, _stage_raw, _stage_paths, _stage_extras, _stage_identity, _stage_histories):
        ctx.stage("search:" + st.__name__, st, ctx)
