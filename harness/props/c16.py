"""C16 — Range dimensions and coordinate lookup are exact."""
import itertools
import math
from fractions import Fraction

from .. import history
from ..core import Op
from ..rat import rat, frac, tol_eq
from ..axis_common import guarded, f, fl, is_err, ulp_up, ulp_down, dy, rats
from ..axis_common import canon_exc as _axis_exc

PROPERTY = "C16"
LEAN_MODULE = "Proofs.C16"
_T = "SE.Proofs.C16."
THEOREMS = [_T + n for n in [
    "C16_lattice", "C16_inside", "C16_count", "C16_count_general", "C16_step_attr", "C16_range_total",
    "C16_range_spec", "C16_index_unique", "C16_index_upper_edge", "C16_outside", "C16_index_spec",
    "C16_index_spec_determines", "C16_set_exact", "C16_set_value_at_pos", "C16_set_rejects",
    "C16_range_kernel", "C16_index_kernel", "C16_indexer_kernel", "C16_set_kernel", "C16_set_cell",
    "C16_rule_at", "C16_count_robust", "C16_call_forms", "C16_sig_extends", "C16_history", "C16_session"]]
LEVEL_TEXT = ("Lean theorems over the rational model of create_range_dim / create_time_range / create_frequency_range "
              "(lattice, inside [start, stop), count for whole quotients and in general, step attribute; the trailing-point "
              "rule yields exactly n points whichever way rounding went inside arange, under an executable contract on "
              "numpy's output), of get_coord_index (the unique bin on a sorted axis, upper edge, raise or clamp outside; the "
              "executable statement determines the output) and of set_value_at_pos (end to end: an element holds the value "
              "iff its multi-index is the bin of every queried position, every other element unchanged; over a session of "
              "writes into one live array an element no call addressed keeps its content) hold for all inputs; the five "
              "functions are one pure function of the content of their arguments, so an implementation with any state "
              "agrees on every sequence of calls iff no reachable state changes an answer (C16_history); under a signature "
              "table without repeated names every split of a call into positional arguments and keywords binds alike, "
              "positional argument i to parameter i (C16_call_forms, C16_sig_extends). "
              "The straight-line code of all five functions around their library calls (step selection, the arange call, "
              "trailing-point guard and threshold, range test, clamp values, slice-bound side and offset, the indexer) is "
              "traced symbolically from the current source on every run and proved equal to the model's kernels for all "
              "rationals (62 obligations: every way of giving the step, all-positional and all-keyword calls, the lookup "
              "also on every axis of 2-D / 3-D arrays and on axes carrying a step attribute or arbitrary start / stop "
              "attributes (the range of a lookup is that of the coordinates), with stand-in arrays whose "
              "coordinates are registered in another order than their dimensions); the parameter tables of the five "
              "functions are read off the imported code and proved to extend the documented tables (5 obligations); "
              "the library calls themselves are tied by exact differential runs (dyadic grids for ranges incl. "
              "tolerance-sized offsets around both thresholds and 2^k +- 1 coordinates, arbitrary floats for the "
              "comparison-only lookup incl. every lattice point of non-dyadic axes of up to 4099 points, all small shapes "
              "for writes, non-square 1-D to 3-D arrays built along every construction path of xarray incl. coordinates "
              "with consistent or stale start / stop / step attributes, arrays out of the library's own extend / crop / "
              "adjust helpers, every call form) "
              "and by histories in one process (requests and their neighbours with results poisoned and re-read, lookups "
              "on arrays whose coordinates are re-assigned, sessions of writes), every step judged by the model.")
LEVEL_NOTE = ("Unmodelled: binary64 rounding inside numpy arange (hypothesis of C16_count_robust, evaluated exactly on what "
              "np.arange returned for steps such as 0.1, 1/3, 1/44100 and for steps derived from size= / samplerate=; "
              "coordinates additionally within 2^-40 of the lattice), pandas get_slice_bound (modelled as #{c <= v}; known "
              "finding C16-2: on a float32 axis pandas casts the query value to float32 first), numpy broadcasting rules "
              "beyond right-aligned equal-or-1.  The symbolic ties cover arrays of up to three dimensions; len() of a "
              "stand-in array / index answers with an opaque large number (a branch on the length itself is followed as "
              "for a long axis; axes of 1-6 points and of 15 ... 4099 points are the differential runs' business); float32 "
              "coordinates with decimal steps are monitored from start 0 only (count, step attribute, lattice up to "
              "float32 rounding); Python's argument binding is modelled (bindParams) and trusted to be Python's; "
              "histories are sampled sequences of 3-5 calls (C16_history says what they decide, it does not enumerate "
              "them); whether set_value_at_pos writes in place or on a copy is not pinned (the array returned carries "
              "the write, the array given holds afterwards the same content or exactly what it held before); "
              "create_*_dim_from_array and set_dim_attrs are outside the model.")
TECHNIQUE = ("Lean 4 proof over model; symbolic-trace equality obligations for the kernels of the range constructors, "
             "get_coord_index and set_value_at_pos; signature-table obligations; exact differential correspondence incl. "
             "histories judged step by step; numpy-contract monitor for arange rounding")
RULE = ("range requests on dyadic grids (all quotient fractions 0, 1/4, 1/2, 3/4; int / numpy-scalar arguments, float32 "
        "coordinates; +- 2^-20 / 2^-30 / 2^-40 of the magnitude around whole and half quotients at magnitudes 0 ... 2^30; "
        "15 ... 4097 coordinates), every call form (0 ... all positional) x way of giving the step x dtype (type / string / "
        "numpy dtype / code) x name x further attributes x number types incl. the size, decimal-step monitor (step=, size=, "
        "samplerate=), lookups on float axes of 1-6 points with queries at, between, next to, 1e-6 ... 1e-12 from and beyond "
        "coordinates (float / numpy / int query values, float32 and int64 axes; flag as bool / int / numpy bool / omitted; "
        "every call form), every lattice point of axes with steps 0.01, 1/44100 (1025 points), 0.1, 1/3 (257) and every "
        "coordinate of axes of 2^k - 1, 2^k, 2^k + 1 ... 4099 points, lookups on "
        "range-constructor axes inside and within / beyond one step outside (raise and clamp; dimension named by a string "
        "or the Dimensions member), lookups and writes on arrays that went through the library's own extend_dim / crop_dim "
        "/ adjust_dim_range / set_dim_attrs and isel / sel / re-labelling afterwards (coordinates carrying eps-shifted or "
        "stale `start` / `stop` attributes; queries also at the values the attributes mention), lookups on coordinates "
        "with hand-made consistent / stale `start` / `stop` / `step` attributes, lookups on every axis of 13 "
        "non-square 2-D / 3-D shapes and writes on 14 shapes x every construction path (coordinate order, transposition, "
        "dimensions without coordinates, extra coordinates, forms, dtypes, dimension names on other axes, coordinates with "
        "`step` or `start` / `stop` / `step` attributes), writes on every "
        "shape with 1-3 axes of 1-3 points and a 4-D sample; histories: range_history (120 / 1200 sequences of 3-5 requests - "
        "a request, neighbours with the same numbers and another dtype / name / kind / call form / number type / "
        "attributes or one number changed, the request again; returned Variables poisoned in place (data, attributes), "
        "un-poisoned ones re-read at the end), index_history (160 / 1600 sequences of lookups; the array of the previous "
        "step re-used after arr.coords[dim] = ..., arr[dim] = ..., assign_coords, coordinate.copy(data=...), isel; "
        "coordinates, data and attributes of the array snapshot around every call), set_session (sessions of 3-5 writes "
        "into one live array along the construction paths, coordinates re-assigned between calls, earlier queries "
        "repeated, rejected calls in between; each step judged on the content read right before it); non-trivial = "
        "the implementation returned a value; distinct = distinct (operation, input)")
TRUSTED = ["numpy arange / pandas get_slice_bound / xarray indexes and get_axis_num (modelled, validated by correspondence)",
           "the stand-ins of harness/c16_sym.py answer like numpy / xarray where the kernels ask (np.arange raises on a zero "
           "step, Index.min / max are the range of an increasing axis, get_axis_num raises ValueError for an unknown dimension, "
           "indexes / coords list their keys in registration order - not the order of the dimensions -, coordinates carry an "
           "attrs dict, len() is the size of the first axis / of the index, copy() is the same array as a new object)",
           "inspect.signature reports the parameters a call is bound to; SE.Axis.bindParams is Python's binding of "
           "positional-or-keyword parameters"]
ASSUMPTIONS = ["binary64 arithmetic is exact on the dyadic grids used for range requests",
               "step > 0 and start <= stop for range requests; axes increasing for lookups (the property's quantifier)",
               "the query value of a lookup is a number of the axis' dtype (on a float32 axis pandas casts a binary64 "
               "value to float32 first: known finding C16-2)"]
NOT_COMPARED = ["error messages (only the error class)", "attributes other than `step` (also the further attributes a caller "
                "passes: only that they do not disturb `step`, the name, the dtype and the coordinates)",
                "range requests with non-representable steps: the result is fixed by C16_count_robust given numpy's arange "
                "output (exact), plus lattice within tolerance, inside-ness and the step attribute (the rational model cannot "
                "exhibit arange rounding)",
                "whether set_value_at_pos returns the very array it was given and whether it writes in place (the docstring "
                "says so; the property pins the content: the array returned must hold the model's content, the array given "
                "the same content or bytewise what it held before the call, coordinates / attributes / the value argument "
                "untouched)",
                "lookups on an empty axis (the code returns -1, the model ValueError; outside the quantifier)"]


# ------------------------------------------------------------------ implementations
def _range_out(v):
    import numpy as np
    step = v.attrs.get("step")
    if step is None:
        return {"raise": "crash:no-step-attribute"}
    return {"val": {"coords": [rat(float(c)) for c in np.asarray(v.data)], "step": rat(float(step))}}


def _typed(x, ty):
    """the same number as another Python / numpy type (`argty` of a case; only used where it is exact)"""
    import numpy as np
    if x is None or ty in (None, "float"):
        return x
    if ty == "int":
        return int(x)
    if ty == "npint":
        return np.int64(int(x))
    if ty == "np64":
        return np.float64(x)
    if ty == "np32":
        return np.float32(x)
    raise ValueError(ty)


def _fits(x, ty):
    import numpy as np
    if x is None or ty in (None, "float", "np64"):
        return True
    if ty in ("int", "npint"):
        return float(x) == int(x)
    return float(np.float32(x)) == float(x)


# The documented signatures (order, names and defaults are API; `SE.Axis.rangeSig` … `setSig` in Lean).  These are
# the harness' own statement of the API - never read from the code under test; stage `signatures` ties the tables
# of the imported functions to them, `C16_call_forms` proves that every split of a call into a positional prefix
# and keywords binds alike under such a table.
RANGE_PARAMS = ("name", "start", "stop", "step", "size", "dtype")
TIME_PARAMS = ("start_time", "end_time", "step", "samplerate", "name", "dtype")
FREQ_PARAMS = ("low_freq", "high_freq", "step", "name", "dtype")
INDEX_PARAMS = ("arr", "dim", "value", "raise_error")
SET_PARAMS = ("array", "value")
_OMIT = object()


def _call_form(fn, names, given, k, defaults, extra=None):
    """`fn` called with the arguments `given` (by documented parameter name): the first `k` parameters
    positionally, in the documented order, the others by keyword.  A parameter that is not given but precedes a
    positional one is filled with its documented default."""
    last = max([i for i, n in enumerate(names) if n in given], default=-1)
    k = max(0, min(int(k), last + 1))
    pos = [given[n] if n in given else defaults[n] for n in names[:k]]
    kw = {n: given[n] for n in names[k:] if n in given}
    kw.update(extra or {})
    return fn(*pos, **kw)


_KIND_DIM = {"range": "x", "time": "time", "frequency": "frequency"}
_EXTRA_ATTRS = {"units": "furlongs", "note": "n", "offset": -99.0}     # never `step`


def _range_call(inp):
    """the range constructor of a `range_dim` case on the real code -> the Variable it returns.  Harness-only keys
    (the model does not see them, none of them changes what is asked for): `argty` (number types), `dtype`,
    `name` (another name for the dimension), `attrs` (further attributes), `call` (call form: number of positional
    arguments, see `_call_form`; absent = the mixed form the check always used)"""
    import numpy as np
    from soundevent import arrays
    kind = inp["kind"]
    aty = inp.get("argty")
    ty = aty if not isinstance(aty, dict) else None

    def tyof(field):
        return aty.get(field) if isinstance(aty, dict) else aty
    start, stop = _typed(f(inp["start"]), tyof("start")), _typed(f(inp["stop"]), tyof("stop"))
    step = _typed(f(inp.get("step")), tyof("step"))
    kw = {}
    if inp.get("dtype") == "float32":       # `dtyform`: the same dtype written another way
        kw = {"dtype": {"str": "float32", "npdtype": np.dtype("float32"), "code": "f4"}.get(inp.get("dtyform"), np.float32)}
    elif inp.get("dtyform"):                 # the default dtype given explicitly
        kw = {"dtype": {"str": "float64", "npdtype": np.dtype("float64"), "code": "f8"}.get(inp["dtyform"], float)}
    extra = dict(_EXTRA_ATTRS) if inp.get("attrs") else {}
    name = inp.get("name")
    form = inp.get("call")
    size = inp.get("size")
    if size is not None and ty == "npint":
        size = np.int64(size)
    if size is not None and inp.get("sizety"):      # the same whole number as another type
        size = {"npint": np.int64, "np32int": np.int32, "float": float, "np64": np.float64}[inp["sizety"]](size)
    sr = _typed(f(inp.get("samplerate")), tyof("samplerate"))
    if form is None and name is None:
        if kind == "range":
            return arrays.create_range_dim("x", start, stop, step=step, size=size, **kw, **extra)
        if kind == "time":
            return arrays.create_time_range(start, stop, step=step, samplerate=sr, **kw, **extra)
        return arrays.create_frequency_range(start, stop, step, **kw, **extra)
    form = 3 if form is None else form
    dflt = {"step": None, "size": None, "samplerate": None, "dtype": np.float64, "name": _KIND_DIM[kind]}
    given = dict(kw)
    if kind == "range":
        given.update(name=name or "x", start=start, stop=stop)
        if step is not None:
            given["step"] = step
        if size is not None:
            given["size"] = size
        return _call_form(arrays.create_range_dim, RANGE_PARAMS, given, form, dflt, extra)
    if name is not None:
        given["name"] = name
    if kind == "time":
        given.update(start_time=start, end_time=stop)
        if step is not None:
            given["step"] = step
        if sr is not None:
            given["samplerate"] = sr
        return _call_form(arrays.create_time_range, TIME_PARAMS, given, form, dflt, extra)
    given.update(low_freq=start, high_freq=stop, step=step)
    return _call_form(arrays.create_frequency_range, FREQ_PARAMS, given, form, dflt, extra)


def _range_canon(inp, v):
    """what C16 pins of a returned range dimension: its one dimension carries the requested name, the coordinates
    have the requested dtype (float64 unless asked otherwise), the `step` attribute, the coordinates"""
    import numpy as np
    want = inp.get("name") or _KIND_DIM[inp["kind"]]
    if tuple(v.dims) != (want,):
        return {"raise": "crash:dimension-name-not-honoured"}
    want_dt = np.float32 if inp.get("dtype") == "float32" else np.float64
    if np.asarray(v.data).dtype != want_dt:
        return {"raise": "crash:dtype-not-honoured"}
    return _range_out(v)


@guarded
def _impl_range(inp):
    return _range_canon(inp, _range_call(inp))


_RANGE_HARNESS_KEYS = ("argty", "dtype", "call", "name", "attrs", "sizety", "dtyform")


def _holds_range(ctx, inp, out):
    """property on the real output, for valid requests with an explicit step (exact inputs)"""
    if inp.get("step") is None or inp["kind"] != "range":
        return None
    step, start, stop = frac(inp["step"]), frac(inp["start"]), frac(inp["stop"])
    if step <= 0 or start > stop:
        return None
    if is_err(out) and out["raise"].startswith("crash"):
        out = {"raise": "index"}
    ok = ctx.model("holds_range", {"start": inp["start"], "stop": inp["stop"], "step": inp["step"], "out": out})
    return None if ok else "range statement of C16 fails on the real output"


@guarded
def _impl_range_free(inp):
    import numpy as np
    from soundevent import arrays
    start, step, n = f(inp["start"]), f(inp["step"]), inp["n"]
    stop = start + n * step
    if inp["kind"] == "size":            # the step is what the code derives from the size
        step = (stop - start) / n
    elif inp["kind"] == "samplerate":    # `step` holds the sample rate
        sr = step
        step = 1.0 / sr
        stop = start + n * step
    kw = {"dtype": np.float32} if inp.get("f32") else {}
    fn = {"range": lambda: arrays.create_range_dim("x", start, stop, step=step, **kw),
          "time": lambda: arrays.create_time_range(start, stop, step=step, **kw),
          "frequency": lambda: arrays.create_frequency_range(start, stop, step, **kw),
          "size": lambda: arrays.create_range_dim("x", start, stop, size=n, **kw),
          "samplerate": lambda: arrays.create_time_range(start, stop, samplerate=sr, **kw)}[inp["kind"]]
    v = fn()
    if kw and np.asarray(v.data).dtype != np.float32:
        return {"raise": "crash:dtype-not-honoured"}
    # the library call the trailing-point rule has to cope with, and the threshold as the code computes it
    lib = [float(c) for c in np.arange(start=start, stop=stop, step=step, dtype=np.float64)]
    return {"val": {"coords": [float(c) for c in np.asarray(v.data)], "step": v.attrs.get("step"), "stop": stop,
                    "arange": lib, "thr": stop - step / 2, "req_step": step}}


def _arange_contract(start, step, delta, thr, n, cs):
    """`SE.Axis.arangeContract` on Fractions (the hypothesis of C16_count_robust)"""
    if not (0 < step and 4 * delta < step and len(cs) in (n, n + 1)):
        return False
    if any(abs(c - (start + i * step)) > delta for i, c in enumerate(cs)):
        return False
    return abs(thr - (start + n * step - step / 2)) <= delta


def _dyadic_ints(values):
    """binary64 numbers as integers over one common power-of-two denominator 2^K: ([ints], K)"""
    rs = [float(v).as_integer_ratio() for v in values]
    K = max((d.bit_length() - 1 for _n, d in rs), default=0)
    return [n << (K - (d.bit_length() - 1)) for n, d in rs], K


def _arange_contract_fast(start, step, thr, n, cs):
    """`_arange_contract` with delta = step / 5 for binary64 arguments, in integer arithmetic (the same exact
    judgement; the two are compared on every short request)"""
    (S, Q, T, *C), _K = _dyadic_ints([start, step, thr] + list(cs))
    if not (Q > 0 and len(C) in (n, n + 1)):
        return False
    if any(abs(5 * (c - (S + i * Q))) > Q for i, c in enumerate(C)):
        return False
    return abs(10 * (T - (S + n * Q)) + 5 * Q) <= 2 * Q


def _holds_range_free(ctx, inp, out):
    if is_err(out):
        return "range request raised: %s" % out["raise"]
    start, n = f(inp["start"]), inp["n"]
    r = out["val"]
    cs = r["coords"]
    step = r["req_step"]                      # the requested step, or the one derived from size / sample rate
    qs, qd = frac(inp["start"]), Fraction(step)
    # numpy's contract (hypothesis of C16_count_robust), exactly, on what np.arange returned
    lib = [Fraction(c) for c in r["arange"]] if n <= 48 else None
    delta, thr = qd / 5, Fraction(r["thr"])
    if inp.get("f32"):
        # float32 coordinates (from start 0, where numpy fills with i * float32(step)): the count, the step
        # attribute (the requested binary64 step, not its float32 rounding) and the lattice up to float32 rounding
        if len(cs) != n:
            return f"{len(cs)} float32 coordinates for (stop - start)/step = {n}"
        if r["step"] is None or float(r["step"]) != step:
            return "step attribute differs from the requested step (float32 coordinates)"
        for i, c in enumerate(cs):
            if not (start <= c < r["stop"]) or abs(Fraction(c) - (qs + i * qd)) > (Fraction(abs(c)) + 1) / 2 ** 20:
                return f"float32 coordinate {i} = {c!r} outside [start, stop) or off the lattice"
        return None
    ok = _arange_contract_fast(start, step, r["thr"], n, r["arange"])
    if n <= 48 and ok != _arange_contract(qs, qd, delta, thr, n, lib):
        return "harness: the two evaluations of the arange contract disagree"
    ctx.contract("numpy-arange-within-quarter-step", ok, inp, {"arange_len": len(r["arange"]), "n": n},
                 "np.arange returned neither n nor n+1 points, or a point / the threshold a quarter step off")
    if ok:
        # … under which the theorem fixes the result: the first n points numpy produced
        if cs != r["arange"][:n]:
            return (f"{len(cs)} coordinates; C16_count_robust fixes the result to the first {n} points of np.arange "
                    f"(which returned {len(r['arange'])})")
        if n <= 48:   # the same judgement through the Lean definitions (small cases: JSON size)
            m = ctx.model("range_robust", {"start": inp["start"], "step": rat(qd), "delta": rat(delta),
                                           "thr": rat(thr), "n": n, "cs": rats(lib)})
            if not m["contract"] or m["coords"] != rats(cs):
                return "Lean's arangeContract / dropTrailingAt disagree with the real output"
    if len(cs) != n:
        return f"{len(cs)} coordinates for (stop - start)/step = {n}"
    if r["step"] != step:
        return "step attribute differs from the requested step"
    (S, Q), K = _dyadic_ints([start, step])
    den = 1 << K
    for i, c in enumerate(cs):
        if not (start <= c < r["stop"]):
            return f"coordinate {i} = {c!r} outside [start, stop)"
        lat = (S + i * Q) / den           # = float(start + i * step), correctly rounded (int / int)
        if not abs(c - lat) <= 2.0 ** -40 * max(1.0, abs(lat)):
            return f"coordinate {i} = {c!r} off the lattice"
    return None


def _mk_1d(coords, dtype=None, cattrs=None):
    import numpy as np
    import xarray as xr
    c = np.asarray(coords, dtype=dtype) if dtype else np.asarray(coords, dtype=float)
    if cattrs and len(coords):        # the coordinate carries `start` / `stop` / `step` attributes (`_range_attrs`)
        c = xr.Variable("x", c, attrs=_range_attrs([float(v) for v in coords], cattrs))
    return xr.DataArray(np.zeros(len(coords)), dims=["x"], coords={"x": c})


def _raise_flag(inp):
    """the `raise_error` flag as the case asks for it: a bool, or (`rty`) the same truth value as an int / numpy bool"""
    import numpy as np
    r = inp["raise"]
    return {"int": int(r), "npbool": np.bool_(r)}.get(inp.get("rty"), r)


def _lookup_call(arr, dim, v, inp):
    """get_coord_index in the call form of the case (`call` = number of positional arguments; absent: the array,
    the dimension and the value positionally, the flag by keyword; `omit_raise`: the flag left to its default)"""
    from soundevent import arrays
    given = {"arr": arr, "dim": dim, "value": v}
    if not inp.get("omit_raise"):
        given["raise_error"] = _raise_flag(inp)
    return _call_form(arrays.get_coord_index, INDEX_PARAMS, given, inp.get("call", 3), {"raise_error": True})


@guarded
def _impl_index(inp):
    coords = fl(inp["coords"])
    if inp.get("int_axis"):
        arr = _mk_1d([int(c) for c in coords], dtype="int64", cattrs=inp.get("cattrs"))
    elif inp.get("axis32"):
        arr = _mk_1d(coords, dtype="float32", cattrs=inp.get("cattrs"))
    else:
        arr = _mk_1d(coords, cattrs=inp.get("cattrs"))
    before = arr["x"].values.copy()
    attrs_before = _attrs_of(arr)
    v = f(inp["v"])
    if inp.get("int_query"):
        v = int(v)
    v = _typed(v, inp.get("qty"))
    r = _lookup_call(arr, "x", v, inp)
    if isinstance(r, bool) or int(r) != r:
        return {"raise": "crash:not-an-int"}
    if arr["x"].values.tobytes() != before.tobytes() or _attrs_of(arr) != attrs_before:
        return {"raise": "crash:coordinates-changed"}
    return {"val": int(r)}


def _holds_index(ctx, inp, out):
    if not is_err(out) and out["val"] < 0:
        return "lookup returned a negative index"
    o = out if not (is_err(out) and out["raise"].startswith("crash")) else {"raise": "index"}
    ok = ctx.model("holds_index", {"coords": inp["coords"], "v": inp["v"], "raise": inp["raise"], "out": o})
    return None if ok else "lookup statement of C16 fails on the real output"


@guarded
def _impl_index_dim(inp):
    """lookup on an axis built by the library's own range constructors (carries the `step` attribute)"""
    import numpy as np
    import xarray as xr
    from soundevent import arrays
    r = inp["range"]
    start, stop, step = f(r["start"]), f(r["stop"]), f(r["step"])
    if r["kind"] == "time":
        var, dim = arrays.create_time_range(start, stop, step=step), "time"
    elif r["kind"] == "frequency":
        var, dim = arrays.create_frequency_range(start, stop, step), "frequency"
    else:
        var, dim = arrays.create_range_dim("x", start, stop, step=step), "x"
    coords = [float(c) for c in np.asarray(var.data)]
    arr = xr.DataArray(np.zeros(len(coords)), dims=[dim], coords={dim: var})
    n = len(coords)
    out = []

    # the name of the dimension as a plain string and (every second lookup) as the library's own `Dimensions` member,
    # a str subclass
    names = [dim]
    member = getattr(getattr(arrays, "Dimensions", None), dim, None)
    if isinstance(member, str) and member == dim:
        names.append(member)

    def look(q, raise_):
        try:
            res = arrays.get_coord_index(arr, names[len(out) % len(names)], q, raise_error=raise_)
            o = {"val": int(res)} if int(res) == res else {"raise": "crash:not-an-int"}
        except Exception as e:  # noqa: BLE001
            o = _axis_exc(e)
        out.append([rat(q), o, raise_])

    for i in range(n):
        qs = [coords[i], ulp_up(coords[i]), ulp_down(coords[i])]
        if i + 1 < n:
            qs.append(coords[i] + (coords[i + 1] - coords[i]) / 2)
        for q in qs:
            if coords[0] <= q <= coords[-1]:
                look(q, True)
    if n:
        # beyond the axis, in particular within one step of it (between the last coordinate and `stop`):
        # outside the range of the dimension - raise or clamp
        first, last = coords[0], coords[-1]
        for q in (ulp_up(last), last + step / 4, last + step / 2, ulp_down(last + step), last + step, ulp_up(last + step),
                  stop, last + 3 * step, ulp_down(first), first - step / 4, first - step, first - 3 * step):
            if not (first <= q <= last):
                look(q, True)
                look(q, False)
    return {"val": {"coords": rats(coords), "lookups": out}}


def _holds_index_dim(ctx, inp, out):
    """every lookup judged by the Lean statement `indexSpec` on the coordinates of the axis (one request per axis)"""
    if is_err(out):
        return "building the axis or the array failed: %r" % (out,)
    coords = out["val"]["coords"]
    ls = []
    for q, o, raise_ in out["val"]["lookups"]:
        if not is_err(o) and o["val"] < 0:
            return f"lookup of {q} returned a negative index"
        if is_err(o) and o["raise"].startswith("crash"):
            o = {"raise": "index"}
        ls.append([q, raise_, {k: v for k, v in o.items() if k != "trace"}])
    oks = ctx.model("holds_index_many", {"coords": coords, "lookups": ls}) if ls else []
    for (q, raise_, o), ok in zip(ls, oks):
        if not ok:
            return (f"lookup statement of C16 fails on an axis of {len(coords)} points: query {float(frac(q))!r} "
                    f"(raise_error={raise_}) -> {o}")
    return None


@guarded
def _impl_index_long(inp):
    """lookups along a whole axis: `make` = "lib" (built by create_range_dim, carries the step attribute) or "np"
    (hand-made start + i * step, no attribute); `sweep` = "full" (every coordinate, its two float neighbours, every
    midpoint, tolerance-sized offsets around a sample) or "coords" (every coordinate, and the full treatment of a
    sample and of both ends)"""
    import numpy as np
    import xarray as xr
    from soundevent import arrays
    if "coords" in inp:                 # a hand-made axis given point by point
        given = np.asarray(fl(inp["coords"]), dtype=float)
        var, n = ("x", given), len(given)
        step = float(given[1] - given[0]) if n > 1 and given[1] > given[0] else max(abs(float(given[0])), 1.0)
    else:
        start, step, n = f(inp["start"]), f(inp["step"]), inp["n"]
        if inp.get("make") == "lib":
            var = arrays.create_range_dim("x", start, start + n * step, step=step)
        else:
            var = ("x", start + step * np.arange(n, dtype=float))
    arr = xr.DataArray(np.zeros(n if not hasattr(var, "shape") else var.shape[0]), dims=["x"], coords={"x": var})
    coords = [float(c) for c in np.asarray(arr["x"].values)]
    n = len(coords)
    if n == 0 or any(b < a for a, b in zip(coords, coords[1:])):
        return {"raise": "crash:axis-not-increasing"}
    out = []

    def look(q, raise_=True):
        try:
            res = arrays.get_coord_index(arr, "x", q, raise_error=raise_)
            o = {"val": int(res)} if int(res) == res else {"raise": "crash:not-an-int"}
        except Exception as e:  # noqa: BLE001
            o = _axis_exc(e)
        out.append([rat(q), o, raise_])

    sample = set(inp.get("sample", ())) | {0, 1, n - 2, n - 1}
    full = inp.get("sweep", "full") == "full"
    for i, c in enumerate(coords):
        look(c)
        if full or i in sample:
            qs = [ulp_up(c), ulp_down(c)]
            if i + 1 < n:
                qs.append(c + (coords[i + 1] - c) / 2)
            if i in sample:       # tolerance-sized offsets on both sides of the coordinate
                for e in (1e-6, 1e-9, 1e-12):
                    qs += [c + step * e, c - step * e, c * (1 + e), c * (1 - e)]
            for q in qs:
                if coords[0] <= q <= coords[-1]:
                    look(q)
    first, last = coords[0], coords[-1]
    beyond = [ulp_up(last), last + step / 2, last + step, ulp_down(first), first - step]
    for e in (1e-6, 1e-9, 1e-12):
        beyond += [last + step * e, last + abs(last) * e, first - step * e, first - abs(first) * e]
    for q in dict.fromkeys(beyond):
        if math.isfinite(q) and not (first <= q <= last):
            look(q, True)
            look(q, False)
    if arr["x"].values.tobytes() != np.asarray(coords).tobytes():
        return {"raise": "crash:coordinates-changed"}
    return {"val": {"coords": rats(coords), "lookups": out}}


def _axis_step(ax):
    return float(ax[1] - ax[0]) if len(ax) > 1 else 1.0


RANGE_ATTRS = ("consistent", "end", "wide", "narrow", "shifted", "eps")


def _range_attrs(ax, kind):
    """`start` / `stop` / `step` attributes on a coordinate, as the library's own extend_dim / set_dim_attrs leave
    them: describing the coordinates ("consistent": first / last; "end": first / last + step, the exclusive end;
    "eps": first + 1e-5 / last + step - 1e-5, what extend_dim writes) or stale ("wide", "narrow", "shifted": the
    array was cropped, extended or re-labelled afterwards).  The answer of a lookup is pinned by the coordinates alone."""
    step = _axis_step(ax)
    first, last = float(ax[0]), float(ax[-1])
    lo, hi = {"consistent": (first, last), "end": (first, last + step), "eps": (first + 1e-5, last + step - 1e-5),
              "wide": (first - 2 * step, last + 2 * step), "narrow": (first + step / 2, last - step / 2),
              "shifted": (first + 10 * step, last + 10 * step)}[kind]
    return {"step": step, "start": lo, "stop": hi, "units": "s"}


def _build_array(shape, data, axes, b):
    """The array with dimensions d0, d1, …, the given shape / data / axes, along one of xarray's ordinary
    construction paths (`build` of a case; none of them changes what the array *is*):
      corder     order in which the dimension coordinates are registered (need not be the order of dims)
      transpose  the array is built with its dimensions in this order and transposed to d0, d1, …
                 (transposing keeps the registration order of the coordinates; the data become a strided view)
      nocoord    dimensions without a coordinate (never queried)
      extra      further coordinates that are no index: "scalar", "aux1d" (on one dimension), "aux2d"
      extra_first  … registered before the dimension coordinates
      form       "dict" (coords=…), "assign" (assign_coords afterwards, one by one), "dataset" (taken out of a
                 Dataset), "tuples" (coords=[(name, values), …], which also fixes dims)
      step_attr  coordinates handed over as xr.Variable with a `step` attribute (as the range constructors do)
      range_attrs  … with `start` / `stop` / `step` attributes, consistent or stale (see `_range_attrs`)
      axis_dtype {axis: "float32" | "int64"}
      layout     "F": Fortran-ordered data
      names      the names of the dimensions, axis by axis (a permutation of d0, d1, …: the same name sits on another
                 axis than in the arrays handled before)"""
    import numpy as np
    import xarray as xr
    b = b or {}
    nd = len(shape)
    dims = list(b.get("names") or [f"d{k}" for k in range(nd)])
    nocoord = set(b.get("nocoord", ()))
    adt = b.get("axis_dtype") or {}
    cvals = {}
    for k in range(nd):
        if k in nocoord:
            continue
        a = np.array(axes[k], dtype=float)
        if adt.get(str(k)):
            a = a.astype(adt[str(k)])
        cvals[k] = a

    def coord(k):
        if b.get("range_attrs"):
            return xr.Variable(dims[k], cvals[k], attrs=_range_attrs(axes[k], b["range_attrs"]))
        if b.get("step_attr"):
            return xr.Variable(dims[k], cvals[k], attrs={"step": _axis_step(axes[k]), "units": "s"})
        return (dims[k], cvals[k])

    corder = [k for k in b.get("corder", range(nd)) if k not in nocoord]
    extras = {}
    for e in b.get("extra", ()):
        if e == "scalar":
            extras["s"] = 3.5
        elif e == "aux1d":
            j = (b.get("aux_axis", 0)) % nd
            extras["lab"] = (dims[j], np.arange(shape[j]) * 10.0 + 1.0)
        elif e == "aux2d" and nd >= 2:
            extras["m"] = ((dims[0], dims[1]), np.arange(shape[0] * shape[1], dtype=float).reshape(shape[0], shape[1]))
    perm = list(b.get("transpose", range(nd)))
    base_dims = [dims[p] for p in perm]
    base = np.ascontiguousarray(np.transpose(data, perm))
    if b.get("layout") == "F":
        base = np.asfortranarray(base)
    form = b.get("form", "dict")
    if form == "tuples" and not nocoord and perm == list(range(nd)):
        arr = xr.DataArray(base, coords=[(dims[k], cvals[k]) for k in range(nd)])
        arr = arr.assign_coords(extras) if extras else arr
    elif form == "assign":
        arr = xr.DataArray(base, dims=base_dims)
        if b.get("extra_first") and extras:
            arr = arr.assign_coords(extras)
        for k in corder:
            arr = arr.assign_coords({dims[k]: coord(k)})
        if not b.get("extra_first") and extras:
            arr = arr.assign_coords(extras)
    else:
        cs = {}
        if b.get("extra_first"):
            cs.update(extras)
        for k in corder:
            cs[dims[k]] = coord(k)
        if not b.get("extra_first"):
            cs.update(extras)
        if form == "dataset":
            arr = xr.Dataset({"a": (base_dims, base)}, coords=cs)["a"]
        else:
            arr = xr.DataArray(base, dims=base_dims, coords=cs)
    if perm != list(range(nd)):
        arr = arr.transpose(*dims)
    if tuple(arr.dims) != tuple(dims) or tuple(arr.shape) != tuple(shape):
        raise RuntimeError("harness: the construction path did not yield the requested array")
    snap = {n: np.array(c.values, copy=True) for n, c in arr.coords.items()}
    snap[_ATTRS] = _attrs_of(arr)
    return arr, dims, snap


_ATTRS = "\0attrs"


def _attrs_of(arr):
    """the attributes of an array and of its coordinates (a call must not leave anything there)"""
    return repr((sorted((str(k), repr(v)) for k, v in arr.attrs.items()),
                 sorted((str(n), sorted((str(k), repr(v)) for k, v in c.attrs.items())) for n, c in arr.coords.items())))


def _coords_unchanged(out, snap):
    """coordinates (names, values bytewise) and attributes (of the array and of every coordinate) as at construction"""
    import numpy as np
    if set(out.coords) != set(snap) - {_ATTRS}:
        return False
    if _ATTRS in snap and _attrs_of(out) != snap[_ATTRS]:
        return False
    return all(np.asarray(out.coords[n].values).tobytes() == v.tobytes() for n, v in snap.items() if n != _ATTRS)


@guarded
def _impl_set(inp):
    import copy
    import numpy as np
    from soundevent.arrays import operations as ops
    shape = inp["shape"]
    dt = "int64" if inp.get("int_data") else ("float32" if inp.get("f32_data") else float)
    data = np.array(fl(inp["data"]), dtype=dt).reshape(shape)
    arr, dims, snap = _build_array(shape, data.copy(), [fl(ax) for ax in inp["axes"]], inp.get("build"))
    val = inp["value"]
    if "scalar" in val:
        value = _typed(f(val["scalar"]), inp.get("vty"))
    else:
        value = np.array(fl(val["data"]), dtype=float).reshape(val["shape"])
        how = inp.get("container", "list")
        if how == "list":
            value = value.tolist()
        elif how == "tuple":
            value = tuple(value.tolist()) if value.ndim else value.tolist()
    given = copy.deepcopy(value)
    query = {_dim_name(dims, k): _typed(f(q), inp.get("qty") if _fits(f(q), inp.get("qty")) else None) for k, q in inp["query"]}
    try:
        out = _call_form(ops.set_value_at_pos, SET_PARAMS, {"array": arr, "value": value}, inp.get("call", 2), {}, query)
    except Exception:
        if np.asarray(arr.values).tobytes() != data.tobytes() or not _coords_unchanged(arr, snap):
            return {"raise": "crash:array-changed-by-a-rejected-call"}
        raise
    return _set_canon(out, arr, dims, shape, snap, data, given, value)


def _dim_name(dims, k):
    return dims[k] if k < len(dims) else f"d{k}"


def _set_canon(out, arr, dims, shape, snap, before, given, value):
    """what C16 pins after a successful write: the array returned has the dimensions, shape and coordinates of the
    one given and (the return value of `_set_canon`) the content the model fixes; the value argument is untouched;
    the array *given* holds afterwards either that same content (the write was made in place, as the docstring
    says) or bytewise what it held before (the write was made on a copy) - never anything else"""
    import numpy as np
    if tuple(out.dims) != tuple(dims):
        return {"raise": "crash:dimensions-changed"}
    res = np.asarray(out.data)
    if res.shape != tuple(shape):
        return {"raise": "crash:shape-changed"}
    if not _coords_unchanged(out, snap) or not _coords_unchanged(arr, snap):
        return {"raise": "crash:coordinates-changed"}
    if not np.array_equal(np.asarray(given, dtype=float), np.asarray(value, dtype=float)):
        return {"raise": "crash:value-argument-mutated"}
    now = np.asarray(arr.values)
    if now.shape != tuple(shape) or (now.tobytes() != np.ascontiguousarray(res).tobytes()
                                     and now.tobytes() != np.ascontiguousarray(before).tobytes()):
        return {"raise": "crash:given-array-neither-written-nor-left-alone"}
    # the whole array after the call (row-major, in the order of the dimensions): the model fixes every element
    return {"val": [rat(float(x)) for x in res.reshape(-1)]}


_ND_CACHE = {}


@guarded
def _impl_index_nd(inp):
    """get_coord_index on one axis of a multi-dimensional array (any construction path)"""
    import numpy as np
    from soundevent import arrays
    from ..core import jkey
    shape = inp["shape"]
    key = jkey([shape, inp["axes"], inp.get("build")])
    if _ND_CACHE.get("key") != key:        # consecutive cases share the array (a lookup must not change it)
        data = np.arange(1, 1 + math.prod(shape), dtype=float).reshape(shape)
        arr, dims, snap = _build_array(shape, data, [fl(ax) for ax in inp["axes"]], inp.get("build"))
        _ND_CACHE.clear()
        _ND_CACHE.update(key=key, built=(arr, dims, snap, np.array(arr.values, copy=True)))
    arr, dims, snap, before = _ND_CACHE["built"]
    v = _typed(f(inp["v"]), inp.get("qty") if _fits(f(inp["v"]), inp.get("qty")) else None)
    r = _lookup_call(arr, dims[inp["axis"]], v, inp)
    if isinstance(r, bool) or int(r) != r:
        return {"raise": "crash:not-an-int"}
    if not _coords_unchanged(arr, snap) or np.asarray(arr.values).tobytes() != before.tobytes():
        _ND_CACHE.clear()
        return {"raise": "crash:array-changed"}
    return {"val": int(r)}


def _index_nd_to_model(inp):
    return {"coords": inp["axes"][inp["axis"]], "v": inp["v"], "raise": inp["raise"]}


_SET_HARNESS_KEYS = ("int_data", "f32_data", "vty", "qty", "container", "build", "call")


def _set_to_model(inp):
    return {k: v for k, v in inp.items() if k not in _SET_HARNESS_KEYS}


def _match_float32_axis(failure, m):
    """known finding C16-2: on a float32 axis pandas casts the query value to float32 before the search, so a
    binary64 value that is not a float32 number and rounds *up onto* a coordinate is put into that coordinate's
    bin (one too far); nothing else matches (axis of another dtype, representable value, any other index)"""
    import numpy as np
    inp = failure.inp or {}
    if not inp.get("axis32") or is_err(failure.impl) or is_err(failure.model):
        return False
    v = f(inp["v"])
    coords = fl(inp["coords"])
    i = failure.impl["val"]
    return (float(np.float32(v)) != v and failure.model["val"] == i - 1 and 0 < i < len(coords)
            and float(np.float32(v)) == coords[i] and v < coords[i])


FINDING_MATCHERS = {"float32_axis_value_rounds_onto_coordinate": _match_float32_axis}




# ------------------------------------------------------------------ arrays out of the library's own helpers
def _derive(arrays, arr, dim, chain):
    """an ordinary way of obtaining an array: the library's own range-adjusting helpers applied to a fresh one
    (they are object constructors here: whatever array comes out is read back with numpy and the lookups / writes on
    it are judged by its coordinates alone).  extend_dim leaves eps-shifted `start` / `stop` attributes on the
    coordinate, crop_dim / sel / isel carry them along unchanged, set_dim_attrs writes what it is told."""
    for op, a in chain:
        fn = getattr(arrays, op, None)
        if op == "sel":
            arr = arr.sel({dim: slice(a[0], a[1])})
        elif op == "isel":
            arr = arr.isel({dim: slice(a[0], a[1])})
        elif op == "shift":       # re-labelled: the same attributes on other coordinates
            arr = arr.assign_coords({dim: arr[dim].copy(data=arr[dim].values + a[0])})
        elif fn is None:
            return None
        elif op == "set_dim_attrs":
            arr = fn(arr, dim, start=a[0], stop=a[1])
        elif op in ("extend_dim", "crop_dim", "adjust_dim_range"):
            arr = fn(arr, dim, **{k: v for k, v in zip(("start", "stop"), a) if v is not None})
        else:
            return None
    return arr


@guarded
def _impl_index_derived(inp):
    import copy
    import numpy as np
    import xarray as xr
    from soundevent import arrays
    from soundevent.arrays import operations as ops
    r = inp["range"]
    start, stop, step = f(r["start"]), f(r["stop"]), f(r["step"])
    make = {"time": lambda: (arrays.create_time_range(start, stop, step=step), "time"),
            "frequency": lambda: (arrays.create_frequency_range(start, stop, step), "frequency"),
            "range": lambda: (arrays.create_range_dim("x", start, stop, step=step), "x")}[r["kind"]]
    var, dim = make()
    n0 = var.shape[0]
    arr = xr.DataArray(np.arange(1.0, 1.0 + n0), dims=[dim], coords={dim: var})
    try:
        arr = _derive(arrays, arr, dim, [(op, list(a) if op == "isel" else [None if x is None else f(x) for x in a])
                                         for op, a in inp["chain"]])
    except Exception:  # noqa: BLE001 - the helpers are not C16's business: no array, nothing to look up
        arr = None
    if arr is None or arr.sizes.get(dim, 0) == 0:
        return {"val": {"coords": [], "lookups": [], "writes": [], "built": False}}
    coords = [float(c) for c in np.asarray(arr[dim].values, dtype=float)]
    n = len(coords)
    if any(b <= a for a, b in zip(coords, coords[1:])):
        return {"val": {"coords": [], "lookups": [], "writes": [], "built": False}}
    attrs = dict(arr[dim].attrs)
    snap_attrs = _attrs_of(arr)
    first, last = coords[0], coords[-1]
    # query values: every coordinate, float neighbours, midpoints; beyond both ends up to two steps; and whatever
    # numbers the attributes of the coordinate mention (`start`, `stop`, and half-way between them and the real ends)
    qs = []
    for i, c in enumerate(coords):
        qs += [c, ulp_up(c), ulp_down(c)]
        if i + 1 < n:
            qs.append(c + (coords[i + 1] - c) / 2)
    for e in (first, last):
        for d in (step * 1e-9, step / 4, step / 2, step, 2 * step):
            qs += [e + d, e - d]
    for key, edge in (("start", first), ("stop", last)):
        a = attrs.get(key)
        if isinstance(a, (int, float, np.floating, np.integer)) and math.isfinite(float(a)):
            a = float(a)
            qs += [a, ulp_up(a), ulp_down(a), (a + edge) / 2]
    out = []
    for q in dict.fromkeys(x for x in qs if math.isfinite(x)):
        for raise_ in ((True, False) if not (first <= q <= last) else (True,)):
            try:
                res = arrays.get_coord_index(arr, dim, q, raise_error=raise_)
                o = {"val": int(res)} if int(res) == res else {"raise": "crash:not-an-int"}
            except Exception as e:  # noqa: BLE001
                o = _axis_exc(e)
            out.append([rat(q), o, raise_])
    if arr[dim].values.astype(float).tobytes() != np.asarray(coords).tobytes() or _attrs_of(arr) != snap_attrs:
        return {"raise": "crash:array-changed"}
    # writes at a few of these positions (each into a deep copy)
    writes = []
    data0 = np.asarray(arr.values, dtype=float)
    if data0.ndim == 1:
        cand = [coords[n // 2], last, first + (coords[1] - first) / 2 if n > 1 else first, last + step / 2, last + step,
                first - step / 4, first - step] + [float(attrs[k]) for k in ("start", "stop")
                                                   if isinstance(attrs.get(k), (int, float, np.floating))]
        for q in dict.fromkeys(x for x in cand if math.isfinite(x)):
            target = arr.copy(deep=True)
            rec = {"before": rats(float(x) for x in data0), "query": [[0, rat(q)]], "value": {"scalar": "-7"}}
            try:
                res = ops.set_value_at_pos(target, -7.0, **{dim: q})
                rec["out"] = {"val": rats(float(x) for x in np.asarray(res.values, dtype=float).reshape(-1))}
            except Exception as e:  # noqa: BLE001
                rec["out"] = _axis_exc(e)
            writes.append(rec)
    return {"val": {"coords": rats(coords), "lookups": out, "writes": writes, "built": True}}


def _holds_index_derived(ctx, inp, out):
    msg = _holds_index_dim(ctx, inp, out)
    if msg:
        return msg + " (array out of " + " -> ".join(op for op, _ in inp["chain"]) + ")"
    v = out["val"]
    for w in v["writes"]:
        mo = ctx.model("set_value", {"shape": [len(v["coords"])], "data": w["before"], "axes": [v["coords"]],
                                     "query": w["query"], "value": w["value"]})
        o = {k: x for k, x in w["out"].items() if k != "trace"}
        if o != mo:
            return (f"set_value_at_pos at {float(frac(w['query'][0][1]))!r} on an array out of "
                    f"{' -> '.join(op for op, _ in inp['chain'])} answers {jkey_short(o)}, the model {jkey_short(mo)}")
    return None


# ------------------------------------------------------------------ histories (harness/history.py, HISTORIES.md)
class _Raised:
    """the call of a history step raised: its canonical error (in the error classes of the axis model)"""
    def __init__(self, out):
        self.out = out


def _try(fn, *a):
    try:
        return fn(*a)
    except Exception as e:  # noqa: BLE001 - an exception of the real code is an observation of that step
        return _Raised(_axis_exc(e))


def _rh_canon(inp, args, res):
    return res.out if isinstance(res, _Raised) else _range_canon(inp, res)


def _rh_poison(res):
    """the caller edits the Variable it got back (its data in place, its attributes): a later request must not see it"""
    if isinstance(res, _Raised):
        return False
    try:
        data = res.values
        if data.size:
            data[...] = data + 1000.5
    except Exception:  # noqa: BLE001 - a read-only buffer cannot be poisoned that way
        pass
    res.attrs["step"] = -123.0
    res.attrs["poisoned"] = True
    return True


def _rh_variants(x, rng):
    """neighbours of a range request: the same numbers with another dtype / name / kind / call form / number type /
    attributes, the step given through `size`, and requests that differ in one number only"""
    out = []
    nums = [f(x.get(k)) for k in ("start", "stop", "step", "samplerate")]
    if all(_fits(v, "np32") for v in nums):
        out.append({**x, "dtype": None if x.get("dtype") else "float32"})
    out.append({**x, "name": rng.choice(["t2", "frequency", "time", "x"])})
    out.append({**x, "attrs": not x.get("attrs")})
    out.append({**x, "call": rng.randint(0, 6)})
    plain = x.get("step") is not None and x.get("size") is None and x.get("samplerate") is None
    if plain:
        for kind in ("range", "time", "frequency"):
            if kind != x["kind"]:
                out.append({**{k: v for k, v in x.items() if k != "name"}, "kind": kind})
        st, a, b = frac(x["step"]), frac(x["start"]), frac(x["stop"])
        out.append({**x, "step": rat(st * 2)})
        out.append({**x, "step": rat(st / 2)})
        out.append({**x, "stop": rat(b + st)})
        out.append({**x, "start": rat(a - st), "stop": rat(b - st)})
        if st > 0 and b > a and ((b - a) / st).denominator == 1 and x["kind"] == "range":
            out.append({k: v for k, v in {**x, "size": int((b - a) / st), "step": None}.items() if v is not None})
    for ty in ("int", "np64", "npint"):
        if all(_fits(v, ty) for v in nums) and not isinstance(x.get("argty"), dict):
            out.append({**x, "argty": ty})
    return [_sane_range_case({k: v for k, v in c.items() if v is not None}) for c in out]


def _sane_range_case(c):
    """number types only where they denote the same number, and Python numbers for a zero step / size / sample rate
    (numpy scalars divide by zero without raising: outside what the malformed requests are about)"""
    nums = {k: f(c.get(k)) for k in ("start", "stop", "step", "samplerate") if c.get(k) is not None}
    zero = any(nums.get(k) == 0 for k in ("step", "samplerate")) or c.get("size") == 0
    aty = c.get("argty")
    if isinstance(aty, dict):
        aty = {k: t for k, t in aty.items() if k in nums and _fits(nums[k], t)}
        c = {**c, "argty": aty}
    if aty is not None and (zero or not aty or (isinstance(aty, str) and not all(_fits(v, aty) for v in nums.values()))):
        c = {k: v for k, v in c.items() if k != "argty"}
    if c.get("dtype") == "float32" and not all(_fits(v, "np32") for v in nums.values()):
        c = {k: v for k, v in c.items() if k != "dtype"}
    return c


def _ih_build(inp):
    import numpy as np
    import xarray as xr
    coords = np.asarray(fl(inp["coords"]), dtype=float)
    cvar = coords
    if inp.get("cattrs") and len(coords):
        cvar = xr.Variable("x", coords, attrs=_range_attrs([float(c) for c in coords], inp["cattrs"]))
    arr = xr.DataArray(np.arange(1.0, 1.0 + len(coords)), dims=["x"], coords={"x": cvar}, attrs={"made": "by-harness"})
    return {"arr": arr, "inp": inp}


def _ih_call(args):
    inp = args["inp"]
    v = f(inp["v"])
    v = _typed(v, inp.get("qty") if _fits(v, inp.get("qty")) else None)
    return _try(_lookup_call, args["arr"], "x", v, inp)


def _ih_canon(inp, args, res):
    if isinstance(res, _Raised):
        return res.out
    if isinstance(res, bool) or int(res) != res:
        return {"raise": "crash:not-an-int"}
    return {"val": int(res)}


def _ih_snapshot(args):
    import numpy as np
    a = args["arr"]
    return [np.asarray(a["x"].values).tobytes().hex(), np.asarray(a.values).tobytes().hex(), _attrs_of(a)]


IH_REUSE = ("same", "setitem", "setitem_name", "assign", "copy_data", "isel")


def _ih_modify(args, inp, how):
    """the array of the previous step, now carrying the coordinates of this step: the very same object (coordinates
    re-assigned in place through `arr.coords[dim] = …` / `arr[dim] = …`), or an object derived from it that keeps
    its attributes and shares its data (`assign_coords`, `isel`); whatever a lookup remembered must not survive"""
    import numpy as np
    arr = args["arr"]
    new = np.asarray(fl(inp["coords"]), dtype=float)
    old = np.asarray(arr["x"].values, dtype=float)
    same = len(new) == len(old) and new.tobytes() == old.tobytes()
    hit = [a for a in range(0, len(old) - len(new) + 1) if old[a:a + len(new)].tobytes() == new.tobytes()]
    if len(new) != len(old):            # a shorter axis: only as a slice of the old one
        how = "isel" if hit and len(new) else None
    elif how == "same" and not same:
        how = "setitem"
    elif how == "isel" and not same:
        how = "assign"
    if how is None:
        return None
    if how == "same":
        pass
    elif how == "isel":
        arr = arr.isel(x=slice(hit[0], hit[0] + len(new)))
    elif how == "setitem":
        arr.coords["x"] = new
    elif how == "setitem_name":
        arr["x"] = new
    elif how == "assign":
        arr = arr.assign_coords(x=new)
    elif how == "copy_data":
        arr = arr.assign_coords(x=arr["x"].copy(data=new))
    else:
        return None
    if np.asarray(arr["x"].values, dtype=float).tobytes() != new.tobytes():
        raise RuntimeError("harness: the coordinates were not re-assigned")
    return {"arr": arr, "inp": inp}


def _ih_variants(x, rng):
    """neighbours of a lookup: the same axis with another value / flag, the axis shifted or scaled (same length,
    the old value now somewhere else or outside), the axis without its first / last point, a longer axis"""
    cs = [frac(c) for c in x["coords"]]
    v = frac(x["v"])
    gap = (cs[1] - cs[0]) if len(cs) > 1 else Fraction(1)
    span = cs[-1] - cs[0] + gap

    def b64(q):          # every number of a case is a binary64 number (the model reads it exactly)
        return rat(float(q))

    def axis(qs):
        return [b64(q) for q in qs]
    out = [{**{k: w for k, w in x.items() if k != "omit_raise"}, "raise": not x["raise"]}]
    for w in (cs[0], cs[-1], cs[0] - gap / 2, cs[-1] + gap / 2, rng.choice(cs) + gap / 4):
        out.append({**x, "v": b64(w)})
    for d in (gap / 2, span, -span, 3 * span):
        sh = [c + d for c in cs]
        out.append({**x, "coords": axis(sh)})
        out.append({**x, "coords": axis(sh), "v": b64(v + d)})
    out.append({**x, "coords": axis([2 * c for c in cs])})
    if len(cs) > 1:
        out.append({**x, "coords": rats(cs[1:]), "v": rat(cs[0])})
        out.append({**x, "coords": rats(cs[:-1]), "v": rat(cs[-1])})
        out.append({**x, "coords": rats(cs[1:])})
    out.append({**x, "coords": rats(cs) + [b64(cs[-1] + gap)], "v": b64(cs[-1] + gap)})
    return [c for c in out if all(math.isfinite(float(frac(q))) for q in c["coords"] + [c["v"]])]


def _rand_write(rng, shape, axes, qable, outside=0.0):
    """a write request on the axes as they are now: a subset of the queryable axes, positions on / between the
    coordinates (with probability `outside`: one position just outside its axis), a value of one of the kinds"""
    nd = len(shape)
    ks = sorted(rng.sample(qable, rng.randint(0 if rng.random() < 0.15 else 1, len(qable)))) if qable else []
    query = []
    for k in ks:
        ax = axes[k]
        i = rng.randrange(len(ax))
        c = ax[i]
        if i + 1 < len(ax) and rng.random() < 0.4:
            c = c + (ax[i + 1] - c) * Fraction(rng.choice([1, 2, 3]), 4)
        query.append([k, rat(c)])
    if query and rng.random() < outside:
        j = rng.randrange(len(query))
        ax = axes[query[j][0]]
        stp = ax[1] - ax[0] if len(ax) > 1 else Fraction(1, 2)
        query[j][1] = rat(rng.choice([ax[-1] + stp / 2, ax[-1] + stp, ax[0] - stp / 4]))
    rng.shuffle(query)
    free = [shape[k] for k in range(nd) if k not in ks]
    kind = rng.choice(["scalar", "scalar", "exact", "ones", "bad"] if free else ["scalar", "scalar", "cell_list"])
    return query, _value(rng, kind, free)


def _session_value(val, container):
    import numpy as np
    if "scalar" in val:
        return f(val["scalar"])
    value = np.array(fl(val["data"]), dtype=float).reshape(val["shape"])
    if container == "list":
        return value.tolist()
    if container == "tuple":
        return tuple(value.tolist()) if value.ndim else value.tolist()
    return value


@guarded
def _impl_set_session(h):
    """consecutive writes into one live array (the array returned by a call is handed to the next one, as in the
    docstring's `array = set_value_at_pos(array, …)`, or the array given when `use` says so); between two calls the
    coordinates of an axis may be re-assigned (`recoord`).  Every step reports the content the array had right
    before the call (read with numpy) and what the call answered."""
    import copy
    import numpy as np
    from soundevent.arrays import operations as ops
    shape = h["shape"]
    data = np.array(fl(h["data"]), dtype=float).reshape(shape)
    cur, dims, snap = _build_array(shape, data.copy(), [fl(ax) for ax in h["axes"]], h.get("build"))
    axes_now = [list(ax) for ax in h["axes"]]
    outs = []
    for st in h["steps"]:
        rc = st.get("recoord")
        if rc:
            k, new = rc["axis"], np.asarray(fl(rc["coords"]), dtype=float)
            if rc["how"] == "setitem":
                cur.coords[dims[k]] = new
            elif rc["how"] == "assign":
                cur = cur.assign_coords({dims[k]: new})
            else:
                cur = cur.assign_coords({dims[k]: cur[dims[k]].copy(data=new)})
            if np.asarray(cur[dims[k]].values, dtype=float).tobytes() != new.tobytes() or tuple(cur.dims) != tuple(dims):
                raise RuntimeError("harness: the coordinates were not re-assigned")
            axes_now[k] = list(rc["coords"])
            snap = {n: np.array(c.values, copy=True) for n, c in cur.coords.items()}
            snap[_ATTRS] = _attrs_of(cur)
        before = np.array(cur.values, copy=True)
        value = _session_value(st["value"], st.get("container", "list"))
        given = copy.deepcopy(value)
        query = {_dim_name(dims, k): f(q) for k, q in st["query"]}
        rec = {"before": rats(float(x) for x in before.reshape(-1)), "axes": [list(a) for a in axes_now]}
        try:
            out = _call_form(ops.set_value_at_pos, SET_PARAMS, {"array": cur, "value": value}, st.get("call", 2), {}, query)
        except Exception as e:  # noqa: BLE001
            if np.asarray(cur.values).tobytes() != before.tobytes() or not _coords_unchanged(cur, snap):
                rec["out"] = {"raise": "crash:array-changed-by-a-rejected-call"}
            else:
                rec["out"] = _axis_exc(e)
            outs.append(rec)
            continue
        rec["out"] = _set_canon(out, cur, dims, shape, snap, before, given, value)
        outs.append(rec)
        if st.get("use", "returned") == "returned" and not is_err(rec["out"]):
            cur = out
    return {"steps": outs}


def _holds_set_session(ctx, h, io):
    if is_err(io):
        return "the session driver raised %r" % (io,)
    for n, (st, rec) in enumerate(zip(h["steps"], io["steps"])):
        mo = ctx.model("set_value", {"shape": h["shape"], "data": rec["before"], "axes": rec["axes"],
                                     "query": st["query"], "value": st["value"]})
        out = {k: v for k, v in rec["out"].items() if k != "trace"}
        if out != mo:
            return (f"session step {n}{' (after re-assigning the coordinates of axis %d)' % st['recoord']['axis'] if st.get('recoord') else ''}: "
                    f"on the content the array had right before the call, set_value_at_pos answers {jkey_short(out)}, "
                    f"the model {jkey_short(mo)}")
    return None


def jkey_short(x):
    from ..core import jkey
    s_ = jkey(x)
    return s_ if len(s_) <= 200 else s_[:200] + "…"


OPS = {
    "range_dim": Op("range_dim", _impl_range, holds=_holds_range,
                    to_model=lambda i: {k: v for k, v in i.items() if k not in _RANGE_HARNESS_KEYS}),
    "range_free": Op("range_free", _impl_range_free, holds=_holds_range_free, model_op="noop",
                     to_model=lambda inp: {}, compare=lambda inp, io, mo: None, mode="tolerance"),
    "coord_index": Op("coord_index", _impl_index, holds=_holds_index,
                      to_model=lambda i: {"coords": i["coords"], "v": i["v"], "raise": i["raise"]}),
    "coord_index_dim": Op("coord_index_dim", _impl_index_dim, holds=_holds_index_dim, model_op="noop",
                          compare=lambda inp, io, mo: None,
                          nontrivial=lambda inp, out: not is_err(out) and len(out["val"]["lookups"]) > 0),
    "coord_index_long": Op("coord_index_long", _impl_index_long, holds=_holds_index_dim, model_op="noop",
                           compare=lambda inp, io, mo: None,
                           nontrivial=lambda inp, out: not is_err(out) and len(out["val"]["lookups"]) > 0),
    "coord_index_derived": Op("coord_index_derived", _impl_index_derived, holds=_holds_index_derived, model_op="noop",
                              compare=lambda inp, io, mo: None,
                              nontrivial=lambda inp, out: not is_err(out) and out["val"].get("built", False)),
    # (no separate monitor: the comparison with `coordIndex` is exact and, by C16_index_spec_determines, the same judgement)
    "coord_index_nd": Op("coord_index_nd", _impl_index_nd, model_op="coord_index", to_model=_index_nd_to_model),
    "set_value": Op("set_value", _impl_set, to_model=_set_to_model),
    "set_session": Op("set_session", _impl_set_session, holds=_holds_set_session, compare=lambda inp, io, mo: None,
                      no_model=True, nontrivial=lambda inp, out: not is_err(out) and any(
                          not is_err(r["out"]) for r in out["steps"])),
}
OPS["range_history"] = history.history_op(
    "range_history", OPS["range_dim"], build=lambda inp: {"inp": inp}, call=lambda args: _try(_range_call, args["inp"]),
    canon=_rh_canon, poison=_rh_poison)
OPS["index_history"] = history.history_op(
    "index_history", OPS["coord_index"], build=_ih_build, call=_ih_call, canon=_ih_canon, snapshot=_ih_snapshot,
    modify=_ih_modify)


# ------------------------------------------------------------------ generators
def _range_grid_cases():
    """every quotient fraction 0, 1/4, 1/2, 3/4 for several dyadic starts and steps (count boundary)"""
    starts = [Fraction(0), Fraction(1, 2), Fraction(-1), Fraction(13, 4)]
    steps = [Fraction(1, 4), Fraction(1, 2), Fraction(1), Fraction(3, 4), Fraction(5, 2)]
    for s0 in starts:
        for st in steps:
            for m in range(0, 4 * 6 + 1):
                yield {"kind": "range", "start": rat(s0), "stop": rat(s0 + m * st / 4), "step": rat(st)}


def _range_random_cases(rng, n):
    for _ in range(n):
        k = rng.choice([1, 3, 6, 10])
        s0 = dy(rng, -8, 64, k)
        st = dy(rng, 2.0 ** -k, 4, k)
        cnt = rng.choice([0, 1, 2, 3, 5, 17, 64, 100]) if rng.random() < 0.7 else rng.randint(0, 300)
        frac4 = rng.choice([0, 0, 0, 1, 2, 3])
        stop = s0 + cnt * st + frac4 * st / 4
        kind = rng.choice(["range", "range", "time", "frequency", "size", "samplerate"])
        if rng.random() < 0.25:      # whole numbers, so that int / np.int64 arguments occur
            s0, st = Fraction(rng.randint(-8, 64)), Fraction(rng.choice([1, 1, 2, 3, 5]))
            stop = s0 + cnt * st + rng.choice([0, 0, 1, 2]) * (st > 2)
        if kind in ("range", "time", "frequency"):
            case = {"kind": kind, "start": rat(s0), "stop": rat(stop), "step": rat(st)}
        elif kind == "size":
            size = rng.choice([1, 2, 4, 8, 16, 3, 5, 10])
            stop = s0 + size * st
            case = {"kind": "range", "start": rat(s0), "stop": rat(stop), "size": size}
            if rng.random() < 0.3:
                case["sizety"] = rng.choice(["npint", "np32int", "float", "np64"])
        else:
            sr = rng.choice([1, 2, 4, 8, 256, 1024, Fraction(1, 2), Fraction(1, 4), Fraction(1, 8)])
            stop = s0 + min(cnt, 64) / Fraction(sr)
            case = {"kind": "time", "start": rat(s0), "stop": rat(stop), "samplerate": rat(sr)}
        # both ways of giving the step at once (the step wins), agreeing or not
        if rng.random() < 0.08 and "step" in case:
            if kind == "time":
                case["samplerate"] = rat(rng.choice([1 / st, Fraction(rng.choice([1, 2, 4, 8])), Fraction(1, 2)]))
            elif kind == "range":
                case["size"] = rng.choice([1, 2, 3, 8, max(cnt, 1)])
        # the same request with ints / numpy scalars (where that is the same number), float32 coordinates
        ty = rng.choice(["float", "float", "int", "npint", "np64", "np32"])
        nums = [f(case.get(k)) for k in ("start", "stop", "step", "samplerate")]
        if ty != "float" and all(_fits(x, ty) for x in nums):
            case["argty"] = ty
        elif rng.random() < 0.5:     # a different type per argument
            mixed = {}
            for k in ("start", "stop", "step", "samplerate"):
                t = rng.choice(["float", "int", "npint", "np64", "np32"])
                if case.get(k) is not None and t != "float" and _fits(f(case[k]), t):
                    mixed[k] = t
            if mixed:
                case["argty"] = mixed
        if rng.random() < 0.15 and all(_fits(x, "np32") for x in nums):
            case["dtype"] = "float32"
        yield case
    # malformed requests: nothing given, zero step, zero size, zero sample rate, reversed range, negative step
    yield {"kind": "range", "start": "0", "stop": "1"}
    yield {"kind": "time", "start": "0", "stop": "1"}
    yield {"kind": "range", "start": "0", "stop": "1", "step": "0"}
    yield {"kind": "range", "start": "0", "stop": "1", "size": 0}
    yield {"kind": "time", "start": "0", "stop": "1", "samplerate": "0"}
    yield {"kind": "range", "start": "1", "stop": "0", "step": "1/2"}
    yield {"kind": "range", "start": "0", "stop": "1", "step": "-1/2"}
    yield {"kind": "range", "start": "1", "stop": "0", "step": "-1/4"}
    yield {"kind": "range", "start": "0", "stop": "0", "step": "1/2"}
    yield {"kind": "range", "start": "0", "stop": "1", "step": "1/4", "size": 2}
    yield {"kind": "time", "start": "0", "stop": "1", "step": "1/4", "samplerate": "2"}
    yield {"kind": "time", "start": "0", "stop": "1", "step": "1/4", "samplerate": "4"}
    yield {"kind": "time", "start": "0", "stop": "1", "step": "1/2", "samplerate": "0"}


FREE_STEPS = [0.1, 0.01, 1 / 3, 1 / 44100, 0.004, 1e-3, 1 / 22050, 0.05, 1 / 48000, 0.3]
FREE_STARTS = [0.0, 0.5, 3.7, 12.7, -1.3, 0.1, 100.03]


def _range_free_cases(ctx):
    rng = ctx.rng
    ns = [1, 2, 3, 7, 10, 100, 441, 1000]
    for st in FREE_STEPS:
        for s0 in FREE_STARTS:
            for n in ns + [rng.randint(1, 2000)]:
                yield {"kind": "range", "start": rat(s0), "step": rat(st), "n": n}
        # from zero the lattice is i * step (one rounding): long axes
        for n in ([4410, 44100] if not ctx.thorough() else [4410, 44100, 88200, 132300]):
            yield {"kind": rng.choice(["time", "frequency", "range"]), "start": "0", "step": rat(st), "n": n}
    for _ in range(ctx.budget(300, 6000)):
        st = rng.choice(FREE_STEPS + [rng.uniform(1e-4, 2.0)])
        s0 = rng.choice(FREE_STARTS + [rng.uniform(-5, 50)])
        yield {"kind": rng.choice(["range", "time", "frequency"]), "start": rat(s0), "step": rat(st),
               "n": rng.randint(1, 2000)}
    # the step derived from `size=` / `samplerate=` (a rounded quotient): same statement
    for st in FREE_STEPS:
        for s0 in (0.0, 0.3, 12.7):
            for n in (1, 2, 3, 7, 10, 30, 100, rng.randint(1, 1500)):
                yield {"kind": "size", "start": rat(s0), "step": rat(st), "n": n}
    for sr in (44100.0, 22050.0, 48000.0, 8000.0, 16000.0, 3.0, 10.0, 1000.0, 96000.0, 0.3):
        for s0 in (0.0, 0.5, 1.3):
            for n in (1, 2, 5, 100, 441, rng.randint(1, 1500)):
                yield {"kind": "samplerate", "start": rat(s0), "step": rat(sr), "n": n}
    # dtype=float32 with steps that are no float32 numbers (from zero: numpy fills with i * float32(step))
    for st in FREE_STEPS:
        for n in (1, 2, 7, 100, rng.randint(1, 1000)):
            yield {"kind": rng.choice(["range", "time", "frequency", "size"]), "start": "0", "step": rat(st), "n": n, "f32": True}
    for sr in (44100.0, 22050.0, 3.0, 0.3):
        yield {"kind": "samplerate", "start": "0", "step": rat(sr), "n": rng.randint(1, 1000), "f32": True}


def _axes_pool(rng, n_random):
    axes = []
    for n in range(1, 7):
        axes.append([0.1 * i for i in range(n)])
        axes.append([0.3 + i / 3 for i in range(n)])
        axes.append([float(i) for i in range(n)])
        axes.append([-2.5 + 0.01 * i for i in range(n)])
        axes.append([1e9 + i / 44100 for i in range(n)])
        axes.append([1e-300 * (i + 1) for i in range(n)])
        for _ in range(n_random):
            scale = rng.choice([1e-6, 1.0, 1e3, 1e12])
            pts = sorted({rng.uniform(-scale, scale) for _ in range(n)})
            axes.append(pts)
        if n >= 2:   # adjacent floats and a repeated coordinate
            x = rng.uniform(-10, 10)
            pts = [x]
            for _ in range(n - 1):
                pts.append(ulp_up(pts[-1]))
            axes.append(pts)
            pts = sorted(rng.uniform(0, 4) for _ in range(n - 1))
            j = rng.randrange(n - 1)
            axes.append(pts[:j + 1] + pts[j:])
    return axes


def _queries(ax):
    qs = []
    for c in ax:
        qs += [c, ulp_up(c), ulp_down(c)]
    for a, b in zip(ax, ax[1:]):
        m = a + (b - a) / 2
        qs.append(m)
    span = max(abs(ax[0]), abs(ax[-1]), 1e-300)
    qs += [ax[0] - span, ax[0] - 1.0, ax[-1] + span, ax[-1] + 1.0, 0.0, -0.0]
    return [q for q in dict.fromkeys(qs) if math.isfinite(q)]


def _index_cases(ctx):
    rng = ctx.rng
    for ax in _axes_pool(ctx.rng, ctx.budget(4, 40)):
        ax32 = all(_fits(c, "np32") for c in ax)
        for q in _queries(ax):
            for raise_ in (True, False):
                yield {"coords": rats(ax), "v": rat(q), "raise": raise_}
            # the same lookup with another type of query value / a float32 axis / raise_error left to its default
            extra = {"coords": rats(ax), "v": rat(q), "raise": rng.random() < 0.5}
            ty = rng.choice(["np64", "np32", "int", "npint"])
            if _fits(q, ty):
                extra["qty"] = ty
            if ax32 and rng.random() < 0.5:
                extra["axis32"] = True
            if rng.random() < 0.3:
                extra["raise"], extra["omit_raise"] = True, True
            if len(extra) > 3:
                yield extra
            # … and on a coordinate that carries `start` / `stop` / `step` attributes, consistent or stale
            yield {"coords": rats(ax), "v": rat(q), "raise": rng.random() < 0.5, "cattrs": rng.choice(RANGE_ATTRS)}
    # integer-typed axes and integer queries
    for n in range(1, 6):
        ax = [2 * i - 3 for i in range(n)]
        for q2 in range(2 * ax[0] - 3, 2 * ax[-1] + 4):
            q = q2 / 2
            for raise_ in (True, False):
                inp = {"coords": rats(ax), "v": rat(q), "raise": raise_, "int_axis": True}
                if q == int(q):
                    inp["int_query"] = True
                yield inp


def _index_dim_cases(ctx):
    """axes as the library builds them (with a `step` attribute), non-representable steps: every coordinate,
    both float neighbours and every midpoint is looked up"""
    rng = ctx.rng
    steps = [0.1, 0.01, 1 / 3, 1 / 44100, 0.004, 0.25, 1 / 22050, 0.3, 1e-3]
    for step in (1.0, 0.25, 0.1):        # short axes first (small replays)
        for n in (1, 2, 5):
            for kind in ("range", "time", "frequency"):
                yield {"range": {"kind": kind, "start": "0", "stop": rat(n * step), "step": rat(step)}}
    for step in steps:
        for start in (0.0, 0.3, rng.choice([1.7, 12.34, 100.001])):
            n = ctx.budget(60, 400) + rng.randint(0, 7)
            for kind in ("range", "time", "frequency"):
                if kind != "range" and (start != 0.0 and rng.random() < 0.5):
                    continue
                yield {"range": {"kind": kind, "start": rat(start), "stop": rat(start + n * step), "step": rat(step)}}


def _set_cases(ctx):
    rng = ctx.rng
    full = ctx.thorough()
    counter = 0
    for nd in (1, 2, 3):
        for shape in itertools.product((1, 2, 3), repeat=nd):
            size = math.prod(shape)
            data = rats(range(1, size + 1))
            axes = []
            for k, d in enumerate(shape):
                a0 = Fraction(rng.randint(-4, 4), 2)
                stp = Fraction(rng.choice([1, 2, 3, 5]), 4)
                axes.append([a0 + i * stp for i in range(d)])
            for r in range(0, nd + 1):
                for dims in itertools.combinations(range(nd), r):
                    free = [shape[k] for k in range(nd) if k not in dims]
                    for idx in itertools.product(*[range(shape[k]) for k in dims]):
                        kinds = ["scalar", "exact", "ones", "bad"] if free else ["scalar", "cell_list"]
                        if not full:
                            counter += 1
                            kinds = [kinds[counter % len(kinds)], "scalar"]
                        for kind in dict.fromkeys(kinds):
                            query = []
                            for k, i in zip(dims, idx):
                                ax = axes[k]
                                c = ax[i]
                                how = rng.choice(["on", "between", "on"])
                                if how == "between" and i + 1 < len(ax):
                                    c = c + (ax[i + 1] - c) * Fraction(rng.choice([1, 2, 3]), 4)
                                query.append([k, rat(c)])
                            rng.shuffle(query)
                            case = {"shape": list(shape), "data": data, "axes": [rats(a) for a in axes],
                                    "query": query, "value": _value(rng, kind, free)}
                            r = rng.random()
                            if r < 0.15:
                                case["container"] = rng.choice(["tuple", "ndarray"]) if free else "tuple"
                            elif r < 0.3:
                                case["int_data"] = True
                            elif r < 0.45:
                                case["qty"] = rng.choice(["np64", "int", "npint", "np32"])
                            elif r < 0.55 and kind == "scalar":
                                case["vty"] = rng.choice(["int", "np64", "npint"])
                            yield case
            # outside the axis range, unknown dimension
            k = rng.randrange(nd)
            yield {"shape": list(shape), "data": data, "axes": [rats(a) for a in axes],
                   "query": [[k, rat(axes[k][-1] + 1)]], "value": {"scalar": "9"}}
            yield {"shape": list(shape), "data": data, "axes": [rats(a) for a in axes],
                   "query": [[k, rat(axes[k][0] - Fraction(1, 8))]], "value": {"scalar": "9"}}
            yield {"shape": list(shape), "data": data, "axes": [rats(a) for a in axes],
                   "query": [[nd, "0"]], "value": {"scalar": "9"}}


# shapes for the construction-path cases: non-square on purpose (an axis mix-up changes a size or raises)
ND_SHAPES = [(4,), (2, 3), (3, 2), (1, 4), (4, 1), (2, 5), (5, 3), (3, 3),
             (2, 3, 4), (4, 3, 2), (3, 1, 2), (2, 4, 3), (1, 2, 3), (3, 2, 2)]
_EXTRAS = ["scalar", "aux1d", "aux2d"]


def _builds(rng, nd, n_random):
    """construction paths of an nd-dimensional array (see `_build_array`): every registration order of the
    coordinates, every transposition, every dimension (pair) without a coordinate, extra coordinates before /
    after, the other forms, step attributes, axis dtypes, Fortran layout - and random combinations"""
    ident = list(range(nd))
    perms = [list(q) for q in itertools.permutations(range(nd)) if list(q) != ident]
    rev = ident[::-1]
    out = [{}]
    out += [{"corder": q} for q in perms]
    out += [{"transpose": q} for q in perms]
    if nd >= 2:
        out += [{"nocoord": [k]} for k in range(nd)]
    if nd >= 3:
        out += [{"nocoord": list(c)} for c in itertools.combinations(range(nd), 2)]
    out += [{"extra": _EXTRAS, "extra_first": True}, {"extra": _EXTRAS, "aux_axis": nd - 1},
            {"form": "assign", "corder": rev}, {"form": "assign", "extra": _EXTRAS, "extra_first": True},
            {"form": "dataset", "corder": rev}, {"form": "tuples"},
            {"step_attr": True}, {"step_attr": True, "corder": rev, "extra": ["scalar"]},
            {"layout": "F"}]
    if perms:
        out += [{"layout": "F", "transpose": perms[-1]}, {"step_attr": True, "transpose": perms[0]},
                {"form": "dataset", "transpose": perms[0], "nocoord": [nd - 1]}]
    out += [{"range_attrs": k} for k in RANGE_ATTRS]
    out += [{"range_attrs": "wide", "corder": rev, "extra": ["scalar"]}, {"range_attrs": "narrow", "form": "assign"}]
    if nd >= 2:     # the same dimension names on other axes than in the arrays handled before
        rot = [f"d{(k + 1) % nd}" for k in range(nd)]
        out += [{"names": rot}, {"names": rot[::-1], "corder": rev}, {"names": rot, "transpose": perms[0], "extra": ["scalar"]}]
    for k in range(nd):
        out.append({"axis_dtype": {str(k): ["float32", "int64"][k % 2]}})
    out.append({"axis_dtype": {str(k): ["int64", "float32"][k % 2] for k in range(nd)}, "corder": rev})
    for _ in range(n_random):
        b = {}
        if perms and rng.random() < 0.6:
            b["corder"] = rng.choice(perms)
        if perms and rng.random() < 0.5:
            b["transpose"] = rng.choice(perms)
        if nd >= 2 and rng.random() < 0.3:
            b["nocoord"] = sorted(rng.sample(range(nd), rng.randint(1, nd - 1)))
        if rng.random() < 0.5:
            b["extra"] = [e for e in _EXTRAS if rng.random() < 0.6]
            b["extra_first"] = rng.random() < 0.5
            b["aux_axis"] = rng.randrange(nd)
        b["form"] = rng.choice(["dict", "dict", "assign", "dataset"])
        if rng.random() < 0.3:
            b["step_attr"] = True
        elif rng.random() < 0.3:
            b["range_attrs"] = rng.choice(RANGE_ATTRS)
        if rng.random() < 0.3:
            b["layout"] = "F"
        if rng.random() < 0.3:
            b["axis_dtype"] = {str(rng.randrange(nd)): rng.choice(["float32", "int64"])}
        if nd >= 2 and rng.random() < 0.25:
            b["names"] = [f"d{k}" for k in rng.choice(perms)]
        out.append(b)
    return out


def _built_axes(rng, shape, b):
    axes = []
    adt = b.get("axis_dtype") or {}
    for k, d in enumerate(shape):
        if adt.get(str(k)) == "int64":
            a0, stp = Fraction(rng.randint(-4, 4)), Fraction(rng.choice([1, 2, 3]))
        else:
            a0, stp = Fraction(rng.randint(-8, 8), 4), Fraction(rng.choice([1, 2, 3, 5]), 4)
        axes.append([a0 + i * stp for i in range(d)])
    return axes


def _set_cases_built(ctx):
    """writes into arrays built along every construction path, non-square shapes; every subset of the queried
    axes; positions on and between coordinates; just outside the axis (-> KeyError, nothing written)"""
    rng = ctx.rng
    reps = ctx.budget(1, 3)
    for shape in ND_SHAPES:
        nd = len(shape)
        data = rats(range(1, math.prod(shape) + 1))
        for b in _builds(rng, nd, ctx.budget(6, 30)):
            axes = _built_axes(rng, shape, b)
            qable = [k for k in range(nd) if k not in b.get("nocoord", ())]
            base = {"shape": list(shape), "data": data, "axes": [rats(a) for a in axes]}
            if b:
                base["build"] = b
            for r in range(0, len(qable) + 1):
                for dims in itertools.combinations(qable, r):
                    if r == 0 and rng.random() < 0.7:
                        continue
                    free = [shape[k] for k in range(nd) if k not in dims]
                    for _ in range(reps):
                        query = []
                        for k in dims:
                            ax = axes[k]
                            i = rng.randrange(len(ax))
                            c = ax[i]
                            if i + 1 < len(ax) and rng.random() < 0.4 and (b.get("axis_dtype") or {}).get(str(k)) != "int64":
                                c = c + (ax[i + 1] - c) * Fraction(rng.choice([1, 2, 3]), 4)
                            query.append([k, rat(c)])
                        rng.shuffle(query)
                        kind = rng.choice(["scalar", "scalar", "exact", "ones", "bad"] if free else ["scalar", "scalar", "cell_list"])
                        case = dict(base, query=query, value=_value(rng, kind, free))
                        x = rng.random()
                        if x < 0.15:
                            case["int_data"] = True
                        elif x < 0.3:
                            case["f32_data"] = True
                        elif x < 0.4:
                            case["container"] = rng.choice(["tuple", "ndarray"]) if free else "tuple"
                        elif x < 0.5:
                            case["qty"] = rng.choice(["np64", "np32", "int", "npint"])
                        elif x < 0.6:
                            case["call"] = rng.randint(0, 1)      # the array / the value by keyword
                        yield case
            # just outside an axis (within one step of it), alone and together with a valid position
            for k in qable:
                ax = axes[k]
                stp = ax[1] - ax[0] if len(ax) > 1 else Fraction(1, 2)
                outs = [ax[-1] + stp / 2, ax[-1] + stp, ax[0] - stp / 4]
                q = [[k, rat(rng.choice(outs))]]
                others = [j for j in qable if j != k]
                if others and rng.random() < 0.5:
                    j = rng.choice(others)
                    q.append([j, rat(rng.choice(axes[j]))])
                    rng.shuffle(q)
                yield dict(base, query=q, value={"scalar": "9"})
        # a dimension the array does not have
        yield {"shape": list(shape), "data": data, "axes": [rats(a) for a in _built_axes(rng, shape, {})],
               "query": [[nd, "0"]], "value": {"scalar": "9"}, "build": {"corder": list(range(nd))[::-1]}}


def _index_nd_cases(ctx, n_random=None):
    """get_coord_index on every axis of non-square 2-D / 3-D arrays (every construction path): clamp and raise
    beyond both ends (just outside, within a step, far), on / between coordinates inside"""
    rng = ctx.rng
    for shape in ND_SHAPES:
        nd = len(shape)
        for b in _builds(rng, nd, ctx.budget(4, 30) if n_random is None else n_random):
            axes = _built_axes(rng, shape, b)
            base = {"shape": list(shape), "axes": [rats(a) for a in axes]}
            if b:
                base["build"] = b
            adt = b.get("axis_dtype") or {}
            for k in range(nd):
                if k in b.get("nocoord", ()):
                    continue
                ax = axes[k]
                stp = ax[1] - ax[0] if len(ax) > 1 else Fraction(1, 2)
                exact = adt.get(str(k)) is None          # binary64 axis: any binary64 query value
                above = [ax[-1] + stp / 2, ax[-1] + stp, ax[-1] + 7 * stp]
                below = [ax[0] - stp / 4, ax[0] - stp, ax[0] - 5 * stp]
                if exact:
                    above.append(frac(rat(ulp_up(float(ax[-1])))))
                    below.append(frac(rat(ulp_down(float(ax[0])))))
                cases = [(q, False) for q in above + rng.sample(below, 2)]
                cases += [(rng.choice(above), True), (rng.choice(below), True)]
                i = rng.randrange(len(ax))
                inside = [ax[i], ax[-1], ax[0]]
                if len(ax) > 1:
                    j = rng.randrange(len(ax) - 1)
                    inside.append(ax[j] + (ax[j + 1] - ax[j]) * Fraction(rng.choice([1, 2, 3]), 4))
                cases += [(q, rng.random() < 0.5) for q in inside]
                for q, raise_ in cases:
                    case = dict(base, axis=k, v=rat(q), **{"raise": raise_})
                    x = rng.random()
                    if x < 0.15 and raise_:
                        case["omit_raise"] = True
                    elif x < 0.35:
                        case["qty"] = rng.choice(["np64", "np32", "int", "npint"])
                    yield case


def _set_cases_4d(ctx):
    rng = ctx.rng
    for _ in range(ctx.budget(40, 400)):
        shape = [rng.choice([1, 2, 3]) for _ in range(4)]
        axes = []
        for d in shape:
            a0, stp = Fraction(rng.randint(-4, 4), 2), Fraction(rng.choice([1, 3, 5]), 4)
            axes.append([a0 + i * stp for i in range(d)])
        dims = sorted(rng.sample(range(4), rng.randint(0, 4)))
        free = [shape[k] for k in range(4) if k not in dims]
        query = []
        for k in dims:
            i = rng.randrange(shape[k])
            c = axes[k][i]
            if i + 1 < shape[k] and rng.random() < 0.4:
                c = c + (axes[k][i + 1] - c) / 2
            query.append([k, rat(c)])
        rng.shuffle(query)
        kind = rng.choice(["scalar", "exact", "ones", "bad"] if free else ["scalar", "cell_list"])
        yield {"shape": shape, "data": rats(range(1, math.prod(shape) + 1)), "axes": [rats(a) for a in axes],
               "query": query, "value": _value(rng, kind, free)}


def _value(rng, kind, free):
    if kind == "scalar":
        return {"scalar": rat(rng.choice([0, -1, 7, 100]))}
    if kind == "cell_list":
        return {"shape": [1], "data": ["5"]}
    if kind == "exact":
        vs = list(free)
    elif kind == "ones":
        vs = [d if rng.random() < 0.5 else 1 for d in free]
        vs = vs[rng.randint(0, len(vs) - 1):] if len(vs) > 1 and rng.random() < 0.5 else vs
    else:  # a shape that cannot be broadcast
        vs = list(free)
        j = rng.randrange(len(vs))
        vs[j] = vs[j] + 1 if vs[j] != 1 or rng.random() < 0.5 else 2
        if vs[j] == 1:
            vs[j] = 2
    n = math.prod(vs)
    data = list(range(100, 100 + n))
    rng.shuffle(data)
    return {"shape": vs, "data": rats(data)}



def _range_form_cases(rng):
    """every call form (number of positional arguments 0 … all, in the documented order) x every way of giving the
    step x dtype x name x further attributes x number type, for the three constructors (options pairwise and more:
    the whole product on one request per constructor and way of giving the step)"""
    reqs = [("range", {"step": "1/4"}), ("range", {"size": 6}), ("range", {"step": "1/2", "size": 2}),
            ("time", {"step": "1/4"}), ("time", {"samplerate": "4"}), ("time", {"step": "1/2", "samplerate": "8"}),
            ("frequency", {"step": "1/4"})]
    for kind, how in reqs:
        nparams = {"range": 6, "time": 6, "frequency": 5}[kind]
        base = {"kind": kind, "start": "1/2", "stop": "2", **how}
        for form in range(0, nparams + 1):
            for dtype in (None, "float32"):
                for name in (None, "t2"):
                    for attrs in (False, True):
                        c = dict(base, call=form)
                        if dtype:
                            c["dtype"] = dtype
                        if name:
                            c["name"] = name
                        if attrs:
                            c["attrs"] = True
                        yield c
        # whole numbers: the same request with ints / numpy scalars, every call form
        for ty in ("int", "npint", "np64", "np32"):
            for form in (0, 3, nparams):
                whole = {"kind": kind, "start": "2", "stop": "8", **{k: ("2" if k != "size" else 3) for k in how}}
                if "samplerate" in whole and "step" not in whole:
                    whole["samplerate"] = "1"
                yield dict(whole, call=form, argty=ty)
    # the dtype written as a type, a string, a numpy dtype, a type code; the default dtype given explicitly
    for kind, how in reqs:
        for dtyform in ("str", "npdtype", "code", "builtin"):
            for dtype in (None, "float32"):
                c = {"kind": kind, "start": "1/2", "stop": "2", **how, "dtyform": dtyform, "call": rng.choice([0, 3, 6])}
                if dtype:
                    c["dtype"] = dtype
                yield c
    # the size as int / numpy int / whole float, with a step that is no whole number, every number type of the bounds
    for sizety in (None, "npint", "np32int", "float", "np64"):
        for ty in (None, "int", "npint", "np64"):
            for start, stop, size in (("0", "1", 4), ("1", "4", 2), ("-3", "0", 8), ("0", "3", 3)):
                c = {"kind": "range", "start": start, "stop": stop, "size": size, "call": rng.choice([0, 3, 5])}
                if sizety:
                    c["sizety"] = sizety
                if ty:
                    c["argty"] = {"start": ty, "stop": ty}
                yield c
    # malformed requests in every form
    for form in (0, 2, 3, 6):
        yield {"kind": "range", "start": "0", "stop": "1", "call": form}
        yield {"kind": "time", "start": "0", "stop": "1", "call": form}
        yield {"kind": "range", "start": "0", "stop": "1", "step": "0", "call": form}
        yield {"kind": "time", "start": "0", "stop": "1", "samplerate": "0", "call": form}


def _range_eps_cases():
    """tolerance-sized offsets around the two comparisons of the range constructors - the whole quotient (where the
    length of the arange changes) and the half quotient (where the trailing-point rule decides) - at small and large
    magnitudes: stop = start + (m/2) * step +- eps, eps = 2^-20, 2^-30, 2^-40 of the magnitude of stop (about 1e-6,
    1e-9, 1e-12), kept only where every number is a binary64 number (the comparison stays exact)"""
    starts = [Fraction(0), Fraction(13, 4), Fraction(2 ** 20) + Fraction(1, 2), Fraction(-(2 ** 10)), Fraction(2 ** 30)]
    steps = [Fraction(1, 4), Fraction(3, 4), Fraction(1), Fraction(5, 2)]
    for s0 in starts:
        for st in steps:
            for m in range(0, 7):
                base = s0 + st * m / 2
                mag = Fraction(2) ** max(0, math.ceil(math.log2(max(1, abs(float(base))))))
                for e in (20, 30, 40):
                    for sgn in (1, -1):
                        stop = base + sgn * mag / 2 ** e
                        if Fraction(float(stop)) != stop or stop < s0:
                            continue
                        yield {"kind": "range", "start": rat(s0), "stop": rat(stop), "step": rat(st)}


def _range_long_cases(rng):
    """whole and half quotients with 2^k - 1, 2^k, 2^k + 1 coordinates (k = 4, 8, 10, 11, 12): exact on the grid"""
    for n in (15, 16, 17, 255, 256, 257, 1023, 1024, 1025, 2047, 2048, 2049, 4096, 4097):
        st, s0 = rng.choice([(Fraction(1, 4), Fraction(0)), (Fraction(3, 8), Fraction(-5, 2)), (Fraction(1, 64), Fraction(7))])
        half = rng.choice([0, 0, 1]) * st / 2
        how = rng.choice(["step", "step", "size", "samplerate", "frequency"])
        if how == "size":
            yield {"kind": "range", "start": rat(s0), "stop": rat(s0 + n * st), "size": n}
        elif how == "samplerate":
            yield {"kind": "time", "start": rat(s0), "stop": rat(s0 + Fraction(n, 64) + half / 16), "samplerate": "64"}
        elif how == "frequency":
            yield {"kind": "frequency", "start": rat(s0), "stop": rat(s0 + n * st + half), "step": rat(st)}
        else:
            yield {"kind": "range", "start": rat(s0), "stop": rat(s0 + n * st + half), "step": rat(st),
                   **({"dtype": "float32"} if n == 1024 else {})}


def _index_long_cases(ctx):
    """every lattice point of a few non-dyadic axes (all coordinates, both float neighbours, every midpoint), and
    axes of 2^k - 1, 2^k, 2^k + 1 and more than 1024 / 4096 points with every coordinate looked up"""
    rng = ctx.rng

    def sample(n):
        return sorted(rng.sample(range(n), min(n, 12)))
    for step, start, n, make in ((0.01, 0.0, 1025, "lib"), (1 / 44100, 0.3, 1025, "np"), (0.1, 0.0, 257, "np"),
                                 (1 / 3, 0.3, 257, "lib"), (0.01, 1e6, 300, "np"), (1e-7, 0.0, 300, "lib")):
        yield {"start": rat(start), "step": rat(step), "n": n, "make": make, "sweep": "full", "sample": sample(n)}
    # tolerance-sized offsets (1e-6 … 1e-12 of the spacing and of the magnitude) on both sides of every coordinate
    # and beyond both ends of the small hand-made axes (decimal, thirds, huge, tiny, random at four magnitudes,
    # adjacent floats, a repeated coordinate)
    for ax in _axes_pool(rng, ctx.budget(2, 20)):
        yield {"coords": rats(ax), "sweep": "full", "sample": list(range(len(ax)))}
    sizes = [15, 16, 17, 255, 256, 1023, 1024, 2047, 2048, 2049, 4099]
    if ctx.thorough():
        sizes += [8191, 8192, 8193, 65537]
    for n in sizes:
        step, start = rng.choice([(0.01, 0.0), (0.004, 12.7), (1 / 22050, 0.0), (0.3, -1.3)])
        yield {"start": rat(start), "step": rat(step), "n": n, "make": rng.choice(["lib", "np"]), "sweep": "coords",
               "sample": sample(n)}


def _index_form_cases(rng):
    """get_coord_index in every call form x flag given as bool / int / numpy bool / left out x inside, on the upper
    edge, beyond both ends x value types"""
    axes = [[Fraction(0), Fraction(1, 2), Fraction(3, 2)], [Fraction(-3)], [Fraction(1, 4) * i for i in range(5)]]
    for ax in axes:
        gap = ax[1] - ax[0] if len(ax) > 1 else Fraction(1)
        for v in (ax[0], ax[-1], ax[0] + gap / 4, ax[-1] + gap / 2, ax[0] - gap / 2):
            for raise_ in (True, False):
                for form in range(0, 5):
                    for rty in (None, "int", "npbool"):
                        c = {"coords": rats(ax), "v": rat(v), "raise": raise_, "call": form}
                        if rty:
                            c["rty"] = rty
                        yield c
                    if raise_:
                        yield {"coords": rats(ax), "v": rat(v), "raise": True, "omit_raise": True, "call": min(form, 3)}
            for qty in ("np64", "np32", "int", "npint"):
                if _fits(float(v), qty):
                    yield {"coords": rats(ax), "v": rat(v), "raise": rng.random() < 0.5, "qty": qty, "call": rng.randint(0, 4)}


def _range_history_cases(ctx):
    rng = ctx.rng
    base = [c for c in _range_random_cases(rng, ctx.budget(80, 800))]
    base += [{"kind": "range", "start": "0", "stop": "1", "step": "1/4"}, {"kind": "time", "start": "0", "stop": "2", "samplerate": "4"},
             {"kind": "frequency", "start": "0", "stop": "1000", "step": "250"}, {"kind": "range", "start": "1/2", "stop": "2", "size": 6}]
    hs = history.sequences(rng, base, ctx.budget(120, 1200), variants=_rh_variants, poison=True)
    for i, h in enumerate(hs):
        # every history gets numbers of its own (shifted by a whole offset): whatever an earlier history left behind
        # in the process cannot be met again, so a failing history is reproduced by replaying it alone
        off = 8 * (i + 1)
        for st in h["seq"]:
            c = st["inp"]
            st["inp"] = _sane_range_case({**c, "start": rat(frac(c["start"]) + off), "stop": rat(frac(c["stop"]) + off)})
            ctx.tally("history:range:" + ("fresh+poison" if st.get("poison") else "fresh"))
    return hs


def _index_history_cases(ctx):
    rng = ctx.rng
    base = []
    for ax in _axes_pool(rng, 1):
        if len(ax) < 1 or any(b <= a for a, b in zip(ax, ax[1:])):
            continue
        q = rng.choice(_queries(ax))
        c = {"coords": rats(ax), "v": rat(q), "raise": rng.random() < 0.6}
        x = rng.random()
        if x < 0.2:
            c["call"] = rng.randint(0, 4)
        elif x < 0.35 and c["raise"]:
            c["omit_raise"] = True
        elif x < 0.5:
            c["qty"] = rng.choice(["np64", "int", "npint"])
        if rng.random() < 0.4:       # attributes that describe the axis now and go stale with `copy_data`
            c["cattrs"] = rng.choice(["consistent", "end", "eps"])
        base.append(c)
    hs = history.sequences(rng, base, ctx.budget(160, 1600), variants=_ih_variants, reuse_hows=IH_REUSE)
    for h in hs:
        for st in h["seq"]:
            ctx.tally("history:index:" + (st.get("reuse") or "fresh"))
    return hs


def _set_session_cases(ctx):
    """sessions of 3-5 writes into one live array (every construction path of 2-D / 3-D arrays among them), with
    the coordinates of an axis re-assigned between calls, rejected calls in between, both ways of carrying on"""
    rng = ctx.rng
    for shape in ND_SHAPES:
        nd = len(shape)
        builds = _builds(rng, nd, 2)
        for b in rng.sample(builds, min(len(builds), ctx.budget(6, 30))) + [{}]:
            if b.get("axis_dtype"):
                continue
            axes = _built_axes(rng, shape, b)
            axes0 = [rats(a) for a in axes]
            qable = [k for k in range(nd) if k not in b.get("nocoord", ())]
            steps = []
            for _ in range(rng.randint(3, 5)):
                st = {}
                if qable and steps and rng.random() < 0.45:
                    k = rng.choice(qable)
                    a0, stp = Fraction(rng.randint(-8, 8), 4), Fraction(rng.choice([1, 2, 3, 5]), 4)
                    axes = [list(a) for a in axes]
                    axes[k] = [a0 + i * stp for i in range(shape[k])]
                    how = rng.choice(["setitem", "assign", "copy_data"])
                    if (b.get("step_attr") or b.get("range_attrs")) and how != "setitem":
                        how = "setitem"       # (a re-assigned axis drops the attribute that described the old one)
                    st["recoord"] = {"axis": k, "coords": rats(axes[k]), "how": how}
                    ctx.tally("session:recoord:" + how)
                q, v = _rand_write(rng, shape, axes, qable, outside=0.15)
                if steps and rng.random() < (0.6 if st.get("recoord") else 0.2):
                    # the very query of an earlier call again (x, a neighbour, x again): on re-assigned coordinates it
                    # addresses another cell or lies outside now
                    prev = rng.choice(steps)
                    q = [list(e) for e in prev["query"]]
                    free = [shape[k] for k in range(nd) if k not in [e[0] for e in q]]
                    v = prev["value"] if rng.random() < 0.5 else _value(rng, "scalar", free)
                    ctx.tally("session:query-repeated")
                st.update(query=q, value=v)
                x = rng.random()
                if x < 0.2:
                    st["use"] = "given"
                if x > 0.7:      # (a sequence into a single cell is rejected as a list / tuple only: no ndarray there)
                    st["container"] = rng.choice(["tuple", "ndarray"]) if len(st["query"]) < nd else "tuple"
                if rng.random() < 0.3:
                    st["call"] = rng.randint(0, 2)
                steps.append(st)
                ctx.tally("session:write")
            case = {"shape": list(shape), "data": rats(range(1, math.prod(shape) + 1)),
                    "axes": axes0, "steps": steps}
            if b:
                case["build"] = b
            yield case



def _index_derived_cases(ctx):
    """arrays that went through the library's own extend_dim / crop_dim / adjust_dim_range / set_dim_attrs (and
    sel / isel / re-labelling afterwards): their coordinates carry `start` / `stop` attributes, eps-shifted or stale"""
    rng = ctx.rng
    bases = [("time", 0.0, 1.0, 0.1), ("time", 0.0, 2.0, 0.25), ("frequency", 0.0, 1000.0, 125.0),
             ("range", 0.5, 1.5, 0.125), ("time", 5.0, 5.5, 0.05)]
    for kind, a, b, st in bases:
        span = b - a
        chains = [
            [("extend_dim", [a - 3 * st, None])], [("extend_dim", [None, b + 3 * st])],
            [("extend_dim", [a - 2 * st, b + 2 * st])],
            [("crop_dim", [a + 2 * st, b - 3 * st])],
            [("extend_dim", [a - 3 * st, b + 3 * st]), ("crop_dim", [a + st, b - 2 * st])],
            [("extend_dim", [a - 3 * st, None]), ("crop_dim", [None, b - 4 * st])],
            [("adjust_dim_range", [a - 3 * st, a + span / 2])], [("adjust_dim_range", [a + 2 * st, b + 3 * st])],
            [("adjust_dim_range", [a - 2 * st, b + 2 * st])],
            [("set_dim_attrs", [a, b])], [("set_dim_attrs", [a - 2 * st, b + 2 * st])],
            [("set_dim_attrs", [a + 2 * st, b - 3 * st])],
            [("set_dim_attrs", [a, b]), ("isel", [2, -2])], [("set_dim_attrs", [a, b]), ("sel", [a + st, b - 2 * st])],
            [("extend_dim", [a - 2 * st, b + 2 * st]), ("isel", [1, -3])],
            [("extend_dim", [None, b + 2 * st]), ("shift", [10 * st])],
            [("set_dim_attrs", [a, b]), ("shift", [-3 * st])],
        ]
        for _ in range(ctx.budget(2, 20)):
            lo, hi = sorted(rng.sample(range(-4, int(span / st) + 5), 2))
            second = rng.choice([("isel", [1, -1]), ("isel", [0, -2]), ("shift", [st]), ("shift", [-2 * st])])
            chains.append([(rng.choice(["adjust_dim_range", "extend_dim"]), [a + lo * st, a + hi * st]), second])
        for ch in chains:
            yield {"range": {"kind": kind, "start": rat(a), "stop": rat(b), "step": rat(st)},
                   "chain": [[op, list(args) if op == "isel" else [None if x is None else rat(float(x)) for x in args]]
                             for op, args in ch]}


def _stage_ranges(ctx):
    ctx.run_cases(OPS["range_dim"], _range_grid_cases())
    ctx.exhaustive["range_dim grid"] = "4 starts x 5 dyadic steps x stop = start + m*step/4, m = 0..24 (every quotient fraction)"
    ctx.run_cases(OPS["range_dim"], _range_random_cases(ctx.rng, ctx.budget(1500, 20000)))


def _stage_index(ctx):
    ctx.run_cases(OPS["coord_index"], _index_cases(ctx))
    ctx.exhaustive["coord_index"] = ("axes of 1-6 points (decimal, thirds, integers, huge, tiny, random, adjacent floats, "
                                     "repeated coordinate): every coordinate, both float neighbours, every midpoint, beyond both "
                                     "ends, raise and clamp")


def _stage_index_dim(ctx):
    ctx.run_cases(OPS["coord_index_dim"], _index_dim_cases(ctx))
    ctx.exhaustive["coord_index_dim"] = ("axes built by create_range_dim / create_time_range / create_frequency_range with "
                                         "steps 0.1, 0.01, 1/3, 1/44100, ...: every coordinate, its two float neighbours and "
                                         "every midpoint looked up, judged by the Lean index statement")


def _stage_index_derived(ctx):
    ctx.run_cases(OPS["coord_index_derived"], _index_derived_cases(ctx))
    ctx.exhaustive["coord_index_derived"] = ("time / frequency / plain range axes put through extend_dim, crop_dim, "
                                             "adjust_dim_range, set_dim_attrs (consistent and stale `start` / `stop`), "
                                             "then isel / sel / re-labelling: every coordinate, float neighbours, "
                                             "midpoints, up to two steps beyond both ends and the values the "
                                             "attributes mention looked up (raise and clamp) and written at")


def _stage_index_nd(ctx):
    ctx.run_cases(OPS["coord_index_nd"], _index_nd_cases(ctx))
    ctx.exhaustive["coord_index_nd"] = ("every axis of 13 non-square 2-D / 3-D shapes x every registration order of the "
                                        "coordinates, every transposition, every dimension (pair) without coordinate, "
                                        "extra non-index coordinates, assign / Dataset / tuple forms, step attributes, "
                                        "float32 / int64 axes: clamp beyond both ends (ulp, half a step, a step, far), "
                                        "raise, on / between coordinates")


def _stage_set_built(ctx):
    ctx.run_cases(OPS["set_value"], _set_cases_built(ctx))
    ctx.exhaustive["set_value construction paths"] = (
        "14 shapes (1-D, non-square 2-D / 3-D) x every registration order of the coordinates, every transposition, every "
        "dimension (pair) without coordinate, extra non-index coordinates (scalar, 1-D, 2-D) before / after, assign / "
        "Dataset / tuple forms, step attributes, float32 / int64 axes, Fortran layout x every subset of queried axes; "
        "the whole array is compared after the call")


def _stage_set(ctx):
    ctx.run_cases(OPS["set_value"], _set_cases(ctx))
    ctx.run_cases(OPS["set_value"], _set_cases_4d(ctx))
    ctx.exhaustive["set_value"] = ("all shapes with 1-3 axes of 1-3 points, every subset of queried axes, every addressed "
                                   "index; scalar / exact / broadcast / unbroadcastable values")



def _sig_table(fn):
    """the signature of a function as a Lean `SE.Axis.Sig` term (None when it has a parameter the table cannot
    express: positional-only, keyword-only, *args)"""
    import inspect
    ps, varkw = [], False
    for prm in inspect.signature(fn).parameters.values():
        if prm.kind is inspect.Parameter.VAR_KEYWORD:
            varkw = True
        elif prm.kind is inspect.Parameter.POSITIONAL_OR_KEYWORD:
            if prm.default is inspect.Parameter.empty:
                ps.append(f'.req "{prm.name}"')
            else:
                d = prm.default
                txt = d.__name__ if isinstance(d, type) else (d if isinstance(d, str) else repr(d))
                txt = "".join(ch for ch in str(txt) if ch.isalnum() or ch in "_.-")[:40]
                ps.append(f'.opt "{prm.name}" "{txt}"')
        else:
            return None
    return "({ params := [" + ", ".join(ps) + f"], varkw := {'true' if varkw else 'false'} }} : SE.Axis.Sig)"


def _stage_signatures(ctx):
    """Tie 1: the parameter tables of the five functions (order, names, defaults), read off the imported functions,
    are the documented tables `rangeSig` … `setSig` of the Lean model, possibly followed by further parameters that
    have defaults (`Sig.Extends`), without a repeated name; `C16_call_forms` is the general theorem about such tables
    (every positional / keyword split of a call binds alike, positional argument i goes to parameter i),
    `C16_sig_extends` says an extended table binds the documented calls as the documented table does"""
    from soundevent import arrays
    for fname, ref, op in (("create_range_dim", "rangeSig", "range_dim"), ("create_time_range", "timeSig", "range_dim"),
                           ("create_frequency_range", "freqSig", "range_dim"), ("get_coord_index", "indexSig", "coord_index"),
                           ("set_value_at_pos", "setSig", "set_value")):
        name = f"sig_{fname}"
        fn = getattr(arrays, fname, None)
        term = None
        try:
            term = _sig_table(fn) if fn is not None else None
        except Exception:  # noqa: BLE001
            term = None
        if term is None:
            ctx.pre_failed.append(name)
            ctx.fail("obligation", name, detail=f"the signature of {fname} cannot be read off as a table of "
                     "positional-or-keyword parameters", extra={"op": op})
            continue
        ctx.obligation(name, f"theorem {name} : SE.Axis.Sig.Extends {term} SE.Axis.{ref} = true ∧ "
                             f"SE.Axis.Sig.WellFormed {term} := by decide", {"op": op})


def _stage_call_forms(ctx):
    ctx.run_cases(OPS["range_dim"], _range_form_cases(ctx.rng))
    ctx.run_cases(OPS["coord_index"], _index_form_cases(ctx.rng))
    ctx.exhaustive["call forms"] = ("create_range_dim / create_time_range / create_frequency_range: 0 … all arguments "
                                    "positional (documented order) x way of giving the step x dtype x name x further "
                                    "attributes; get_coord_index: 0 … 4 positional x flag as bool / int / numpy bool / "
                                    "omitted x inside / edge / beyond; set_value_at_pos: array / value by keyword")


def _stage_boundaries(ctx):
    ctx.run_cases(OPS["range_dim"], _range_eps_cases())
    ctx.run_cases(OPS["range_dim"], _range_long_cases(ctx.rng))
    ctx.run_cases(OPS["coord_index_long"], _index_long_cases(ctx))
    ctx.exhaustive["range_dim thresholds"] = ("5 starts (0 … 2^30) x 4 steps x quotient m/2, m = 0..6, +- 2^-20 / 2^-30 / "
                                              "2^-40 of the magnitude; 2^k - 1, 2^k, 2^k + 1 coordinates up to 4097")
    ctx.exhaustive["coord_index_long"] = ("every lattice point (coordinate, both float neighbours, midpoint) of axes with "
                                          "steps 0.01, 1/44100 (1025 points), 0.1, 1/3 (257), 0.01 at 1e6, 1e-7; every "
                                          "coordinate of axes with 15 … 4099 points (2^k - 1, 2^k, 2^k + 1)")


def _stage_histories(ctx):
    """consecutive calls in one process (HISTORIES.md 1): range requests and their neighbours with results poisoned
    and re-read, lookups on arrays whose coordinates are re-assigned, sessions of writes into one live array"""
    ctx.run_cases(OPS["range_history"], _range_history_cases(ctx))
    ctx.run_cases(OPS["index_history"], _index_history_cases(ctx))
    ctx.run_cases(OPS["set_session"], _set_session_cases(ctx))


def _stage_kernels(ctx):
    """Tie 1b: the kernels of the five functions, traced from the current source, equal the model's kernels
    for all rationals (62 obligations; `C16_range_kernel`, `C16_index_kernel`, `C16_indexer_kernel`,
    `C16_set_kernel` connect the kernels with the model the other theorems are about)"""
    from .. import c16_sym
    ctx.stage("kernel-range", c16_sym.range_ties, ctx)
    ctx.stage("kernel-index", c16_sym.index_ties, ctx)
    ctx.stage("kernel-set", c16_sym.set_ties, ctx)
    ctx.stage("signatures", _stage_signatures, ctx)
    ctx.discharge(["SoundeventModel.Axis", "SoundeventModel.AxisKernel", "SoundeventModel.AxisCalls", "SoundeventModel.Tactics"])


def run(ctx):
    ctx.stage("corpus", ctx.run_corpus, OPS)
    ctx.stage("kernel-ties", _stage_kernels, ctx)
    ctx.stage("range-exact", _stage_ranges, ctx)
    ctx.stage("range-free-monitor", lambda: ctx.run_cases(OPS["range_free"], _range_free_cases(ctx)))
    ctx.stage("coord-index", _stage_index, ctx)
    ctx.stage("coord-index-on-range-dims", _stage_index_dim, ctx)
    ctx.stage("coord-index-derived-arrays", _stage_index_derived, ctx)
    ctx.stage("coord-index-nd", _stage_index_nd, ctx)
    ctx.stage("set-value", _stage_set, ctx)
    ctx.stage("set-value-construction-paths", _stage_set_built, ctx)
    ctx.stage("call-forms", _stage_call_forms, ctx)
    ctx.stage("boundaries", _stage_boundaries, ctx)
    ctx.stage("histories", _stage_histories, ctx)


def search(ctx, failures):
    ctx.run_cases(OPS["range_dim"], _range_random_cases(ctx.rng, 5000))
    ctx.run_cases(OPS["coord_index"], _index_cases(ctx))
    ctx.run_cases(OPS["coord_index_dim"], _index_dim_cases(ctx))
    ctx.run_cases(OPS["coord_index_derived"], _index_derived_cases(ctx))
    ctx.run_cases(OPS["coord_index_nd"], _index_nd_cases(ctx, 12))
    ctx.run_cases(OPS["set_value"], _set_cases(ctx))
    ctx.run_cases(OPS["set_value"], _set_cases_built(ctx))
